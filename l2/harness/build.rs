fn main() {
    // make `getrandom` visible to dlsym(RTLD_DEFAULT, ..), which is how std
    // looks it up
    println!("cargo:rustc-link-arg-bins=-Wl,--export-dynamic-symbol=getrandom");
}
