//! L2: the real thread-pool scheduler (`TaskState::{schedule, execute}`,
//! `ThreadedQueryHandle::cancel`) and the real operators under shuttle's seeded
//! scheduler. Every `parking_lot::Mutex::lock` of the engine is a scheduling
//! point; threads of the (shim) pool are shuttle threads.
//!
//! glaresim-l2 check <C04|C03|C06|C07|C14> <quick|thorough>
//! glaresim-l2 replay <file>

mod entropy;

use std::collections::BTreeSet;
use std::panic::{AssertUnwindSafe, catch_unwind};
use std::sync::Arc;
use std::sync::atomic::{AtomicU64, AtomicUsize, Ordering};
use std::time::Instant;

use glaredb_core::arrays::batch::Batch;
use glaredb_core::engine::Engine;
use glaredb_core::runtime::filesystem::dispatch::FileSystemDispatch;
use glaredb_core::runtime::system::SystemRuntime;
use glaredb_rt_shadow::runtime::NativeExecutor;
use glaredb_rt_shadow::threaded::ThreadedScheduler;
use glaredb_rt_shadow::time::NativeInstant;
use serde_json::json;
use shuttle::scheduler::{PctScheduler, RandomScheduler, ReplayScheduler};
use shuttle::{Config, FailurePersistence, MaxSteps, Runner};

#[derive(Debug, Clone)]
struct L2System {
    dispatch: Arc<FileSystemDispatch>,
}

impl SystemRuntime for L2System {
    type Instant = NativeInstant;
    fn filesystem_dispatch(&self) -> &FileSystemDispatch {
        &self.dispatch
    }
}

fn mix(mut z: u64) -> u64 {
    z = (z ^ (z >> 30)).wrapping_mul(0xbf58476d1ce4e5b9);
    z = (z ^ (z >> 27)).wrapping_mul(0x94d049bb133111eb);
    z ^ (z >> 31)
}

struct Rng(u64);
impl Rng {
    fn next(&mut self) -> u64 {
        self.0 = self.0.wrapping_add(0x9e3779b97f4a7c15);
        mix(self.0)
    }
    fn below(&mut self, n: u64) -> u64 {
        ((self.next() as u128 * n as u128) >> 64) as u64
    }
    fn pick<'a, T>(&mut self, xs: &'a [T]) -> &'a T {
        &xs[self.below(xs.len() as u64) as usize]
    }
}

#[derive(Debug, Clone)]
struct Scenario {
    threads: usize,
    partitions: usize,
    batch: usize,
    hash_joins: bool,
    setup: Vec<String>,
    queries: Vec<String>,
    /// cancel query `.0` after `.1` yields of the cancelling thread
    cancel: Option<(usize, usize)>,
    /// the client drops the result of query `.0` after one poll
    drop_early: Option<usize>,
}

const QUERIES: &[&str] = &[
    "SELECT k, count(*), sum(x) FROM t GROUP BY k",
    "SELECT count(DISTINCT k), sum(x), min(x), count(*) FROM t",
    "SELECT k, count(DISTINCT j), sum(DISTINCT x % 3) FROM t GROUP BY k",
    "SELECT t.x, u.y FROM t LEFT JOIN u ON t.k = u.k",
    "SELECT t.x, u.y FROM t RIGHT JOIN u ON t.k = u.k",
    "SELECT t.x FROM t SEMI JOIN u ON t.k = u.k",
    "SELECT x FROM t WHERE k NOT IN (SELECT k FROM u WHERE k IS NOT NULL)",
    "SELECT x, EXISTS (SELECT 1 FROM u WHERE u.k = t.k) FROM t",
    "SELECT t.x, u.y FROM t INNER JOIN u ON t.k = u.k AND t.x > u.y",
    "SELECT t.x, u.y FROM t LEFT JOIN u ON t.x < u.y",
    "SELECT x FROM t ORDER BY k DESC, x LIMIT 5",
    "SELECT x, k FROM t ORDER BY x DESC",
    "WITH c AS (SELECT k, count(*) AS n FROM t GROUP BY k) SELECT sum(n) FROM c UNION ALL SELECT count(*) FROM c",
    "SELECT x FROM t UNION ALL SELECT y FROM u",
    "SELECT x FROM t UNION SELECT y FROM u",
    "SELECT count(*) FROM t, u",
    // probe side that finishes without producing a batch (LIMIT/OFFSET past the end)
    "SELECT count(*), count(s.y) FROM t LEFT JOIN (SELECT y, k FROM u LIMIT 5 OFFSET 100) s ON t.k = s.k",
    "SELECT count(*) FROM t LEFT JOIN (SELECT a.k FROM u a JOIN u b ON a.y = b.y + 1000) s ON t.k = s.k",
    "SELECT (SELECT max(y) FROM u WHERE u.k = t.k) FROM t",
    "SELECT DISTINCT k FROM t",
];

const DML: &[&str] = &[
    "CREATE TEMP TABLE z AS SELECT k, sum(x) AS s FROM t GROUP BY k",
    "INSERT INTO t SELECT * FROM t",
    "INSERT INTO u SELECT x, k FROM t WHERE x < 5",
];

fn gen_scenario(seed: u64, cancel_family: bool) -> Scenario {
    let mut r = Rng(mix(seed ^ 0xabcdef));
    let n = *r.pick(&[0u64, 3, 9, 20, 40]);
    let m = *r.pick(&[0u64, 2, 7, 15]);
    let threads = *r.pick(&[1usize, 2, 2, 3, 4]);
    let partitions = *r.pick(&[1usize, 2, 2, 3, 4]);
    let batch = *r.pick(&[2usize, 4, 16, 2048]);
    let setup = vec![
        format!("SET partitions TO {partitions}"),
        format!("SET batch_size TO {batch}"),
        format!("CREATE TEMP TABLE t AS SELECT x, CASE WHEN x % 5 <> 0 THEN x % 4 END AS k, x % 3 AS j FROM generate_series(1, {n}) g(x)"),
        format!("CREATE TEMP TABLE u AS SELECT y, CASE WHEN y % 4 <> 0 THEN y % 6 END AS k FROM generate_series(1, {m}) g(y)"),
    ];
    let hash_joins = r.below(4) != 0;
    let mut queries = Vec::new();
    let nq = 1 + r.below(3) as usize;
    for _ in 0..nq {
        if r.below(5) == 0 {
            queries.push((*r.pick(DML)).to_string());
            queries.push("SELECT count(*), sum(x) FROM t".to_string());
        } else {
            queries.push((*r.pick(QUERIES)).to_string());
        }
    }
    let cancel = if cancel_family { Some((r.below(queries.len() as u64) as usize, r.below(12) as usize)) } else { None };
    // only plain queries are abandoned (an abandoned DML statement may or may
    // not have taken effect, which would make later statements incomparable)
    let drop_early = if !cancel_family && r.below(6) == 0 { Some(r.below(queries.len() as u64) as usize).filter(|i| queries[*i].starts_with("SELECT") || queries[*i].starts_with("WITH")) } else { None };
    let cancel = cancel.filter(|c| queries[c.0].starts_with("SELECT") || queries[c.0].starts_with("WITH"));
    Scenario { threads, partitions, batch, hash_joins, setup, queries, cancel, drop_early }
}

fn render(batches: &[Batch]) -> Vec<String> {
    let mut rows = Vec::new();
    for b in batches {
        for r in 0..b.num_rows() {
            let mut s = String::new();
            for a in b.arrays() {
                match a.get_value(r) {
                    Ok(v) => s.push_str(&format!("{v}|")),
                    Err(e) => s.push_str(&format!("<{e}>|")),
                }
            }
            rows.push(s);
        }
    }
    rows.sort();
    rows
}

/// Outcome of one statement: sorted rendered rows, or an error text.
type StmtOut = Result<Vec<String>, String>;

/// Run the scenario inside a shuttle execution. Returns per-query outcomes.
fn run_in_shuttle(sc: &Scenario, threads: usize, partitions_override: Option<usize>) -> Vec<StmtOut> {
    let exec = NativeExecutor::<ThreadedScheduler>::try_new_with_num_threads(threads).expect("executor");
    let sys = L2System { dispatch: Arc::new(FileSystemDispatch::empty()) };
    let engine = Engine::new(exec, sys).expect("engine");
    let mut session = engine.new_session().expect("session");
    let mut outs = Vec::new();
    shuttle::future::block_on(async {
        for (i, s) in sc.setup.iter().enumerate() {
            let sql = match (i, partitions_override) {
                (0, Some(p)) => format!("SET partitions TO {p}"),
                _ => s.clone(),
            };
            let mut res = session.simple(&sql).await.unwrap_or_else(|e| panic!("setup failed: {sql}: {e}"));
            let _ = res.pop().unwrap().output.collect().await.unwrap_or_else(|e| panic!("setup failed: {sql}: {e}"));
        }
        let hj = format!("SET enable_hash_joins TO {}", sc.hash_joins);
        let mut res = session.simple(&hj).await.expect("set");
        let _ = res.pop().unwrap().output.collect().await;
        for (qi, q) in sc.queries.iter().enumerate() {
            let mut res = match session.simple(q).await {
                Ok(r) => r,
                Err(e) => {
                    outs.push(Err(format!("{e}")));
                    continue;
                }
            };
            let mut qr = res.pop().unwrap();
            if let Some((cq, yields)) = sc.cancel {
                if cq == qi {
                    let handle = qr.output.query_handle();
                    shuttle::thread::spawn(move || {
                        for _ in 0..yields {
                            shuttle::thread::sleep(std::time::Duration::from_millis(0));
                        }
                        handle.cancel();
                    });
                }
            }
            if sc.drop_early == Some(qi) {
                // poll the stream once, then drop it with the query still running
                {
                    let fut = qr.output.collect();
                    futures::pin_mut!(fut);
                    let _ = futures::poll!(fut);
                }
                drop(qr);
                outs.push(Ok(vec!["<dropped>".into()]));
                continue;
            }
            match qr.output.collect().await {
                Ok(b) => outs.push(Ok(render(&b))),
                Err(e) => outs.push(Err(format!("{e}"))),
            }
        }
    });
    outs
}

fn shuttle_config(dir: &str) -> Config {
    let mut cfg = Config::new();
    cfg.stack_size = 8 << 20;
    cfg.max_steps = MaxSteps::FailAfter(3_000_000);
    cfg.failure_persistence = FailurePersistence::File(Some(dir.into()));
    cfg.silence_warnings = true;
    cfg
}

thread_local! {
    static LAST_PANIC: std::cell::RefCell<Option<String>> = const { std::cell::RefCell::new(None) };
}

/// One seeded execution: reference (1 thread, 1 partition, round robin), then
/// the scenario under the seeded scheduler. Returns Ok((locks, trace)) or the
/// violation text.
fn one_execution(seed: u64, cancel_family: bool, dir: &str, replay_schedule: Option<String>) -> Result<(u64, u64, Scenario), (String, String, Scenario, Option<String>)> {
    entropy::set_entropy(seed);
    let sc = gen_scenario(seed, cancel_family);
    // reference outcomes
    let reference: Arc<std::sync::Mutex<Vec<StmtOut>>> = Arc::new(std::sync::Mutex::new(Vec::new()));
    {
        let sc2 = Scenario { cancel: None, drop_early: None, ..sc.clone() };
        let r2 = reference.clone();
        let runner = Runner::new(shuttle::scheduler::RoundRobinScheduler::new(1), shuttle_config(dir));
        let res = catch_unwind(AssertUnwindSafe(|| {
            runner.run(move || {
                let o = run_in_shuttle(&sc2, 1, Some(1));
                *r2.lock().unwrap() = o;
            })
        }));
        if res.is_err() {
            let msg = LAST_PANIC.with(|p| p.borrow_mut().take()).unwrap_or_default();
            return Err(("reference-run-failed".into(), format!("the sequential reference execution (1 thread, 1 partition) failed: {msg}"), sc, None));
        }
    }
    let reference = reference.lock().unwrap().clone();
    parking_lot::reset_probe();
    let sc3 = sc.clone();
    let violation: Arc<std::sync::Mutex<Option<(String, String)>>> = Arc::new(std::sync::Mutex::new(None));
    let v2 = violation.clone();
    let refc = reference.clone();
    let body = move || {
        let outs = run_in_shuttle(&sc3, sc3.threads, None);
        for (qi, (o, r)) in outs.iter().zip(refc.iter()).enumerate() {
            let cancelled = sc3.cancel.map(|c| c.0 == qi).unwrap_or(false);
            let dropped = sc3.drop_early == Some(qi);
            let bad = if dropped {
                None
            } else if cancelled {
                // the stream ends with an error, or the query had already
                // produced its complete, correct result
                match (o, r) {
                    (Err(_), _) => None,
                    (Ok(a), Ok(b)) if a == b => None,
                    (Ok(a), _) => Some(format!("cancelled query returned {} rows that are neither an error nor the complete result", a.len())),
                }
            } else {
                match (o, r) {
                    (Ok(a), Ok(b)) if a == b => None,
                    (Err(_), Err(_)) => None,
                    (Ok(a), Ok(b)) => Some(format!("rows differ from the sequential execution: {} vs {} rows; first got {:?} expected {:?}", a.len(), b.len(), a.iter().find(|x| !b.contains(x)), b.iter().find(|x| !a.contains(x)))),
                    (Err(e), Ok(_)) => Some(format!("error only under this schedule: {e}")),
                    (Ok(_), Err(e)) => Some(format!("sequential execution fails ({e}), this schedule returns rows")),
                }
            };
            if let Some(d) = bad {
                *v2.lock().unwrap() = Some(("rows-mismatch".into(), format!("query {qi} `{}`: {d}", sc3.queries[qi])));
                panic!("L2 violation: {d}");
            }
        }
    };
    let res = match &replay_schedule {
        Some(s) => {
            let sched = ReplayScheduler::new_from_encoded(s);
            let mut cfg = shuttle_config(dir);
            cfg.failure_persistence = FailurePersistence::None;
            let runner = Runner::new(sched, cfg);
            catch_unwind(AssertUnwindSafe(|| runner.run(body)))
        }
        None => {
            if seed % 3 == 0 {
                let runner = Runner::new(PctScheduler::new_from_seed(seed, 1 + (seed % 4) as usize, 1), shuttle_config(dir));
                catch_unwind(AssertUnwindSafe(|| runner.run(body)))
            } else {
                let runner = Runner::new(RandomScheduler::new_from_seed(seed, 1), shuttle_config(dir));
                catch_unwind(AssertUnwindSafe(|| runner.run(body)))
            }
        }
    };
    let (locks, trace) = parking_lot::probe();
    match res {
        Ok(_) => Ok((locks, trace, sc)),
        Err(_) => {
            let msg = LAST_PANIC.with(|p| p.borrow_mut().take()).unwrap_or_default();
            let (class, detail) = match violation.lock().unwrap().take() {
                Some(v) => v,
                None => {
                    if msg.contains("deadlock") {
                        ("hang-deadlock".to_string(), format!("shuttle reports a deadlock (lost wake-up: every thread blocked, the client future pending): {msg}"))
                    } else if msg.contains("exceeded max_steps") || msg.contains("max steps") {
                        ("hang-no-progress".to_string(), format!("step bound exceeded: {msg}"))
                    } else {
                        ("panic".to_string(), format!("panic under this schedule: {msg}"))
                    }
                }
            };
            // the schedule shuttle persisted for this failure
            let sched = newest_schedule(dir);
            Err((class, detail, sc, sched))
        }
    }
}

fn newest_schedule(dir: &str) -> Option<String> {
    let mut best: Option<(std::time::SystemTime, std::path::PathBuf)> = None;
    for e in std::fs::read_dir(dir).ok()?.flatten() {
        let p = e.path();
        if p.file_name().and_then(|n| n.to_str()).map(|n| n.starts_with("schedule")).unwrap_or(false) {
            if let Ok(m) = e.metadata().and_then(|m| m.modified()) {
                if best.as_ref().map(|b| m > b.0).unwrap_or(true) {
                    best = Some((m, p));
                }
            }
        }
    }
    let p = best?.1;
    let s = std::fs::read_to_string(&p).ok()?;
    let _ = std::fs::remove_file(&p);
    Some(s.trim().to_string())
}

fn install_hook() {
    std::panic::set_hook(Box::new(|info| {
        let msg = if let Some(s) = info.payload().downcast_ref::<&str>() {
            s.to_string()
        } else if let Some(s) = info.payload().downcast_ref::<String>() {
            s.clone()
        } else {
            "<non-string panic>".into()
        };
        let loc = info.location().map(|l| format!("{}:{}", l.file(), l.line())).unwrap_or_default();
        LAST_PANIC.with(|p| {
            let mut p = p.borrow_mut();
            // keep the first panic of an execution (later ones are shuttle's unwinding)
            if p.is_none() {
                *p = Some(format!("{} @ {loc}", msg.chars().take(600).collect::<String>()));
            }
        });
    }));
}

fn known_match(root: &str, prop: &str, class: &str, detail: &str) -> Option<(String, String)> {
    let s = std::fs::read_to_string(format!("{root}/known_findings.json")).ok()?;
    let v: serde_json::Value = serde_json::from_str(&s).ok()?;
    for f in v["findings"].as_array()? {
        if f["status"] != "open" || f["layer"] != "L2" {
            continue;
        }
        if !f["properties"].as_array().map(|a| a.iter().any(|p| p == prop)).unwrap_or(false) {
            continue;
        }
        if f["class"].as_str().map(|c| !c.is_empty() && c != class).unwrap_or(false) {
            continue;
        }
        let contains: Vec<&str> = f["contains"].as_array().map(|a| a.iter().filter_map(|x| x.as_str()).collect()).unwrap_or_default();
        if contains.is_empty() || !contains.iter().all(|c| detail.contains(c)) {
            continue;
        }
        return Some((f["id"].as_str().unwrap_or("").to_string(), f["what"].as_str().unwrap_or("").to_string()));
    }
    None
}

fn check(prop: &str, tier: &str) -> i32 {
    let start = Instant::now();
    let root = std::env::var("VERIF_ROOT").unwrap_or_else(|_| "/verif".into());
    let seed0: u64 = std::env::var("VERIF_SEED").ok().and_then(|s| s.parse().ok()).unwrap_or(1);
    let threads: usize = std::env::var("VERIF_THREADS").ok().and_then(|s| s.parse().ok()).unwrap_or(16);
    let n: u64 = std::env::var("VERIF_RUNS").ok().and_then(|s| s.parse().ok()).unwrap_or(if tier == "thorough" { 400_000 } else { 6_000 });
    let max_wall = if tier == "thorough" { 3000 } else { 150 };
    let replay_dir = std::env::var("VERIF_REPLAY_DIR").unwrap_or_else(|_| format!("{root}/replays"));
    let sched_dir = format!("{root}/l2/target/schedules");
    let _ = std::fs::create_dir_all(&sched_dir);
    let _ = std::fs::create_dir_all(&replay_dir);
    let next = AtomicU64::new(0);
    let done = AtomicU64::new(0);
    let locks_total = AtomicU64::new(0);
    let nviol = AtomicUsize::new(0);
    let traces: std::sync::Mutex<BTreeSet<u64>> = std::sync::Mutex::new(BTreeSet::new());
    let samples: std::sync::Mutex<Vec<serde_json::Value>> = std::sync::Mutex::new(Vec::new());
    let found: std::sync::Mutex<Vec<(u64, String, String, Scenario, Option<String>)>> = std::sync::Mutex::new(Vec::new());
    let cancels = AtomicU64::new(0);
    let drops = AtomicU64::new(0);
    std::thread::scope(|s| {
        for w in 0..threads {
            let sched_dir = format!("{sched_dir}/w{w}");
            let _ = std::fs::create_dir_all(&sched_dir);
            let (next, done, locks_total, nviol, traces, samples, found, cancels, drops) = (&next, &done, &locks_total, &nviol, &traces, &samples, &found, &cancels, &drops);
            s.spawn(move || {
                loop {
                    let i = next.fetch_add(1, Ordering::Relaxed);
                    if i >= n || start.elapsed().as_secs() >= max_wall || nviol.load(Ordering::Relaxed) >= 20 {
                        break;
                    }
                    let seed = mix(seed0.wrapping_mul(0x9e3779b97f4a7c15) ^ i);
                    let cancel_family = i % 4 == 3;
                    let dir = sched_dir.clone();
                    // fresh OS thread per execution: std's per-thread hash keys
                    // restart from the scenario's entropy
                    let h = std::thread::Builder::new().stack_size(64 << 20).spawn(move || {
                        install_hook();
                        one_execution(seed, cancel_family, &dir, None)
                    });
                    match h.expect("spawn").join() {
                        Ok(Ok((locks, trace, sc))) => {
                            locks_total.fetch_add(locks, Ordering::Relaxed);
                            traces.lock().unwrap().insert(trace);
                            if sc.cancel.is_some() {
                                cancels.fetch_add(1, Ordering::Relaxed);
                            }
                            if sc.drop_early.is_some() {
                                drops.fetch_add(1, Ordering::Relaxed);
                            }
                            let mut sm = samples.lock().unwrap();
                            if sm.len() < 3 {
                                sm.push(json!({"seed": seed, "pool_threads": sc.threads, "partitions": sc.partitions, "batch": sc.batch, "queries": sc.queries, "cancel": sc.cancel.map(|c| format!("query {} after {} yields", c.0, c.1)), "lock_acquisitions": locks}));
                            }
                        }
                        Ok(Err((class, detail, sc, sched))) => {
                            nviol.fetch_add(1, Ordering::Relaxed);
                            found.lock().unwrap().push((seed, class, detail, sc, sched));
                        }
                        Err(_) => {
                            nviol.fetch_add(1, Ordering::Relaxed);
                            eprintln!("harness error: execution thread for seed {seed} died");
                        }
                    }
                    done.fetch_add(1, Ordering::Relaxed);
                }
            });
        }
    });
    let mut found = found.into_inner().unwrap();
    found.sort_by_key(|f| f.0);
    let mut violations = 0;
    let mut known_lines = BTreeSet::new();
    for (seed, class, detail, sc, sched) in &found {
        if let Some((id, what)) = known_match(&root, prop, class, detail) {
            known_lines.insert(format!("KNOWN-FINDING: property={prop} {what} [{id}]"));
            continue;
        }
        violations += 1;
        let path = format!("{replay_dir}/{prop}-L2-{tier}-{seed0}-{seed}.json");
        let file = json!({"format": 1, "property": prop, "class": class, "layer": "L2", "seed": seed, "cancel_family": sc.cancel.is_some(), "detail": detail,
            "scenario": {"pool_threads": sc.threads, "partitions": sc.partitions, "batch": sc.batch, "hash_joins": sc.hash_joins, "setup": sc.setup, "queries": sc.queries, "cancel": sc.cancel.map(|c| vec![c.0, c.1]), "drop_early": sc.drop_early},
            "shuttle_schedule": sched});
        let _ = std::fs::write(&path, serde_json::to_string_pretty(&file).unwrap());
        println!("VIOLATION property={prop} replay={path}");
        println!("  class={class} layer=L2 seed={seed} pool_threads={} partitions={}", sc.threads, sc.partitions);
        println!("  {}", detail.chars().take(700).collect::<String>());
    }
    for l in &known_lines {
        println!("{l}");
    }
    let wall = start.elapsed().as_secs_f64();
    let done = done.load(Ordering::Relaxed);
    let distinct = traces.lock().unwrap().len();
    let ev = json!({
        "property_id": prop, "tier": if tier == "thorough" { "thorough" } else { "quick" }, "seed": seed0, "level": "exploration",
        "coverage": {
            "evaluations": done, "distinct_nontrivial": distinct,
            "rule": "one evaluation = one seeded scenario (tables of 0-40 and 0-15 rows with NULL keys, 1-3 statements from 20 query templates covering grouped / DISTINCT aggregates, LEFT / RIGHT / SEMI / mark / nested-loop joins, sort + limit, a CTE read twice, UNION, cross product, probe sides that finish without a batch, plus CREATE TABLE AS / INSERT..SELECT incl. self-insert; pool of 1-4 threads, 1-4 partitions, batch 2-2048) executed on the real thread-pool scheduler and operators under one seeded shuttle schedule (random or PCT), every engine Mutex::lock a scheduling point; every fourth scenario cancels a query from another thread after 0-11 yields, some drop a result stream after one poll. Oracle: no deadlock (lost wake-up), step bound, no panic, rows equal the sequential reference execution (1 thread, 1 partition), a cancelled stream ends with an error or the complete result. Non-trivial = every execution (each has >= 2 pool threads or partitions interleaving at locks or is a reference-checked run); distinct = distinct fingerprints of (shuttle thread id per lock acquisition) sequences.",
            "samples": samples.lock().unwrap().clone(),
            "schedules_explored": done, "lock_acquisitions_total": locks_total.load(Ordering::Relaxed), "distinct_interleaving_fingerprints": distinct,
            "faults_injected": {"cancel_from_other_thread": cancels.load(Ordering::Relaxed), "result_stream_dropped_early": drops.load(Ordering::Relaxed)},
            "runs_per_hour": (done as f64 / wall.max(1e-9) * 3600.0) as u64,
            "components_real": ["glaredb_parser", "glaredb_core (all operators, result stream)", "glaredb_rt_native::threaded::{mod,task,handle} (TaskState::schedule/execute, ThreadedQueryHandle::cancel)"],
            "components_stub": ["rayon::ThreadPool (shim over shuttle threads with n permits)", "parking_lot::Mutex (shim over shuttle::sync::Mutex)", "wall clock (counter)", "filesystems (none registered)", "atomics are not scheduling points (sequentially consistent, no preemption between them)"],
        },
        "assumptions": ["shuttle runs one thread at a time under sequential consistency", "atomic read-modify-write sites are not preemption points at this layer"],
        "wall_s": wall, "violations": violations,
    });
    let evp = std::env::var("VERIF_EVIDENCE").unwrap_or_else(|_| format!("{root}/evidence/{prop}-L2.json"));
    if std::fs::write(&evp, serde_json::to_string_pretty(&ev).unwrap()).is_err() {
        eprintln!("harness error: cannot write evidence");
        return 2;
    }
    println!("{prop} L2 {tier}: schedules={done} distinct_interleavings={distinct} lock_points={} violations={violations} known={} wall={wall:.1}s", locks_total.load(Ordering::Relaxed), known_lines.len());
    if violations > 0 { 1 } else { 0 }
}

fn replay(path: &str) -> i32 {
    let s = match std::fs::read_to_string(path) {
        Ok(s) => s,
        Err(e) => {
            eprintln!("harness error: {e}");
            return 2;
        }
    };
    let v: serde_json::Value = match serde_json::from_str(&s) {
        Ok(v) => v,
        Err(e) => {
            eprintln!("harness error: {e}");
            return 2;
        }
    };
    let seed = v["seed"].as_u64().unwrap_or(0);
    let cancel_family = v["cancel_family"].as_bool().unwrap_or(false);
    let sched = v["shuttle_schedule"].as_str().map(|s| s.to_string());
    let prop = v["property"].as_str().unwrap_or("C04").to_string();
    let root = std::env::var("VERIF_ROOT").unwrap_or_else(|_| "/verif".into());
    let dir = format!("{root}/l2/target/schedules/replay");
    let _ = std::fs::create_dir_all(&dir);
    let h = std::thread::Builder::new().stack_size(64 << 20).spawn(move || {
        install_hook();
        one_execution(seed, cancel_family, &dir, sched)
    });
    match h.expect("spawn").join() {
        Ok(Err((class, detail, _, _))) => {
            println!("VIOLATION property={prop} replay={path}");
            println!("  class={class} layer=L2");
            println!("  {}", detail.chars().take(700).collect::<String>());
            1
        }
        Ok(Ok(_)) => {
            println!("replay of {path}: the recorded violation did not reproduce");
            0
        }
        Err(_) => 2,
    }
}

fn main() {
    let args: Vec<String> = std::env::args().collect();
    let code = match args.get(1).map(|s| s.as_str()) {
        Some("check") => check(args.get(2).map(|s| s.as_str()).unwrap_or("C04"), args.get(3).map(|s| s.as_str()).unwrap_or("quick")),
        Some("selftest") => {
            // determinism: one line per seeded execution (lock count, interleaving fingerprint)
            let n: u64 = args.get(2).and_then(|s| s.parse().ok()).unwrap_or(200);
            let root = std::env::var("VERIF_ROOT").unwrap_or_else(|_| "/verif".into());
            let dir = format!("{root}/l2/target/schedules/selftest");
            let _ = std::fs::create_dir_all(&dir);
            for i in 0..n {
                let seed = mix(0x9e3779b97f4a7c15 ^ i);
                let d = dir.clone();
                let h = std::thread::Builder::new().stack_size(64 << 20).spawn(move || {
                    install_hook();
                    one_execution(seed, i % 4 == 3, &d, None)
                });
                match h.expect("spawn").join() {
                    Ok(Ok((locks, trace, _))) => println!("{seed} {locks} {trace:016x}"),
                    Ok(Err((class, _, _, _))) => println!("{seed} violation {class}"),
                    Err(_) => println!("{seed} died"),
                }
            }
            0
        }
        Some("replay") => replay(args.get(2).map(|s| s.as_str()).unwrap_or("")),
        _ => {
            eprintln!("usage: glaresim-l2 check <property> <tier> | replay <file>");
            2
        }
    };
    std::process::exit(code);
}
