//! The native thread-pool scheduler, unmodified, on shim crates.
//!
//! `threaded/{mod,task,handle}.rs` are included from /repo by path. The rest
//! of glaredb_rt_native (tokio, reqwest, local filesystem) is not needed: the
//! `Scheduler` trait and `NativeExecutor` wrapper are re-declared here exactly
//! as in runtime.rs.

#[path = "/repo/crates/glaredb_rt_native/src/threaded/mod.rs"]
pub mod threaded;

pub mod time {
    use std::sync::atomic::{AtomicU64, Ordering};

    use glaredb_core::runtime::time::RuntimeInstant;

    static TICKS: AtomicU64 = AtomicU64::new(0);

    /// Simulated clock (profiling only): a counter, never the wall clock.
    #[derive(Debug, Clone, PartialEq, Eq)]
    pub struct NativeInstant(u64);

    impl RuntimeInstant for NativeInstant {
        fn now() -> Self {
            NativeInstant(TICKS.fetch_add(1, Ordering::Relaxed))
        }
        fn duration_since(&self, earlier: Self) -> std::time::Duration {
            std::time::Duration::from_micros(self.0.saturating_sub(earlier.0))
        }
    }
}

pub mod runtime {
    use std::fmt::Debug;
    use std::sync::Arc;

    use glaredb_core::execution::partition_pipeline::ExecutablePartitionPipeline;
    use glaredb_core::runtime::pipeline::{ErrorSink, PipelineRuntime, QueryHandle};
    use glaredb_error::Result;

    pub trait Scheduler: Sync + Send + Debug + Sized + Clone {
        type Handle: QueryHandle;

        fn try_new(num_threads: usize) -> Result<Self>;

        fn num_threads(&self) -> usize;

        fn spawn_pipelines(&self, pipelines: Vec<ExecutablePartitionPipeline>, errors: Arc<dyn ErrorSink>) -> Self::Handle;
    }

    #[derive(Debug, Clone)]
    pub struct NativeExecutor<S: Scheduler>(S);

    impl<S: Scheduler> NativeExecutor<S> {
        pub fn try_new_with_num_threads(num_threads: usize) -> Result<Self> {
            Ok(NativeExecutor(S::try_new(num_threads)?))
        }
    }

    impl<S: Scheduler + 'static> PipelineRuntime for NativeExecutor<S> {
        fn default_partitions(&self) -> usize {
            self.0.num_threads()
        }

        fn spawn_pipelines(&self, pipelines: Vec<ExecutablePartitionPipeline>, errors: Arc<dyn ErrorSink>) -> Arc<dyn QueryHandle> {
            let handle = self.0.spawn_pipelines(pipelines, errors);
            Arc::new(handle)
        }
    }
}
