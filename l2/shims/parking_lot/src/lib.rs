//! `parking_lot` look-alike over shuttle: every `Mutex::lock` is a scheduling
//! point of shuttle's seeded scheduler. Only what the engine uses is provided.

use std::cell::Cell;

// One shuttle execution runs entirely on the OS thread that called the runner,
// so per-OS-thread counters are per-execution counters.
thread_local! {
    /// Number of lock acquisitions (scheduling points) on this OS thread.
    pub static LOCKS: Cell<u64> = const { Cell::new(0) };
    /// Running digest over (shuttle thread, lock order): an interleaving fingerprint.
    pub static TRACE: Cell<u64> = const { Cell::new(0xcbf29ce484222325) };
}

pub fn reset_probe() {
    LOCKS.with(|c| c.set(0));
    TRACE.with(|c| c.set(0xcbf29ce484222325));
}

pub fn probe() -> (u64, u64) {
    (LOCKS.with(|c| c.get()), TRACE.with(|c| c.get()))
}

#[derive(Debug, Default)]
pub struct Mutex<T: ?Sized> {
    inner: shuttle::sync::Mutex<T>,
}

pub type MutexGuard<'a, T> = shuttle::sync::MutexGuard<'a, T>;

impl<T> Mutex<T> {
    pub fn new(v: T) -> Self {
        Mutex { inner: shuttle::sync::Mutex::new(v) }
    }

    pub fn into_inner(self) -> T {
        self.inner.into_inner().unwrap_or_else(|e| e.into_inner())
    }
}

impl<T: ?Sized> Mutex<T> {
    pub fn lock(&self) -> MutexGuard<'_, T> {
        LOCKS.with(|c| c.set(c.get() + 1));
        let g = self.inner.lock().unwrap_or_else(|e| e.into_inner());
        // fingerprint: which thread won which acquisition
        let tid = format!("{:?}", shuttle::thread::current().id());
        TRACE.with(|c| {
            let mut h = c.get();
            for b in tid.as_bytes() {
                h ^= *b as u64;
                h = h.wrapping_mul(0x100000001b3);
            }
            c.set(h);
        });
        g
    }

    pub fn get_mut(&mut self) -> &mut T {
        self.inner.get_mut().unwrap_or_else(|e| e.into_inner())
    }
}
