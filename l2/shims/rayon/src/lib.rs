//! `rayon::ThreadPool` look-alike over shuttle threads. `spawn` starts a
//! shuttle thread per closure; a pool of n threads is modelled by n permits
//! (a counting semaphore built from shuttle's Mutex + Condvar), so at most n
//! closures run at once and which queued closure runs next is the scheduler's
//! decision (a superset of a FIFO pool's behaviours).

use std::fmt;
use std::sync::Arc;

use shuttle::sync::{Condvar, Mutex};

#[derive(Debug)]
pub struct ThreadPoolBuildError;

impl fmt::Display for ThreadPoolBuildError {
    fn fmt(&self, f: &mut fmt::Formatter<'_>) -> fmt::Result {
        f.write_str("thread pool build error")
    }
}

impl std::error::Error for ThreadPoolBuildError {}

#[derive(Default)]
pub struct ThreadPoolBuilder {
    num_threads: usize,
}

impl ThreadPoolBuilder {
    pub fn new() -> Self {
        ThreadPoolBuilder { num_threads: 0 }
    }
    pub fn thread_name<F>(self, _f: F) -> Self
    where
        F: FnMut(usize) -> String + 'static,
    {
        self
    }
    pub fn num_threads(mut self, n: usize) -> Self {
        self.num_threads = n;
        self
    }
    pub fn build(self) -> Result<ThreadPool, ThreadPoolBuildError> {
        let n = self.num_threads.max(1);
        Ok(ThreadPool { threads: n, permits: Arc::new((Mutex::new(n), Condvar::new())) })
    }
}

#[derive(Debug)]
pub struct ThreadPool {
    threads: usize,
    permits: Arc<(Mutex<usize>, Condvar)>,
}

impl ThreadPool {
    pub fn current_num_threads(&self) -> usize {
        self.threads
    }

    pub fn spawn<F>(&self, f: F)
    where
        F: FnOnce() + Send + 'static,
    {
        let permits = self.permits.clone();
        shuttle::thread::spawn(move || {
            {
                let mut g = permits.0.lock().unwrap();
                while *g == 0 {
                    g = permits.1.wait(g).unwrap();
                }
                *g -= 1;
            }
            f();
            let mut g = permits.0.lock().unwrap();
            *g += 1;
            permits.1.notify_one();
        });
    }
}
