//! Campaign runner: many seeded worlds across worker threads, deterministic
//! aggregation in run order, violation minimisation, replay files, evidence.

use std::collections::{BTreeMap, BTreeSet};
use std::sync::atomic::{AtomicBool, AtomicU64, Ordering};
use std::sync::{Arc, Mutex};
use std::time::Instant;

use serde_json::{Value as J, json};

use crate::check::expect::eval_expect;
use crate::replay::{Expect, ReplayFile, scenario_to_file, write_replay};
use crate::rng::Rng;
use crate::script::{RunReport, Scenario, run_scenario};
use crate::sim::{Chooser, RunEnd};

#[derive(Debug, Clone)]
pub struct Violation {
    pub property: String,
    pub class: String,
    pub scenario: Scenario,
    pub choices: Vec<u32>,
    pub session: usize,
    pub stmt: usize,
    pub expect: Expect,
    pub observed: String,
    pub detail: String,
    pub trace: u64,
    /// check-specific data used for AST-level shrinking (never serialized)
    pub aux: Option<Arc<dyn std::any::Any + Send + Sync>>,
}

#[derive(Debug, Default, Clone)]
pub struct Stats {
    pub runs: u64,
    pub worlds: u64,
    pub statements: u64,
    pub steps: u64,
    pub sim_time: u64,
    pub real_choices: u64,
    pub nontrivial: BTreeSet<u64>,
    pub counters: BTreeMap<String, u64>,
    pub samples: Vec<J>,
    pub violations: u64,
    pub known: u64,
}

impl Stats {
    pub fn count(&mut self, k: &str) {
        *self.counters.entry(k.to_string()).or_insert(0) += 1;
    }
    pub fn add(&mut self, k: &str, n: u64) {
        *self.counters.entry(k.to_string()).or_insert(0) += n;
    }
    pub fn merge(&mut self, o: Stats) {
        self.runs += o.runs;
        self.worlds += o.worlds;
        self.statements += o.statements;
        self.steps += o.steps;
        self.sim_time += o.sim_time;
        self.real_choices += o.real_choices;
        self.nontrivial.extend(o.nontrivial);
        for (k, v) in o.counters {
            *self.counters.entry(k).or_insert(0) += v;
        }
        for s in o.samples {
            if self.samples.len() < 4 {
                self.samples.push(s);
            }
        }
        self.violations += o.violations;
        self.known += o.known;
    }

    /// Record a finished world: counters, fault counts, non-triviality.
    pub fn world(&mut self, rep: &RunReport, shape_key: u64) {
        self.worlds += 1;
        self.steps += rep.stats.steps;
        self.sim_time += rep.stats.sim_time;
        self.real_choices += rep.stats.real_choices;
        self.statements += rep.outcomes.iter().map(|s| s.len() as u64).sum::<u64>();
        self.add("sim.polls_pending", rep.stats.polls_pending);
        self.add("sim.polls_ready", rep.stats.polls_ready);
        self.add("sim.polls_err", rep.stats.polls_err);
        self.add("sim.tasks_spawned", rep.stats.tasks_spawned);
        self.add("sim.wakes", rep.stats.wakes);
        self.add("sim.wakes_while_runnable", rep.stats.wakes_while_runnable);
        self.add("fault.spurious_poll", rep.stats.spurious_polls);
        self.add("fault.duplicate_wake", rep.stats.dup_wakes);
        self.add("fault.delayed_wake", rep.stats.delayed_wakes);
        self.add("sim.timer_jumps", rep.stats.timer_jumps);
        self.add("sim.orphaned_tasks", rep.stats.orphaned);
        self.add("fault.cancel", rep.stats.cancels);
        for (k, v) in &rep.io_stats {
            self.add(&format!("io.{k}"), *v);
        }
        let faults = rep.stats.spurious_polls + rep.stats.dup_wakes + rep.stats.delayed_wakes + rep.stats.cancels + rep.io_stats.iter().filter(|(k, _)| k.starts_with("fault.")).map(|(_, v)| *v).sum::<u64>();
        if (rep.stats.real_choices >= 2 && rep.stats.polls_pending >= 1) || faults > 0 {
            let mut d = crate::rng::Digest::new();
            d.u64(shape_key);
            d.u64(rep.trace);
            self.nontrivial.insert(d.0);
        }
    }

    pub fn sample(&mut self, j: J) {
        if self.samples.len() < 3 {
            self.samples.push(j);
        }
    }
}

#[derive(Debug, Clone, serde::Deserialize)]
pub struct KnownFinding {
    pub id: String,
    #[serde(default)]
    pub properties: Vec<String>,
    /// "open" findings suppress; "fixed" entries never suppress
    pub status: String,
    #[serde(default)]
    pub class: String,
    /// name of the R-SQL deviation switch that reproduces the defect
    #[serde(default)]
    pub dev: Option<String>,
    /// every listed substring must occur in `detail + observed + sql`
    #[serde(default)]
    pub contains: Vec<String>,
    /// any of these must occur (if non-empty)
    #[serde(default)]
    pub any_of: Vec<String>,
    /// every listed substring must occur in the failing statement's SQL
    #[serde(default)]
    pub sql_contains: Vec<String>,
    /// every listed substring must occur in some statement of the session
    #[serde(default)]
    pub script_contains: Vec<String>,
    /// none of these may occur in the failing statement's SQL
    #[serde(default)]
    pub sql_excludes: Vec<String>,
    /// substring -> minimum number of occurrences in the failing statement
    #[serde(default)]
    pub sql_min_count: BTreeMap<String, usize>,
    /// match only violations that went through the minimiser
    #[serde(default)]
    pub minimized_only: bool,
    /// name of a built-in predicate over the violation detail that must hold too
    #[serde(default)]
    pub custom: Option<String>,
    pub what: String,
}

pub fn load_known(path: &str) -> Vec<KnownFinding> {
    match std::fs::read_to_string(path) {
        Ok(s) => {
            let v: J = serde_json::from_str(&s).unwrap_or(json!({"findings": []}));
            serde_json::from_value(v["findings"].clone()).unwrap_or_default()
        }
        Err(_) => vec![],
    }
}

pub fn match_known<'a>(known: &'a [KnownFinding], v: &Violation, minimized: bool) -> Option<&'a KnownFinding> {
    let sql = v.scenario.sessions.get(v.session).and_then(|s| s.get(v.stmt)).map(|s| s.sql.as_str()).unwrap_or("");
    let hay = format!("{}\n{}\n{}", v.detail, v.observed, sql);
    let script: Vec<&str> = v.scenario.sessions.get(v.session).map(|s| s.iter().map(|x| x.sql.as_str()).collect()).unwrap_or_default();
    known.iter().find(|k| {
        if k.minimized_only && !minimized {
            return false;
        }
        if !k.sql_contains.iter().all(|c| sql.contains(c.as_str())) || k.sql_excludes.iter().any(|c| sql.contains(c.as_str())) {
            return false;
        }
        if !k.sql_min_count.iter().all(|(c, n)| sql.matches(c.as_str()).count() >= *n) {
            return false;
        }
        if !k.script_contains.iter().all(|c| script.iter().any(|st| st.contains(c.as_str()))) {
            return false;
        }
        if let Some(c) = &k.custom {
            if !custom_predicate(c, &hay) {
                return false;
            }
        }
        k.status == "open"
            && k.dev.is_none()
            && k.properties.iter().any(|p| p == &v.property)
            && k.class == v.class
            && (!k.contains.is_empty() || !k.any_of.is_empty() || !k.sql_contains.is_empty() || !k.sql_min_count.is_empty())
            && k.contains.iter().all(|c| hay.contains(c.as_str()))
            && (k.any_of.is_empty() || k.any_of.iter().any(|c| hay.contains(c.as_str())))
    })
}

/// Built-in predicates for known findings whose signature needs arithmetic.
fn custom_predicate(name: &str, hay: &str) -> bool {
    match name {
        // "array datatype Decimal64(p1,s1), announced Decimal64(p2,s2)" with s1 == s2 and p1 == p2 + 1
        "decimal_precision_plus_one" => {
            let nums = |tag: &str| -> Option<(i64, i64, String)> {
                let i = hay.find(tag)? + tag.len();
                let rest = &hay[i..];
                let open = rest.find('(')?;
                let kind = rest[..open].trim().to_string();
                let close = rest.find(')')?;
                let mut it = rest[open + 1..close].split(',');
                Some((it.next()?.trim().parse().ok()?, it.next()?.trim().parse().ok()?, kind))
            };
            match (nums("array datatype "), nums("announced ")) {
                (Some((p1, s1, k1)), Some((p2, s2, k2))) => k1 == k2 && s1 == s2 && p1 == p2 + 1,
                _ => false,
            }
        }
        // the SQL holds `(X OR (X AND Y))` in some arrangement: an OR one of
        // whose operands is a top-level AND that has the other operand as a
        // conjunct (the shape the distributive_or rewrite gets wrong)
        "or_absorption_shape" => or_absorption_shape(hay),
        // some name w<digits> is scanned at least twice (`w3 AS r..`) and the
        // statement joins: two references to one CTE inside a join tree
        "cte_twice_in_join" => {
            let mut names: std::collections::BTreeSet<String> = Default::default();
            let b: Vec<char> = hay.chars().collect();
            let mut i = 0;
            while i < b.len() {
                if b[i] == 'w' && (i == 0 || !b[i - 1].is_alphanumeric()) {
                    let mut j = i + 1;
                    while j < b.len() && b[j].is_ascii_digit() {
                        j += 1;
                    }
                    if j > i + 1 {
                        names.insert(b[i..j].iter().collect());
                    }
                    i = j;
                } else {
                    i += 1;
                }
            }
            hay.contains(" JOIN ") && names.iter().any(|n| hay.matches(&format!(" {n} AS r")).count() >= 2)
        }
        _ => false,
    }
}

/// Split a fully parenthesised `(L OP R)` at its top-level ` OP `.
fn split_top(s: &str, op: &str) -> Option<(String, String)> {
    let s = s.trim();
    if !s.starts_with('(') || !s.ends_with(')') {
        return None;
    }
    let inner = &s[1..s.len() - 1];
    let b = inner.as_bytes();
    let mut depth = 0i32;
    let mut in_str = false;
    let mut i = 0;
    while i < b.len() {
        let c = b[i];
        if c == b'\'' {
            in_str = !in_str;
        } else if !in_str {
            if c == b'(' {
                depth += 1;
            } else if c == b')' {
                depth -= 1;
                if depth < 0 {
                    return None;
                }
            } else if depth == 0 && inner[i..].starts_with(op) {
                return Some((inner[..i].trim().to_string(), inner[i + op.len()..].trim().to_string()));
            }
        }
        i += 1;
    }
    None
}

/// No generated column / alias name (`r3`, `s03`, `x4`, `c1`, `w2`, `t0`)
/// outside string literals.
fn is_column_free(e: &str) -> bool {
    let b: Vec<char> = e.chars().collect();
    let mut in_str = false;
    let mut i = 0;
    while i < b.len() {
        if b[i] == '\'' {
            in_str = !in_str;
        } else if !in_str && b[i].is_ascii_lowercase() && (i == 0 || !(b[i - 1].is_alphanumeric() || b[i - 1] == '_')) {
            let mut j = i + 1;
            while j < b.len() && b[j].is_ascii_digit() {
                j += 1;
            }
            if j > i + 1 && (j == b.len() || !(b[j].is_alphanumeric() || b[j] == '_')) {
                return false;
            }
        }
        i += 1;
    }
    true
}

fn or_absorption_shape(sql: &str) -> bool {
    // every parenthesised group that is an OR at its top level
    let b = sql.as_bytes();
    let mut stack: Vec<usize> = Vec::new();
    let mut in_str = false;
    for (i, c) in b.iter().enumerate() {
        if *c == b'\'' {
            in_str = !in_str;
        }
        if in_str {
            continue;
        }
        if *c == b'(' {
            stack.push(i);
        } else if *c == b')' {
            if let Some(st) = stack.pop() {
                let group = &sql[st..=i];
                if let Some((l, r)) = split_top(group, " OR ") {
                    for (x, other) in [(&l, &r), (&r, &l)] {
                        if let Some((p, q)) = split_top(other, " AND ") {
                            // `"r6"."s11"` and `r6.s11` are the same column
                            let n = |e: &str| e.replace('"', "");
                            if n(&p) == n(x) || n(&q) == n(x) {
                                return true;
                            }
                            // the same shape after constant folding: X and the
                            // conjunct are both column-free (`true` and `'' <= ''`)
                            if is_column_free(x) && (is_column_free(&p) || is_column_free(&q)) {
                                return true;
                            }
                        }
                    }
                }
            }
        }
    }
    false
}

pub struct CampaignCfg {
    pub property: String,
    pub tier: String,
    pub seed: u64,
    pub runs: u64,
    pub max_wall_s: u64,
    pub threads: usize,
    pub replay_dir: String,
    pub known_path: String,
    pub evidence_path: String,
    pub level: String,
    pub rule: String,
    pub assumptions: Vec<String>,
    pub components_real: Vec<String>,
    pub components_stub: Vec<String>,
    pub max_reported: usize,
}

pub trait Check: Sync {
    /// One seeded run; push violations (un-minimised) and update stats.
    fn run_one(&self, run: u64, rng: Rng, stats: &mut Stats) -> Vec<Violation>;
    /// Optional check-specific shrink candidates (smaller first).
    fn shrink(&self, _v: &Violation) -> Vec<Violation> {
        vec![]
    }
    /// Optional human-readable description of the (minimised) case.
    fn describe(&self, _v: &Violation) -> Option<String> {
        None
    }
}

/// Re-run a violation's scenario with its choice log; returns the violation
/// detail if the same expectation is still violated with the same class.
pub fn still_fails(v: &Violation) -> Option<(String, String, u64, Vec<u32>)> {
    let rep = run_scenario(&v.scenario, Chooser::replaying(v.choices.clone()), None);
    let res = eval_expect(&v.expect, &rep, v.session, v.stmt);
    match res {
        Some((class, detail)) if class == v.class => Some((detail, crate::replay::observe(&rep, v.session, v.stmt), rep.trace, rep.choices)),
        _ => None,
    }
}

/// `still_fails` with a wall-clock bound: a shrink candidate can be far more
/// expensive than the original (a dropped filter turning a join into a cross
/// product, a plan the optimizer chews on for minutes). After `secs` the
/// attempt counts as "does not fail"; its thread is left to finish on its own.
fn still_fails_bounded(v: &Violation, secs: u64) -> Option<(String, String, u64, Vec<u32>)> {
    let c = v.clone();
    let (tx, rx) = std::sync::mpsc::channel();
    let spawned = std::thread::Builder::new().stack_size(1 << 20).spawn(move || {
        crate::sim::install_quiet_panic_hook();
        let _ = tx.send(still_fails(&c));
    });
    if spawned.is_err() {
        return None;
    }
    rx.recv_timeout(std::time::Duration::from_secs(secs)).ok().flatten()
}

fn generic_candidates(v: &Violation) -> Vec<Violation> {
    let mut out = Vec::new();
    // Dropping statements is only sound when the expectation does not depend
    // on what earlier statements did.
    let independent = matches!(v.expect, Expect::Completes | Expect::NoPanic);
    // drop statements other than the target (later ones first, then earlier)
    for (si, s) in v.scenario.sessions.iter().enumerate().filter(|_| independent) {
        for i in (0..s.len()).rev() {
            if si == v.session && i == v.stmt {
                continue;
            }
            let mut c = v.clone();
            c.scenario.sessions[si].remove(i);
            if si == v.session && i < v.stmt {
                c.stmt -= 1;
            }
            out.push(c);
        }
    }
    // drop whole extra sessions
    for si in 0..v.scenario.sessions.len() {
        if independent && si != v.session && !v.scenario.sessions[si].is_empty() {
            let mut c = v.clone();
            c.scenario.sessions[si].clear();
            out.push(c);
        }
    }
    // simpler simulation knobs
    if v.scenario.table_dims.is_some() {
        let mut c = v.clone();
        c.scenario.table_dims = None;
        out.push(c);
    }
    if v.scenario.sim.noisy {
        let mut c = v.clone();
        c.scenario.sim.noisy = false;
        out.push(c);
    }
    if v.scenario.fs.pending_16 > 0 {
        let mut c = v.clone();
        c.scenario.fs.pending_16 = 0;
        out.push(c);
    }
    if v.scenario.fs.gran != crate::simfs::Gran::Whole {
        let mut c = v.clone();
        c.scenario.fs.gran = crate::simfs::Gran::Whole;
        out.push(c);
    }
    if v.scenario.fs.error_at.is_some() {
        let mut c = v.clone();
        c.scenario.fs.error_at = None;
        out.push(c);
    }
    // choice log: truncate, then zero single entries
    let n = v.choices.len();
    for cut in [0, n / 8, n / 4, n / 2, n * 3 / 4, n.saturating_sub(1)] {
        if cut < n {
            let mut c = v.clone();
            c.choices.truncate(cut);
            out.push(c);
        }
    }
    out
}

fn weight(v: &Violation) -> usize {
    let sql: usize = v.scenario.sessions.iter().flatten().map(|s| s.sql.len()).sum();
    let disk: usize = v.scenario.disk.files.values().map(|b| b.len()).sum();
    sql * 4 + disk + v.choices.iter().filter(|c| **c != 0).count() + v.choices.len() + if v.scenario.sim.noisy { 50 } else { 0 } + if v.scenario.table_dims.is_some() { 20 } else { 0 }
}

pub fn minimise(check: &dyn Check, mut v: Violation, budget: usize) -> Violation {
    let mut tries = 0usize;
    // wall-clock cap per violation (a hang-type violation costs a full step
    // budget per attempt); the result is then merely smaller, not minimal
    let t0 = Instant::now();
    let cap = std::time::Duration::from_secs(std::env::var("VERIF_MIN_SECS").ok().and_then(|s| s.parse().ok()).unwrap_or(40));
    loop {
        if t0.elapsed() > cap {
            return v;
        }
        let mut improved = false;
        let mut cands = check.shrink(&v);
        cands.extend(generic_candidates(&v));
        for c in cands {
            if tries >= budget || t0.elapsed() > cap {
                return v;
            }
            if weight(&c) >= weight(&v) {
                continue;
            }
            tries += 1;
            if let Some((detail, observed, trace, choices)) = still_fails_bounded(&c, 15) {
                // an unexpected error must stay the *same* error while shrinking
                if v.class == "unexpected-error" && err_key(&detail) != err_key(&v.detail) {
                    continue;
                }
                let mut c = c;
                c.detail = detail;
                c.observed = observed;
                c.trace = trace;
                // keep the (possibly shorter) log actually consumed
                if choices.len() <= c.choices.len() || c.choices.is_empty() {
                    c.choices = choices;
                }
                v = c;
                improved = true;
                break;
            }
        }
        if !improved {
            // final pass: zero individual choices (bounded)
            let mut i = 0;
            while i < v.choices.len() && tries < budget {
                if v.choices[i] != 0 {
                    let mut c = v.clone();
                    c.choices[i] = 0;
                    tries += 1;
                    if t0.elapsed() > cap {
                        return v;
                    }
                    if still_fails_bounded(&c, 15).is_some() {
                        v = c;
                    }
                }
                i += 1;
            }
            return v;
        }
    }
}

fn err_key(detail: &str) -> String {
    detail.chars().filter(|c| !c.is_ascii_digit()).take(28).collect()
}

pub struct CampaignResult {
    pub stats: Stats,
    pub violations: Vec<(Violation, String)>,
    pub known_lines: Vec<String>,
    pub wall_s: f64,
}

pub fn run_campaign(cfg: &CampaignCfg, check: &dyn Check) -> CampaignResult {
    let start = Instant::now();
    let root = Rng::new(cfg.seed).fork(&cfg.property);
    let next = AtomicU64::new(0);
    let stop = AtomicBool::new(false);
    let per_run: Mutex<BTreeMap<u64, (Stats, Vec<Violation>)>> = Mutex::new(BTreeMap::new());
    let known = load_known(&cfg.known_path);
    // supervision: the parent process learns from this file which runs were in
    // flight when a child died; VERIF_RUN_ONLY restricts the child to one run
    let progress: Option<Mutex<std::fs::File>> = std::env::var("VERIF_PROGRESS").ok().and_then(|p| std::fs::OpenOptions::new().create(true).append(true).open(p).ok()).map(Mutex::new);
    let run_only: Option<u64> = std::env::var("VERIF_RUN_ONLY").ok().and_then(|s| s.parse().ok());
    let note = |tag: &str, run: u64| {
        if let Some(f) = &progress {
            use std::io::Write;
            let mut f = f.lock().unwrap();
            let _ = writeln!(f, "{tag} {run}");
            let _ = f.flush();
        }
    };

    std::thread::scope(|s| {
        for _ in 0..cfg.threads.max(1) {
            std::thread::Builder::new()
                .stack_size(256 << 20)
                .spawn_scoped(s, || {
                    crate::sim::install_quiet_panic_hook();
                    loop {
                        if stop.load(Ordering::Relaxed) {
                            break;
                        }
                        let run = next.fetch_add(1, Ordering::Relaxed);
                        if run >= cfg.runs {
                            break;
                        }
                        if let Some(only) = run_only {
                            if run != only {
                                let mut st = Stats::default();
                                st.runs = 1;
                                per_run.lock().unwrap().insert(run, (st, vec![]));
                                if run > only {
                                    break;
                                }
                                continue;
                            }
                        }
                        note("S", run);
                        if start.elapsed().as_secs() >= cfg.max_wall_s {
                            stop.store(true, Ordering::Relaxed);
                            break;
                        }
                        let mut st = Stats::default();
                        st.runs = 1;
                        let vs = match std::panic::catch_unwind(std::panic::AssertUnwindSafe(|| check.run_one(run, root.fork_idx("run", run), &mut st))) {
                            Ok(vs) => vs,
                            Err(_) => {
                                // a panic on the harness side of a run (not inside the engine,
                                // those are caught by the simulator): harness error
                                let msg = crate::sim::take_last_panic().unwrap_or_else(|| "<panic>".into());
                                eprintln!("harness error: run {run} panicked in the harness: {msg}");
                                st.count("harness.panic");
                                vec![]
                            }
                        };
                        per_run.lock().unwrap().insert(run, (st, vs));
                        note("E", run);
                    }
                })
                .unwrap();
        }
    });

    // deterministic aggregation: in run order, only the contiguous prefix that
    // completed (a wall-clock cut leaves holes at the end)
    let per_run = per_run.into_inner().unwrap();
    let mut stats = Stats::default();
    let mut raw: Vec<(u64, Violation)> = Vec::new();
    let mut expected = 0u64;
    for (run, (st, vs)) in per_run {
        if run != expected {
            break;
        }
        expected += 1;
        stats.merge(st);
        for v in vs {
            raw.push((run, v));
        }
    }

    let mut violations = Vec::new();
    let mut known_lines: BTreeSet<String> = BTreeSet::new();
    // mismatches explained by a recorded deviation switch
    for k in &known {
        if let (Some(d), "open") = (&k.dev, k.status.as_str()) {
            if k.properties.iter().any(|p| p == &cfg.property) {
                let n = stats.counters.get(&format!("known_dev.{d}")).copied().unwrap_or(0);
                if n > 0 {
                    stats.known += n;
                    known_lines.insert(format!("KNOWN-FINDING: property={} {} [{}; explained {} mismatches]", cfg.property, k.what, k.id, n));
                }
            }
        }
    }
    let runs_wall = start.elapsed().as_secs_f64();
    // classify raw violations; minimise the first 80 unexplained ones in
    // parallel (results are consumed in run order, so output stays
    // independent of the worker count)
    let mut to_min: Vec<(u64, Violation)> = Vec::new();
    for (run, v) in raw {
        if let Some(k) = match_known(&known, &v, false) {
            stats.known += 1;
            known_lines.insert(format!("KNOWN-FINDING: property={} {} [{}]", v.property, k.what, k.id));
            continue;
        }
        if to_min.len() >= 80 {
            // too many to minimise: count them (exit 1) without a replay file
            stats.violations += 1;
            continue;
        }
        to_min.push((run, v));
    }
    let slots: Vec<Mutex<Option<Violation>>> = to_min.iter().map(|_| Mutex::new(None)).collect();
    let next_min = AtomicU64::new(0);
    std::thread::scope(|s| {
        for _ in 0..cfg.threads.max(1).min(to_min.len().max(1)) {
            std::thread::Builder::new()
                .stack_size(256 << 20)
                .spawn_scoped(s, || {
                    crate::sim::install_quiet_panic_hook();
                    loop {
                        let i = next_min.fetch_add(1, Ordering::Relaxed) as usize;
                        if i >= to_min.len() {
                            break;
                        }
                        let tm = Instant::now();
                        let min = minimise(check, to_min[i].1.clone(), 400);
                        if std::env::var("VERIF_TIMING").is_ok() {
                            eprintln!("timing: minimised run {} class {} in {:.1}s: {}", to_min[i].0, min.class, tm.elapsed().as_secs_f64(), min.scenario.sessions.get(min.session).and_then(|s| s.get(min.stmt)).map(|s| s.sql.chars().take(200).collect::<String>()).unwrap_or_default());
                        }
                        *slots[i].lock().unwrap() = Some(min);
                    }
                })
                .unwrap();
        }
    });
    for ((run, _), slot) in to_min.iter().zip(slots) {
        let run = *run;
        let mut min = slot.into_inner().unwrap().expect("minimised");
        if let Some(d) = check.describe(&min) {
            min.detail = format!("{}\n{d}", min.detail);
        }
        // a minimised violation may now match a known finding
        if let Some(k) = match_known(&known, &min, true) {
            stats.known += 1;
            known_lines.insert(format!("KNOWN-FINDING: property={} {} [{}]", min.property, k.what, k.id));
            continue;
        }
        stats.violations += 1;
        if violations.len() >= cfg.max_reported {
            continue;
        }
        let file = ReplayFile {
            format: 1,
            property: min.property.clone(),
            class: min.class.clone(),
            layer: "L1".into(),
            seed: cfg.seed,
            run,
            tier: cfg.tier.clone(),
            scenario: scenario_to_file(&min.scenario),
            choices: min.choices.clone(),
            session: min.session,
            stmt: min.stmt,
            expect: min.expect.clone(),
            observed: min.observed.clone(),
            detail: min.detail.clone(),
            trace_digest: format!("{:016x}", min.trace),
        };
        let mut file = file;
        // several violations of one run: keep every replay file
        let dup = violations.iter().filter(|(_, p): &&(Violation, String)| p.contains(&format!("-{}-{}-{run}", cfg.tier, cfg.seed))).count();
        if dup > 0 {
            file.tier = format!("{}-v{dup}", cfg.tier);
        }
        let path = write_replay(&cfg.replay_dir, &file).unwrap_or_else(|e| format!("<write failed: {e}>"));
        violations.push((min, path));
    }
    if std::env::var("VERIF_TIMING").is_ok() {
        eprintln!("timing: runs {:.1}s, minimisation of {} raw violations {:.1}s", runs_wall, to_min.len(), start.elapsed().as_secs_f64() - runs_wall);
    }
    CampaignResult { stats, violations, known_lines: known_lines.into_iter().collect(), wall_s: start.elapsed().as_secs_f64() }
}

pub fn write_evidence(cfg: &CampaignCfg, res: &CampaignResult, extra: J) -> Result<(), String> {
    let st = &res.stats;
    let faults: BTreeMap<&String, &u64> = st.counters.iter().filter(|(k, _)| k.starts_with("fault.") || k.starts_with("io.fault.")).collect();
    let wall = res.wall_s.max(1e-9);
    let mut coverage = json!({
        "evaluations": st.worlds.max(st.runs),
        "distinct_nontrivial": st.nontrivial.len(),
        "rule": cfg.rule,
        "samples": st.samples,
        "runs": st.runs,
        "worlds": st.worlds,
        "statements": st.statements,
        "simulated_steps": st.steps,
        "simulated_time_ticks": st.sim_time,
        "scheduling_decisions_with_choice": st.real_choices,
        "runs_per_hour": (st.runs as f64 / wall * 3600.0) as u64,
        "seeds_per_hour": (st.runs as f64 / wall * 3600.0) as u64,
        "faults_injected": faults,
        "counters": st.counters,
        "known_findings_hit": st.known,
        "components_real": cfg.components_real,
        "components_stub": cfg.components_stub,
        "interleaving_measure": "distinct (scenario-shape, event-trace) digests among runs with >=2 real scheduling choices and >=1 Pending poll, or >=1 fired fault",
    });
    if let (Some(c), Some(e)) = (coverage.as_object_mut(), extra.as_object()) {
        for (k, v) in e {
            c.insert(k.clone(), v.clone());
        }
    }
    let ev = json!({
        "property_id": cfg.property,
        "tier": cfg.tier,
        "seed": cfg.seed,
        "level": cfg.level,
        "coverage": coverage,
        "assumptions": cfg.assumptions,
        "wall_s": res.wall_s,
        "violations": res.violations.len() as u64,
    });
    if let Some(dir) = std::path::Path::new(&cfg.evidence_path).parent() {
        std::fs::create_dir_all(dir).map_err(|e| e.to_string())?;
    }
    std::fs::write(&cfg.evidence_path, serde_json::to_string_pretty(&ev).unwrap()).map_err(|e| e.to_string())
}

/// Print the contract lines and return the process exit code.
pub fn report(cfg: &CampaignCfg, res: &CampaignResult) -> i32 {
    for l in &res.known_lines {
        println!("{l}");
    }
    for (v, path) in &res.violations {
        println!("VIOLATION property={} replay={}", v.property, path);
        println!("  class={} session={} stmt={}", v.class, v.session, v.stmt);
        for l in v.detail.lines().take(8) {
            println!("  {l}");
        }
        if let Some(s) = v.scenario.sessions.get(v.session).and_then(|s| s.get(v.stmt)) {
            println!("  sql: {}", s.sql);
        }
    }
    println!(
        "{} {}: runs={} worlds={} statements={} steps={} distinct_nontrivial={} violations={} known={} wall={:.1}s",
        cfg.property,
        cfg.tier,
        res.stats.runs,
        res.stats.worlds,
        res.stats.statements,
        res.stats.steps,
        res.stats.nontrivial.len(),
        res.stats.violations,
        res.stats.known,
        res.wall_s
    );
    if res.stats.counters.get("harness.panic").copied().unwrap_or(0) > 0 {
        println!("harness error: {} runs panicked inside the harness", res.stats.counters["harness.panic"]);
        return 2;
    }
    if res.violations.is_empty() && res.stats.violations == 0 { 0 } else { 1 }
}

#[allow(dead_code)]
pub fn arc_unused(_: Arc<()>, _: RunEnd) {}
