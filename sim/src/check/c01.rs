//! C01 (and the model-based parts of C06/C07/C08/C09): engine vs R-SQL.

use std::sync::Arc;

use serde_json::json;

use crate::campaign::{Check, Stats, Violation};
use crate::check::sqlcase::*;
use crate::rng::Rng;
use crate::script::{Scenario, Stmt, run_scenario};
use crate::sim::{Chooser, RunEnd};
use crate::sql::eval::Dev;
use crate::sql::print;
use crate::sql::qgen::{Features, Gen, gen_tables, setup_sql};

#[derive(Debug, Clone, Copy, PartialEq)]
pub enum Focus {
    General,
    Joins,
    Aggregates,
    Sorting,
    Subqueries,
}

pub struct ModelCheck {
    pub property: &'static str,
    pub focus: Focus,
    pub queries_per_run: usize,
    pub max_rows: usize,
    pub allowed_dev: Dev,
    pub small_batches: bool,
}

impl ModelCheck {
    pub fn new(property: &'static str, focus: Focus, allowed_dev: Dev) -> Self {
        ModelCheck { property, focus, queries_per_run: 8, max_rows: 40, allowed_dev, small_batches: true }
    }

    fn features(&self, rng: &mut Rng) -> Features {
        let mut f = Features::swarm(rng);
        match self.focus {
            Focus::General => {}
            Focus::Joins => {
                f.joins = true;
                f.outer_joins = true;
                f.semi_join = true;
                f.non_equi_join = true;
                f.subq_in = true;
                f.subq_exists = true;
                f.cte = false;
                f.union = false;
                f.rollup_cube = false;
            }
            Focus::Aggregates => {
                f.group_by = true;
                f.rollup_cube = true;
                f.agg_distinct = true;
                f.distinct = true;
                f.union = true;
                f.having = true;
                f.lateral = false;
                f.subq_quant = false;
            }
            Focus::Sorting => {
                f.order_by = true;
                f.limit = true;
                f.lateral = false;
            }
            Focus::Subqueries => {
                f.subq_scalar = true;
                f.subq_exists = true;
                f.subq_in = true;
                f.subq_quant = true;
                f.correlated = true;
                f.cte = true;
                f.lateral = true;
                f.derived = true;
            }
        }
        f
    }
}

impl Check for ModelCheck {
    fn run_one(&self, run: u64, rng: Rng, stats: &mut Stats) -> Vec<Violation> {
        let sort_stress = self.focus == Focus::Sorting && rng.fork("stress").chance(1, 2);
        let tables = if sort_stress { crate::sql::qgen::gen_sort_tables(&mut rng.fork("tables"), self.max_rows) } else { gen_tables(&mut rng.fork("tables"), self.max_rows) };
        let db = db_of(&tables);
        let knobs = Knobs::draw(&mut rng.fork("knobs"), self.small_batches);
        let sim = draw_sim(&mut rng.fork("sim"), true);
        let feats = self.features(&mut rng.fork("swarm"));
        let mut g = Gen::new(rng.fork("queries"), &tables, feats);
        g.cte_bias = self.focus == Focus::Subqueries && rng.fork("ctebias").chance(1, 3);
        if g.cte_bias {
            g.f.cte = true;
            g.f.union = true;
        }
        g.max_product = if knobs.batch_size < 16 { 600 } else if knobs.batch_size < 1024 { 4000 } else { 40_000 };
        let chunk = 1 + rng.fork("chunk").usize_below(9);
        let mut stmts = knobs.set_stmts();
        stmts.extend(setup_sql(&tables, chunk).into_iter().map(Stmt::new));
        let nsetup = stmts.len();
        let mut queries = Vec::new();
        for _ in 0..self.queries_per_run {
            let q = if sort_stress { g.gen_sort_query() } else { g.gen_query() };
            stmts.push(Stmt::new(print::query(&q)));
            queries.push(q);
        }
        let mut sc = Scenario::single(stmts);
        sc.sim = sim.clone();
        sc.entropy = rng.fork("entropy").next_u64();
        let rep = run_scenario(&sc, Chooser::generating(rng.fork("sched")), None);
        stats.world(&rep, knobs.key() ^ crate::rng::hash_str(&sim.policy.name()));
        if run < 2 {
            stats.sample(json!({"run": run, "knobs": format!("{knobs:?}"), "policy": sim.policy.name(), "noisy": sim.noisy,
                "script": sc.sessions[0].iter().map(|s| s.sql.clone()).collect::<Vec<_>>(),
                "first_events": rep.events.iter().take(50).map(|e| format!("{}:{}:{}", e.0, e.1, e.2)).collect::<Vec<_>>()}));
        }
        let mut out = Vec::new();
        if rep.end != RunEnd::Completed {
            let stmt = rep.in_flight[0];
            let (class, detail) = crate::check::expect::eval_expect(&crate::replay::Expect::Completes, &rep, 0, stmt).unwrap();
            stats.count(&format!("verdict.{class}"));
            // keep only the statements up to the one in flight
            let mut sc2 = sc.clone();
            sc2.sessions[0].truncate(stmt + 1);
            out.push(Violation { property: self.property.into(), class, scenario: sc2, choices: rep.choices.clone(), session: 0, stmt, expect: crate::replay::Expect::Completes, observed: crate::replay::observe(&rep, 0, stmt), detail, trace: rep.trace, aux: None });
            return out;
        }
        if rep.outcomes[0].iter().take(nsetup).any(|o| !matches!(o.outcome, crate::script::Outcome::Rows(_))) {
            // a generator/dialect problem, not a property violation
            stats.count("harness.setup_failed");
            return out;
        }
        for (i, q) in queries.iter().enumerate() {
            if let Some(mut v) = judge_against_model(self.property, &rep, &sc, nsetup + i, &db, q, &self.allowed_dev, stats) {
                // re-home the violation into a single-query scenario so that the
                // replay file and the shrinker work on it alone
                let aux = SqlAux { tables: tables.clone(), views: vec![], query: q.clone(), knobs: knobs.clone(), chunk, dev: self.allowed_dev.clone() };
                let (sc1, idx) = scenario_for(&aux, &sim, sc.entropy);
                let mut v1 = v.clone();
                v1.scenario = sc1;
                v1.stmt = idx;
                v1.aux = Some(Arc::new(aux));
                if let Some((detail, observed, trace, choices)) = crate::campaign::still_fails(&v1) {
                    v = v1;
                    v.detail = detail;
                    v.observed = observed;
                    v.trace = trace;
                    v.choices = choices;
                }
                out.push(v);
            }
        }
        out
    }

    fn shrink(&self, v: &Violation) -> Vec<Violation> {
        shrink_model_violation(v)
    }
}
