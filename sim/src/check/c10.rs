//! C10: reading a valid Parquet file returns exactly the rows it encodes.
//! Also serves C11(a): projection / filter / row-group pruning pushed into the
//! Parquet scan only skip work.
//!
//! Files come from the harness's own writer (pq.rs); the rows handed to the
//! writer are the expected rows. The file is read through SimFs under seeded
//! read granularities, `Pending` seeks/reads, batch sizes and partitions.

use std::sync::Arc;

use serde_json::json;

use crate::campaign::{Check, Stats, Violation};
use crate::check::expect::eval_expect;
use crate::pq::{self, Cell, Codec, ColType, Enc, FileSpec, Footer, StatsMode};
use crate::replay::{Expect, enc_rows, observe};
use crate::rng::Rng;
use crate::script::{Scenario, Stmt, run_scenario};
use crate::sim::{Chooser, Policy, RunEnd, SimConfig};
use crate::simfs::{FsPlan, Gran, SimDisk};
use crate::value::{Row, Value};

#[derive(Debug, Clone, Copy, PartialEq)]
pub enum PqMode {
    /// C10
    Read,
    /// C11(a)
    Pushdown,
}

pub struct PqCheck {
    pub property: &'static str,
    pub mode: PqMode,
}

#[derive(Debug, Clone, PartialEq)]
pub enum PqQuery {
    SelectStar,
    WithRowId,
    Describe,
    FileMeta,
    RowGroupMeta,
    ColumnMeta,
    /// projection + optional predicate; `opt` = enable_optimizer
    Project { cols: Vec<usize>, pred: Option<(usize, PqPred)>, opt: bool, with_rowid: bool },
}

#[derive(Debug, Clone, PartialEq)]
pub enum PqPred {
    /// col = literal (printed with a cast to the column's SQL type when `cast`)
    Eq { lit: i128, cast: Option<&'static str> },
    Gt { lit: i128, cast: Option<&'static str> },
    IsNull,
    NotNull,
    StrEq(String),
}

#[derive(Debug, Clone)]
struct PqAux {
    spec: FileSpec,
    sets: Vec<String>,
    query: PqQuery,
    path: String,
}

fn qi(name: &str) -> String {
    format!("\"{name}\"")
}

fn sql_type(t: ColType) -> Option<&'static str> {
    use ColType::*;
    Some(match t {
        I8 => "TINYINT",
        I16 => "SMALLINT",
        I32 => "INT",
        I64 => "BIGINT",
        U8 => "UTINYINT",
        U16 => "USMALLINT",
        U32 => "UINT",
        U64 => "UBIGINT",
        _ => return None,
    })
}

fn query_sql(q: &PqQuery, spec: &FileSpec, path: &str) -> String {
    match q {
        PqQuery::SelectStar => format!("SELECT * FROM read_parquet('{path}')"),
        PqQuery::WithRowId => format!("SELECT _rowid, * FROM read_parquet('{path}')"),
        PqQuery::Describe => format!("DESCRIBE read_parquet('{path}')"),
        PqQuery::FileMeta => format!("SELECT * FROM parquet.file_metadata('{path}')"),
        PqQuery::RowGroupMeta => format!("SELECT * FROM parquet.rowgroup_metadata('{path}')"),
        PqQuery::ColumnMeta => format!("SELECT * FROM parquet.column_metadata('{path}')"),
        PqQuery::Project { cols, pred, with_rowid, .. } => {
            let mut sel: Vec<String> = cols.iter().map(|c| qi(&spec.cols[*c].name)).collect();
            if *with_rowid {
                sel.insert(0, "_rowid".into());
            }
            let w = match pred {
                None => String::new(),
                Some((c, p)) => {
                    let n = qi(&spec.cols[*c].name);
                    match p {
                        PqPred::Eq { lit, cast: Some(t) } => format!(" WHERE {n} = CAST({lit} AS {t})"),
                        PqPred::Eq { lit, cast: None } => format!(" WHERE {n} = {lit}"),
                        PqPred::Gt { lit, cast: Some(t) } => format!(" WHERE {n} > CAST({lit} AS {t})"),
                        PqPred::Gt { lit, cast: None } => format!(" WHERE {n} > {lit}"),
                        PqPred::IsNull => format!(" WHERE {n} IS NULL"),
                        PqPred::NotNull => format!(" WHERE {n} IS NOT NULL"),
                        PqPred::StrEq(s) => format!(" WHERE {n} = '{s}'"),
                    }
                }
            };
            format!("SELECT {} FROM read_parquet('{path}'){w}", sel.join(", "))
        }
    }
}

fn expectation(q: &PqQuery, spec: &FileSpec, footer: &Footer, path: &str) -> Expect {
    let rows = spec.expected_rows();
    let types = spec.expected_types();
    match q {
        PqQuery::SelectStar => Expect::Rows { rows: enc_rows(&rows), types: Some(types), sorted_by: vec![], ordered_exact: false },
        PqQuery::WithRowId => {
            let r: Vec<Row> = rows.iter().enumerate().map(|(i, r)| std::iter::once(Value::Int(i as i128)).chain(r.iter().cloned()).collect()).collect();
            let mut t = vec!["Int64".to_string()];
            t.extend(types);
            Expect::Rows { rows: enc_rows(&r), types: Some(t), sorted_by: vec![], ordered_exact: false }
        }
        PqQuery::Describe => {
            let r: Vec<Row> = spec.cols.iter().map(|c| vec![Value::Str(c.name.clone()), Value::Str(c.ty.engine_type())]).collect();
            Expect::Rows { rows: enc_rows(&r), types: None, sorted_by: vec![], ordered_exact: true }
        }
        PqQuery::FileMeta => {
            let r = vec![vec![Value::Str(path.to_string()), Value::Int(footer.version as i128), Value::Int(footer.num_rows as i128), footer.created_by.clone().map(Value::Str).unwrap_or(Value::Null), Value::Int(footer.row_groups.len() as i128)]];
            Expect::Rows { rows: enc_rows(&r), types: None, sorted_by: vec![], ordered_exact: false }
        }
        PqQuery::RowGroupMeta => {
            let r: Vec<Row> = footer.row_groups.iter().zip(&footer.columns).map(|((n, sz, ord), cols)| vec![Value::Str(path.to_string()), Value::Int(*n as i128), Value::Int(cols.len() as i128), Value::Int(*sz as i128), Value::Int(*ord as i128)]).collect();
            Expect::Rows { rows: enc_rows(&r), types: None, sorted_by: vec![], ordered_exact: false }
        }
        PqQuery::ColumnMeta => {
            let mut r: Vec<Row> = Vec::new();
            for (gi, cols) in footer.columns.iter().enumerate() {
                for (ci, (phys, maxdef, off, nv, comp, unc, dpo)) in cols.iter().enumerate() {
                    r.push(vec![
                        Value::Str(path.to_string()),
                        Value::Int(gi as i128),
                        Value::Int(ci as i128),
                        Value::Str(phys.clone()),
                        Value::Int(*maxdef as i128),
                        Value::Int(0),
                        Value::Int(*off as i128),
                        Value::Int(*nv as i128),
                        Value::Int(*comp as i128),
                        Value::Int(*unc as i128),
                        Value::Int(*dpo as i128),
                    ]);
                }
            }
            Expect::Rows { rows: enc_rows(&r), types: None, sorted_by: vec![], ordered_exact: false }
        }
        PqQuery::Project { cols, pred, with_rowid, .. } => {
            let keep = |r: &Row| -> bool {
                match pred {
                    None => true,
                    Some((c, PqPred::IsNull)) => r[*c].is_null(),
                    Some((c, PqPred::NotNull)) => !r[*c].is_null(),
                    Some((c, PqPred::Eq { lit, .. })) => matches!(&r[*c], Value::Int(i) if i == lit),
                    Some((c, PqPred::Gt { lit, .. })) => matches!(&r[*c], Value::Int(i) if i > lit),
                    Some((c, PqPred::StrEq(s))) => matches!(&r[*c], Value::Str(x) if x == s),
                }
            };
            let mut out: Vec<Row> = Vec::new();
            for (i, r) in rows.iter().enumerate() {
                if keep(r) {
                    let mut o: Row = cols.iter().map(|c| r[*c].clone()).collect();
                    if *with_rowid {
                        o.insert(0, Value::Int(i as i128));
                    }
                    out.push(o);
                }
            }
            let mut t: Vec<String> = cols.iter().map(|c| types[*c].clone()).collect();
            if *with_rowid {
                t.insert(0, "Int64".into());
            }
            Expect::Rows { rows: enc_rows(&out), types: Some(t), sorted_by: vec![], ordered_exact: false }
        }
    }
}

#[derive(Debug, Clone)]
struct ScanCfg {
    partitions: u32,
    batch: u32,
    fs: FsPlan,
    sim: SimConfig,
}

fn draw_scan_cfg(rng: &mut Rng, reference: bool, file_len: usize) -> ScanCfg {
    if reference {
        return ScanCfg { partitions: 1, batch: 2048, fs: FsPlan::default(), sim: SimConfig { policy: Policy::Canonical, noisy: false, max_steps: 3_000_000, default_partitions: 4, keep_events: 0 } };
    }
    let gran = match rng.below(8) {
        0 => Gran::Whole,
        1 | 2 => Gran::Fixed(1 + rng.usize_below(9)),
        3 | 4 => Gran::Random(2 + rng.usize_below(60)),
        5 => Gran::Fixed(*rng.pick(&[64usize, 100, 1000, 4096])),
        _ => Gran::Random(2000),
    };
    let gran = match gran {
        Gran::Fixed(k) if file_len > 6000 && k < 32 => Gran::Fixed(32 + 11 * k),
        g => g,
    };
    let fs = FsPlan { gran, pending_16: *rng.pick(&[0u64, 0, 2, 6, 12]), ..FsPlan::default() };
    let sim = SimConfig { policy: Policy::draw(rng), noisy: rng.chance(1, 5), max_steps: 3_000_000, default_partitions: 4, keep_events: 0 };
    ScanCfg { partitions: *rng.pick(&[1u32, 1, 2, 3, 4, 8]), batch: *rng.pick(&[1u32, 2, 3, 7, 16, 100, 2048, 8192]), fs, sim }
}

fn build_scenario(aux: &PqAux, fs: &FsPlan, sim: &SimConfig, entropy: u64) -> (Scenario, usize, Footer) {
    let (bytes, footer) = pq::write_file(&aux.spec);
    let mut stmts: Vec<Stmt> = aux.sets.iter().map(|s| Stmt::new(s.clone())).collect();
    stmts.push(Stmt::new(query_sql(&aux.query, &aux.spec, &aux.path)));
    let idx = stmts.len() - 1;
    let mut sc = Scenario::single(stmts);
    let mut disk = SimDisk::default();
    disk.put(&aux.path, bytes);
    sc.disk = disk;
    sc.fs = fs.clone();
    sc.sim = sim.clone();
    sc.entropy = entropy;
    (sc, idx, footer)
}

fn describe_spec(spec: &FileSpec) -> serde_json::Value {
    json!({
        "rows": spec.num_rows(), "row_groups": spec.row_groups, "codec": format!("{:?}", spec.codec), "version": spec.version, "v2_flag_uncompressed": spec.v2_flag_uncompressed, "padding": spec.padding, "compress_empty": spec.compress_empty,
        "columns": spec.cols.iter().map(|c| format!("{} {:?} optional={} enc={:?} page_rows={} v2={} stats={:?} style={}", c.name, c.ty, c.optional, c.enc, c.page_rows, c.v2, c.stats, c.style)).collect::<Vec<_>>(),
    })
}

impl PqCheck {
    fn gen_queries(&self, spec: &FileSpec, g: &mut Rng) -> Vec<PqQuery> {
        match self.mode {
            PqMode::Read => {
                let mut qs = vec![PqQuery::SelectStar, PqQuery::WithRowId];
                match g.below(4) {
                    0 => qs.push(PqQuery::Describe),
                    1 => qs.push(PqQuery::FileMeta),
                    2 => qs.push(PqQuery::RowGroupMeta),
                    _ => qs.push(PqQuery::ColumnMeta),
                }
                qs
            }
            PqMode::Pushdown => {
                let n = spec.cols.len();
                let rows = spec.expected_rows();
                let mut qs = Vec::new();
                for _ in 0..3 {
                    let k = 1 + g.usize_below(n + 1);
                    let cols: Vec<usize> = (0..k).map(|_| g.usize_below(n)).collect();
                    let pc = g.usize_below(n);
                    let t = spec.cols[pc].ty;
                    let some_val = |g: &mut Rng| -> Option<Value> { if rows.is_empty() { None } else { Some(rows[g.usize_below(rows.len())][pc].clone()) } };
                    let pred = match g.below(6) {
                        0 => None,
                        1 => Some((pc, PqPred::IsNull)),
                        2 => Some((pc, PqPred::NotNull)),
                        _ => match sql_type(t) {
                            Some(st) => {
                                // constants at, just inside and just outside values that occur
                                let base = match some_val(g) {
                                    Some(Value::Int(i)) => i,
                                    _ => g.range(-50, 50) as i128,
                                };
                                let lit = base + *g.pick(&[0i128, 0, 0, 1, -1, 7]);
                                let (lo, hi): (i128, i128) = match t {
                                    ColType::I8 => (-128, 127),
                                    ColType::I16 => (-32768, 32767),
                                    ColType::I32 => (i32::MIN as i128, i32::MAX as i128),
                                    ColType::I64 => (i64::MIN as i128, i64::MAX as i128),
                                    ColType::U8 => (0, 255),
                                    ColType::U16 => (0, 65535),
                                    ColType::U32 => (0, u32::MAX as i128),
                                    _ => (0, u64::MAX as i128),
                                };
                                let lit = lit.clamp(lo, hi);
                                // UBIGINT against a plain (BIGINT) literal is compared in
                                // floating point by the engine's implicit-cast rules (not a
                                // pushdown matter): always give such constants the column type
                                let must_cast = t == ColType::U64;
                                if g.chance(1, 4) && lit > i64::MIN as i128 && lit < i64::MAX as i128 {
                                    Some((pc, PqPred::Gt { lit, cast: if must_cast { Some(st) } else { None } }))
                                } else {
                                    // an explicit cast makes the constant carry the column's type,
                                    // which is what lets the scan prune on it
                                    let cast = if must_cast || g.chance(2, 3) { Some(st) } else { None };
                                    if cast.is_none() && (lit > i64::MAX as i128 || lit < i64::MIN as i128 + 1) {
                                        Some((pc, PqPred::Eq { lit, cast: Some(st) }))
                                    } else {
                                        Some((pc, PqPred::Eq { lit, cast }))
                                    }
                                }
                            }
                            None => match (t, some_val(g)) {
                                (ColType::Utf8, Some(Value::Str(s))) if !s.contains('\'') => Some((pc, PqPred::StrEq(s))),
                                _ => Some((pc, PqPred::NotNull)),
                            },
                        },
                    };
                    qs.push(PqQuery::Project { cols, pred, opt: g.chance(3, 4), with_rowid: g.chance(1, 3) });
                }
                qs
            }
        }
    }
}

impl Check for PqCheck {
    fn run_one(&self, run: u64, rng: Rng, stats: &mut Stats) -> Vec<Violation> {
        let mut out = Vec::new();
        let mut g = rng.fork("gen");
        let max_rows = *g.pick(&[30usize, 100, 100, 400, 1200]);
        let mut spec = pq::gen_file(&mut g, max_rows, pq::ALL_TYPES);
        if self.mode == PqMode::Pushdown {
            // integer columns with statistics and several row groups are what
            // pruning looks at
            let ints = [ColType::I8, ColType::I16, ColType::I32, ColType::I64, ColType::U8, ColType::U16, ColType::U32, ColType::U64, ColType::Utf8, ColType::Bool, ColType::F64];
            spec = pq::gen_file(&mut g, max_rows, &ints);
            if spec.num_rows() > 3 && g.chance(3, 4) {
                let n = spec.num_rows();
                let k = 1 + g.usize_below(n.min(40));
                let mut rgs = Vec::new();
                let mut left = n;
                while left > 0 {
                    let t = left.min(k);
                    rgs.push(t);
                    left -= t;
                }
                spec.row_groups = rgs;
            }
        }
        let entropy = rng.fork("entropy").next_u64();
        let path = format!("data/f{}.parquet", run % 5);
        let (bytes, footer0) = pq::write_file(&spec);
        stats.add("pq.bytes_generated", bytes.len() as u64);
        stats.add("pq.row_groups", spec.row_groups.len() as u64);
        stats.add("pq.pages_max_per_chunk", footer0.pages_per_chunk_max as u64);
        for c in &spec.cols {
            stats.count(&format!("pq.enc.{}", match c.enc { Enc::Plain => "plain", Enc::Dict { fallback_after: None, .. } => "dict", Enc::Dict { .. } => "dict_fallback", Enc::Rle => "rle_bool", Enc::DeltaBinaryPacked => "delta_binary_packed", Enc::DeltaLengthByteArray => "delta_length_byte_array", Enc::DeltaByteArray => "delta_byte_array", Enc::ByteStreamSplit => "byte_stream_split" }));
            stats.count(&format!("pq.type.{}", c.ty.engine_type().split('(').next().unwrap_or("")));
            stats.count(if c.v2 { "pq.page.v2" } else { "pq.page.v1" });
            stats.count(&format!("pq.stats.{:?}", c.stats));
        }
        stats.count(&format!("pq.codec.{:?}", spec.codec));
        let queries = self.gen_queries(&spec, &mut g);
        let nvar = 2 + rng.fork("nvar").usize_below(2);
        for (qi_, q) in queries.iter().enumerate() {
            let expect = expectation(q, &spec, &footer0, &path);
            for vi in 0..=nvar {
                let cfg = draw_scan_cfg(&mut rng.fork_idx("cfg", (qi_ * 10 + vi) as u64), vi == 0, bytes.len());
                let mut sets = vec![format!("SET partitions TO {}", cfg.partitions), format!("SET batch_size TO {}", cfg.batch)];
                if let PqQuery::Project { opt, .. } = q {
                    sets.push(format!("SET enable_optimizer TO {opt}"));
                }
                let aux = PqAux { spec: spec.clone(), sets, query: q.clone(), path: path.clone() };
                let (sc, idx, _) = build_scenario(&aux, &cfg.fs, &cfg.sim, entropy);
                let rep = run_scenario(&sc, Chooser::generating(rng.fork_idx("sched", (qi_ * 10 + vi) as u64)), None);
                stats.world(&rep, (cfg.partitions as u64) << 40 ^ (cfg.batch as u64) << 8 ^ crate::rng::hash_str(&format!("{:?}{}", cfg.fs.gran, cfg.sim.policy.name())));
                if run < 2 && qi_ == 0 && vi == 1 {
                    stats.sample(json!({"run": run, "file": describe_spec(&spec), "file_bytes": bytes.len(),
                        "scan": format!("partitions={} batch={} gran={:?} pending/16={} policy={}", cfg.partitions, cfg.batch, cfg.fs.gran, cfg.fs.pending_16, cfg.sim.policy.name()),
                        "script": sc.sessions[0].iter().map(|s| s.sql.clone()).collect::<Vec<_>>(), "io": rep.io_stats}));
                }
                let mk = |class: String, detail: String, stmt: usize, e: Expect| Violation { property: self.property.into(), class, scenario: sc.clone(), choices: rep.choices.clone(), session: 0, stmt, expect: e, observed: observe(&rep, 0, stmt), detail, trace: rep.trace, aux: Some(Arc::new(aux.clone())) };
                if rep.end != RunEnd::Completed {
                    let stmt = rep.in_flight[0];
                    let (class, detail) = eval_expect(&Expect::Completes, &rep, 0, stmt).unwrap();
                    stats.count(&format!("verdict.{class}"));
                    out.push(mk(class, detail, stmt, Expect::Completes));
                    break;
                }
                match eval_expect(&expect, &rep, 0, idx) {
                    Some((class, detail)) => {
                        stats.count("verdict.violation");
                        out.push(mk(class, detail, idx, expect.clone()));
                        break;
                    }
                    None => stats.count("verdict.match"),
                }
            }
        }
        out
    }

    fn describe(&self, v: &Violation) -> Option<String> {
        v.aux.as_ref().and_then(|a| a.downcast_ref::<PqAux>()).map(|a| format!("file: {}", describe_spec(&a.spec)))
    }

    fn shrink(&self, v: &Violation) -> Vec<Violation> {
        let aux: PqAux = match v.aux.as_ref().and_then(|a| a.downcast_ref::<PqAux>()) {
            Some(a) => a.clone(),
            None => return vec![],
        };
        let mut out = Vec::new();
        let mut push = |a: PqAux| {
            let (sc, idx, footer) = build_scenario(&a, &v.scenario.fs, &v.scenario.sim, v.scenario.entropy);
            let mut c = v.clone();
            c.expect = if matches!(v.expect, Expect::Completes) { Expect::Completes } else { expectation(&a.query, &a.spec, &footer, &a.path) };
            c.scenario = sc;
            c.stmt = idx;
            c.aux = Some(Arc::new(a));
            out.push(c);
        };
        let spec = &aux.spec;
        let n = spec.num_rows();
        let ncols = spec.cols.len();
        let query_uses_cols = matches!(aux.query, PqQuery::Project { .. });
        // fewer columns
        if ncols > 1 && !query_uses_cols {
            for c in 0..ncols {
                let mut a = aux.clone();
                a.spec.cols.remove(c);
                a.spec.data.remove(c);
                push(a);
            }
        }
        // fewer rows (keeps a single row group)
        let cut = |a: &mut PqAux, lo: usize, hi: usize| {
            for d in a.spec.data.iter_mut() {
                *d = d[lo..hi].to_vec();
            }
            a.spec.row_groups = if hi > lo { vec![hi - lo] } else { vec![] };
        };
        if n > 1 {
            let mut a = aux.clone();
            cut(&mut a, 0, n / 2);
            push(a);
            let mut a = aux.clone();
            cut(&mut a, n / 2, n);
            push(a);
        }
        if n > 0 && n <= 12 {
            for r in 0..n {
                let mut a = aux.clone();
                for d in a.spec.data.iter_mut() {
                    d.remove(r);
                }
                a.spec.row_groups = vec![n - 1];
                push(a);
            }
        }
        if spec.row_groups.len() > 1 {
            let mut a = aux.clone();
            a.spec.row_groups = vec![n];
            push(a);
        }
        if spec.codec != Codec::None {
            let mut a = aux.clone();
            a.spec.codec = Codec::None;
            push(a);
        }
        if spec.padding != 0 || spec.v2_flag_uncompressed {
            let mut a = aux.clone();
            a.spec.padding = 0;
            a.spec.v2_flag_uncompressed = false;
            push(a);
        }
        for c in 0..ncols {
            let col = &spec.cols[c];
            if col.enc != Enc::Plain {
                let mut a = aux.clone();
                a.spec.cols[c].enc = Enc::Plain;
                push(a);
            }
            if col.v2 {
                let mut a = aux.clone();
                a.spec.cols[c].v2 = false;
                push(a);
            }
            if col.page_rows < 100_000 {
                let mut a = aux.clone();
                a.spec.cols[c].page_rows = 100_000;
                push(a);
            }
            if col.stats != StatsMode::Absent {
                let mut a = aux.clone();
                a.spec.cols[c].stats = StatsMode::Absent;
                push(a);
            }
            if col.optional && !spec.data[c].iter().any(|x| *x == Cell::Null) {
                let mut a = aux.clone();
                a.spec.cols[c].optional = false;
                push(a);
            }
            if col.optional && spec.data[c].iter().any(|x| *x == Cell::Null) && !spec.data[c].iter().all(|x| *x == Cell::Null) {
                // replace NULLs by the first non-null value
                let mut a = aux.clone();
                let first = spec.data[c].iter().find(|x| **x != Cell::Null).cloned().unwrap();
                for x in a.spec.data[c].iter_mut() {
                    if *x == Cell::Null {
                        *x = first.clone();
                    }
                }
                push(a);
            }
        }
        for si in 0..aux.sets.len() {
            let mut a = aux.clone();
            a.sets.remove(si);
            push(a);
        }
        out
    }
}
