//! C14: catalog and table contents equal the sequential effect of DDL/DML.
//!
//! Histories of DDL/DML/SET over a small name universe, 1-3 sessions of one
//! engine scheduled concurrently, checked statement by statement against
//! R-CAT (a sequential catalog + table model per session).

use std::collections::{BTreeMap, BTreeSet};

use serde_json::json;

use crate::campaign::{Check, Stats, Violation};
use crate::check::expect::{eval_expect, first_line, is_unsupported};
use crate::check::sqlcase::draw_sim;
use crate::replay::{Expect, enc_rows, observe};
use crate::rng::Rng;
use crate::script::{Outcome, Scenario, Stmt, run_scenario};
use crate::sim::{Chooser, RunEnd};
use crate::sql::ast::Ty;
use crate::sql::print;
use crate::sql::qgen::gen_value;
use crate::value::{Row, Value};

#[derive(Debug, Clone, Default)]
struct TableM {
    cols: Vec<(String, Ty)>,
    rows: Vec<Row>,
}

#[derive(Debug, Clone)]
struct ViewM {
    table: String,
    /// projected column indexes of the table
    proj: Vec<usize>,
    /// optional filter: column idx > constant
    filter: Option<(usize, i64)>,
}

#[derive(Debug, Clone)]
struct CatM {
    schemas: BTreeSet<String>,
    tables: BTreeMap<String, TableM>,
    views: BTreeMap<String, ViewM>,
    settings: BTreeMap<&'static str, String>,
    /// names a failed CREATE TABLE AS may have left behind (recorded defect
    /// KF-failed-ctas-leaves-table): statements touching them are not judged
    tainted: BTreeSet<String>,
    /// a probe to emit next (after a failing CTAS)
    pending_probe: Option<String>,
    /// table to count right after a failing INSERT .. SELECT
    pending_count_probe: Option<String>,
}

fn defaults() -> BTreeMap<&'static str, String> {
    let mut m = BTreeMap::new();
    m.insert("partitions", "4".to_string());
    m.insert("batch_size", "2048".to_string());
    m.insert("enable_hash_joins", "true".to_string());
    m
}

impl CatM {
    fn new() -> Self {
        let mut schemas = BTreeSet::new();
        schemas.insert("temp".to_string());
        CatM { schemas, tables: BTreeMap::new(), views: BTreeMap::new(), settings: defaults(), tainted: BTreeSet::new(), pending_probe: None, pending_count_probe: None }
    }
    fn schema_of(key: &str) -> &str {
        key.split_once('.').map(|x| x.0).unwrap_or("temp")
    }
    fn name_taken(&self, key: &str) -> bool {
        self.tables.contains_key(key) || self.views.contains_key(key)
    }
    fn schema_empty(&self, s: &str) -> bool {
        !self.tables.keys().chain(self.views.keys()).any(|k| Self::schema_of(k) == s)
    }
    fn view_rows(&self, v: &ViewM) -> Option<Vec<Row>> {
        let t = self.tables.get(&v.table)?;
        let mut out = Vec::new();
        for r in &t.rows {
            if let Some((c, k)) = v.filter {
                match &r[c] {
                    Value::Int(i) if *i > k as i128 => {}
                    _ => continue,
                }
            }
            out.push(v.proj.iter().map(|i| r[*i].clone()).collect());
        }
        Some(out)
    }
}

/// What the model says a statement must do.
#[derive(Debug, Clone)]
enum Want {
    /// succeeds; no rows to compare
    Ok,
    /// succeeds and reports this count (INSERT / CTAS)
    Count(i128),
    /// fails with some error
    Err,
    /// succeeds with exactly these rows (bag)
    Rows(Vec<Row>),
    /// not judged (touches an object whose state the model cannot know)
    Any,
}

struct Planned {
    sql: String,
    want: Want,
    /// short label for statistics
    kind: &'static str,
}

const TABLES: &[&str] = &["t0", "t1", "t2", "s0.t0", "s1.t1"];
const VIEWS: &[&str] = &["v0", "v1"];
const SCHEMAS: &[&str] = &["s0", "s1"];

fn gen_cols(rng: &mut Rng) -> Vec<(String, Ty)> {
    let n = 1 + rng.usize_below(3);
    let mut cols = vec![("k".to_string(), Ty::Int)];
    for i in 1..n {
        let ty = *rng.pick(&[Ty::Int, Ty::Big, Ty::Text, Ty::Bool, Ty::Dbl]);
        cols.push((format!("c{i}"), ty));
    }
    cols
}

fn gen_rows(rng: &mut Rng, cols: &[(String, Ty)], n: usize) -> Vec<Row> {
    (0..n)
        .map(|_| cols.iter().map(|(_, t)| if rng.chance(1, 8) { Value::Null } else { gen_value(rng, *t, 12) }).collect())
        .collect()
}

fn values_sql(cols: &[(String, Ty)], rows: &[Row]) -> String {
    let rs: Vec<String> = rows
        .iter()
        .map(|r| {
            let v: Vec<String> = r.iter().zip(cols).map(|(v, (_, t))| print::lit(v, *t)).collect();
            format!("({})", v.join(", "))
        })
        .collect();
    rs.join(", ")
}

fn table_sql(key: &str) -> String {
    print::ident_path(key)
}

/// Generate the next statement of a session's history and apply it to the model.
fn next_stmt(rng: &mut Rng, m: &mut CatM, big: bool) -> Planned {
    if let Some(name) = m.pending_probe.take() {
        let (schema, table) = (CatM::schema_of(&name).to_string(), name.split_once('.').map(|x| x.1).unwrap_or(&name).to_string());
        return Planned {
            sql: format!("SELECT count(*) AS ctas_left_behind FROM list_tables() WHERE database_name = 'temp' AND schema_name = '{schema}' AND table_name = '{table}'"),
            want: Want::Rows(vec![vec![Value::Int(0)]]),
            kind: "probe_failed_ctas",
        };
    }
    if let Some(key) = m.pending_count_probe.take() {
        if let Some(t) = m.tables.get(&key) {
            // recorded defect KF-failed-insert-select-partial: contents unknown afterwards
            m.tainted.insert(key.clone());
            return Planned { sql: format!("SELECT count(*) AS after_failed_insert FROM {}", table_sql(&key)), want: Want::Rows(vec![vec![Value::Int(t.rows.len() as i128)]]), kind: "probe_failed_insert" };
        }
    }
    let p = next_stmt_inner(rng, m, big);
    // anything that mentions a tainted name is not judged
    if m.tainted.iter().any(|t| p.sql.contains(&table_sql(t))) || (!m.tainted.is_empty() && p.sql.contains("list_tables()")) {
        return Planned { sql: p.sql, want: Want::Any, kind: "tainted" };
    }
    p
}

fn next_stmt_inner(rng: &mut Rng, m: &mut CatM, big: bool) -> Planned {
    let existing: Vec<String> = m.tables.keys().cloned().collect();
    let pick_table = |rng: &mut Rng| -> String { TABLES[rng.usize_below(TABLES.len())].to_string() };
    let roll = rng.below(100);
    match roll {
        0..=5 => {
            let s = SCHEMAS[rng.usize_below(SCHEMAS.len())];
            let ine = rng.chance(1, 3);
            let exists = m.schemas.contains(s);
            let sql = format!("CREATE SCHEMA {}{}", if ine { "IF NOT EXISTS " } else { "" }, s);
            let want = if exists && !ine { Want::Err } else { Want::Ok };
            if !exists {
                m.schemas.insert(s.to_string());
            }
            Planned { sql, want, kind: "create_schema" }
        }
        6..=8 => {
            let s = SCHEMAS[rng.usize_below(SCHEMAS.len())];
            let exists = m.schemas.contains(s);
            if exists && !m.schema_empty(s) {
                // dropping a non-empty schema: documented behaviour unclear; probe instead
                return Planned { sql: "SELECT schema_name FROM list_schemas() WHERE database_name = 'temp'".into(), want: Want::Rows(m.schemas.iter().map(|s| vec![Value::Str(s.clone())]).collect()), kind: "list_schemas" };
            }
            let ie = rng.chance(1, 3);
            let sql = format!("DROP SCHEMA {}{}", if ie { "IF EXISTS " } else { "" }, s);
            let want = if !exists && !ie { Want::Err } else { Want::Ok };
            m.schemas.remove(s);
            Planned { sql, want, kind: "drop_schema" }
        }
        9..=20 => {
            let key = pick_table(rng);
            let ine = rng.chance(1, 3);
            let cols = gen_cols(rng);
            let coldefs: Vec<String> = cols.iter().map(|(n, t)| format!("{n} {}", t.sql())).collect();
            let sql = format!("CREATE TEMP TABLE {}{} ({})", if ine { "IF NOT EXISTS " } else { "" }, table_sql(&key), coldefs.join(", "));
            let schema_ok = m.schemas.contains(CatM::schema_of(&key));
            let taken = m.name_taken(&key);
            let want = if !schema_ok || (taken && !ine) { Want::Err } else { Want::Ok };
            if schema_ok && !taken {
                m.tables.insert(key, TableM { cols, rows: vec![] });
            }
            Planned { sql, want, kind: "create_table" }
        }
        21..=26 => {
            let key = pick_table(rng);
            let ie = rng.chance(1, 3);
            // never drop a table a view still reads (the engine allows it; the
            // view then fails, which is fine, but keep the model simple)
            if m.views.values().any(|v| v.table == key) {
                return Planned { sql: format!("SELECT count(*) FROM {}", table_sql(&key)), want: match m.tables.get(&key) { Some(t) => Want::Rows(vec![vec![Value::Int(t.rows.len() as i128)]]), None => Want::Err }, kind: "count" };
            }
            let exists = m.tables.contains_key(&key);
            let sql = format!("DROP TABLE {}{}", if ie { "IF EXISTS " } else { "" }, table_sql(&key));
            let want = if !exists && !ie { Want::Err } else { Want::Ok };
            m.tables.remove(&key);
            Planned { sql, want, kind: "drop_table" }
        }
        27..=31 => {
            let name = VIEWS[rng.usize_below(VIEWS.len())].to_string();
            if existing.is_empty() {
                return Planned { sql: "SELECT table_name FROM list_tables() WHERE database_name = 'temp'".into(), want: Want::Rows(vec![]), kind: "list_tables" };
            }
            let tkey = existing[rng.usize_below(existing.len())].clone();
            let t = m.tables.get(&tkey).unwrap().clone();
            let mut proj: Vec<usize> = (0..t.cols.len()).collect();
            rng.shuffle(&mut proj);
            proj.truncate(1 + rng.usize_below(t.cols.len()));
            let filter = if rng.chance(1, 2) { Some((0usize, rng.range(-1, 8))) } else { None };
            let cols: Vec<String> = proj.iter().map(|i| t.cols[*i].0.clone()).collect();
            let mut sql = format!("CREATE TEMP VIEW {name} AS SELECT {} FROM {}", cols.join(", "), table_sql(&tkey));
            if let Some((c, k)) = filter {
                sql.push_str(&format!(" WHERE {} > {k}", t.cols[c].0));
            }
            let taken = m.name_taken(&name);
            let want = if taken { Want::Err } else { Want::Ok };
            if !taken {
                m.views.insert(name, ViewM { table: tkey, proj, filter });
            }
            Planned { sql, want, kind: "create_view" }
        }
        32..=49 => {
            // INSERT .. VALUES (valid, wrong arity, or a value that fails at run time)
            let key = if !existing.is_empty() && rng.chance(5, 6) { existing[rng.usize_below(existing.len())].clone() } else { pick_table(rng) };
            let Some(t) = m.tables.get(&key).cloned() else {
                return Planned { sql: format!("INSERT INTO {} VALUES (1)", table_sql(&key)), want: Want::Err, kind: "insert_missing" };
            };
            let n = if big { 1 + rng.usize_below(60) } else { 1 + rng.usize_below(6) };
            let rows = gen_rows(rng, &t.cols, n);
            match rng.below(8) {
                0 => {
                    let mut cols2 = t.cols.clone();
                    cols2.push(("x".into(), Ty::Int));
                    let rows2 = gen_rows(rng, &cols2, 2);
                    Planned { sql: format!("INSERT INTO {} VALUES {}", table_sql(&key), values_sql(&cols2, &rows2)), want: Want::Err, kind: "insert_bad_arity" }
                }
                1 => {
                    // a text value in the INT key column of the last row: fails at run time
                    let mut s = values_sql(&t.cols, &rows);
                    let bad: Vec<String> = t.cols.iter().enumerate().map(|(i, (_, ty))| if i == 0 { "'nan'".to_string() } else { print::lit(&Value::Null, *ty) }).collect();
                    s.push_str(&format!(", ({})", bad.join(", ")));
                    Planned { sql: format!("INSERT INTO {} VALUES {}", table_sql(&key), s), want: Want::Err, kind: "insert_bad_value" }
                }
                _ => {
                    m.tables.get_mut(&key).unwrap().rows.extend(rows.clone());
                    Planned { sql: format!("INSERT INTO {} VALUES {}", table_sql(&key), values_sql(&t.cols, &rows)), want: Want::Count(rows.len() as i128), kind: "insert_values" }
                }
            }
        }
        50..=59 => {
            // INSERT .. SELECT (also self-referencing)
            if existing.is_empty() {
                return Planned { sql: "SELECT count(*) FROM list_tables() WHERE database_name = 'temp'".into(), want: Want::Rows(vec![vec![Value::Int(0)]]), kind: "list_tables" };
            }
            let target = existing[rng.usize_below(existing.len())].clone();
            let t = m.tables.get(&target).unwrap().clone();
            // sources with the same column types
            let sources: Vec<String> = m.tables.iter().filter(|(_, s)| s.cols.iter().map(|c| c.1).collect::<Vec<_>>() == t.cols.iter().map(|c| c.1).collect::<Vec<_>>()).map(|(k, _)| k.clone()).collect();
            let source = sources[rng.usize_below(sources.len())].clone();
            let s = m.tables.get(&source).unwrap().clone();
            let k = rng.range(-1, 8);
            let filt = rng.chance(1, 2);
            let rows: Vec<Row> = s.rows.iter().filter(|r| !filt || matches!(&r[0], Value::Int(i) if *i > k as i128)).cloned().collect();
            let cols: Vec<String> = s.cols.iter().map(|c| c.0.clone()).collect();
            let mut sql = format!("INSERT INTO {} SELECT {} FROM {}", table_sql(&target), cols.join(", "), table_sql(&source));
            if filt {
                sql.push_str(&format!(" WHERE {} > {k}", s.cols[0].0));
            }
            // a variant that fails at run time on some row: the key column is
            // produced by casting a text column that holds a non-numeric value
            let text_col = s.cols.iter().position(|c| c.1 == Ty::Text);
            if rng.chance(1, 4) && text_col.is_some() && s.rows.iter().any(|r| matches!(&r[text_col.unwrap()], Value::Str(x) if x.trim().parse::<i64>().is_err())) {
                let tc = &s.cols[text_col.unwrap()].0;
                let exprs: Vec<String> = s.cols.iter().enumerate().map(|(i, c)| if i == 0 { format!("CAST({tc} AS INT)") } else { c.0.clone() }).collect();
                let sql = format!("INSERT INTO {} SELECT {} FROM {}", table_sql(&target), exprs.join(", "), table_sql(&source));
                m.pending_count_probe = Some(target.clone());
                return Planned { sql, want: Want::Err, kind: "insert_select_failing" };
            }
            let n = rows.len() as i128;
            m.tables.get_mut(&target).unwrap().rows.extend(rows);
            Planned { sql, want: Want::Count(n), kind: if source == target { "insert_select_self" } else { "insert_select" } }
        }
        60..=66 => {
            // CREATE TABLE AS (valid, or failing at run time on some row)
            let key = pick_table(rng);
            if existing.is_empty() {
                return Planned { sql: format!("CREATE TEMP TABLE {} AS SELECT 1 AS k", table_sql(&key)), want: if !m.schemas.contains(CatM::schema_of(&key)) || m.name_taken(&key) { Want::Err } else { m.tables.insert(key.clone(), TableM { cols: vec![("k".into(), Ty::Int)], rows: vec![vec![Value::Int(1)]] }); Want::Count(1) }, kind: "ctas" };
            }
            let source = existing[rng.usize_below(existing.len())].clone();
            let s = m.tables.get(&source).unwrap().clone();
            let schema_ok = m.schemas.contains(CatM::schema_of(&key));
            let taken = m.name_taken(&key);
            let text_col = s.cols.iter().position(|c| c.1 == Ty::Text);
            let failing = rng.chance(1, 4) && text_col.is_some() && s.rows.iter().any(|r| matches!(&r[text_col.unwrap()], Value::Str(x) if x.trim().parse::<i64>().is_err()));
            if failing {
                let c = &s.cols[text_col.unwrap()].0;
                let sql = format!("CREATE TEMP TABLE {} AS SELECT k, CAST({c} AS INT) AS n FROM {}", table_sql(&key), table_sql(&source));
                if schema_ok && !taken {
                    m.tainted.insert(key.clone());
                    m.pending_probe = Some(key.clone());
                }
                return Planned { sql, want: Want::Err, kind: "ctas_failing" };
            }
            let cols: Vec<String> = s.cols.iter().map(|c| c.0.clone()).collect();
            let ine = rng.chance(1, 3);
            let sql = format!("CREATE TEMP TABLE {}{} AS SELECT {} FROM {}", if ine { "IF NOT EXISTS " } else { "" }, table_sql(&key), cols.join(", "), table_sql(&source));
            if ine && schema_ok && m.tables.contains_key(&key) {
                // the table exists: the statement must not touch it (later probes
                // compare its contents with the unchanged model)
                return Planned { sql, want: Want::Ok, kind: "ctas_if_not_exists_noop" };
            }
            if !schema_ok || taken {
                return Planned { sql, want: Want::Err, kind: "ctas_dup" };
            }
            let n = s.rows.len() as i128;
            m.tables.insert(key, s);
            Planned { sql, want: Want::Count(n), kind: "ctas" }
        }
        67..=73 => {
            let var = *rng.pick(&["partitions", "batch_size", "enable_hash_joins"]);
            match rng.below(5) {
                0 => {
                    m.settings.insert(var, defaults()[var].clone());
                    Planned { sql: format!("RESET {var}"), want: Want::Ok, kind: "reset" }
                }
                1 => Planned { sql: format!("SET {var} TO 'abc'"), want: Want::Err, kind: "set_invalid" },
                2 => Planned { sql: "SET no_such_setting TO 1".into(), want: Want::Err, kind: "set_invalid" },
                _ => {
                    let val = match var {
                        "partitions" => rng.pick(&["1", "2", "3", "4", "8"]).to_string(),
                        "batch_size" => rng.pick(&["1", "2", "7", "64", "2048", "4096"]).to_string(),
                        _ => rng.pick(&["true", "false"]).to_string(),
                    };
                    m.settings.insert(var, val.clone());
                    Planned { sql: format!("SET {var} TO {val}"), want: Want::Ok, kind: "set" }
                }
            }
        }
        74..=77 => {
            let var = *rng.pick(&["partitions", "batch_size", "enable_hash_joins"]);
            let v = m.settings[var].clone();
            let val = if var == "enable_hash_joins" { Value::Bool(v == "true") } else { Value::Int(v.parse().unwrap_or(0)) };
            Planned { sql: format!("SHOW {var}"), want: Want::Rows(vec![vec![val]]), kind: "show" }
        }
        78..=81 => {
            let rows: Vec<Row> = m.tables.keys().map(|k| vec![Value::Str(CatM::schema_of(k).to_string()), Value::Str(k.split_once('.').map(|x| x.1).unwrap_or(k).to_string())]).collect();
            Planned { sql: "SELECT schema_name, table_name FROM list_tables() WHERE database_name = 'temp'".into(), want: Want::Rows(rows), kind: "list_tables" }
        }
        82..=84 => {
            let rows: Vec<Row> = m.views.keys().map(|k| vec![Value::Str(k.clone())]).collect();
            Planned { sql: "SELECT view_name FROM list_views() WHERE database_name = 'temp'".into(), want: Want::Rows(rows), kind: "list_views" }
        }
        85..=89 => {
            if m.views.is_empty() {
                return Planned { sql: "SELECT schema_name FROM list_schemas() WHERE database_name = 'temp'".into(), want: Want::Rows(m.schemas.iter().map(|s| vec![Value::Str(s.clone())]).collect()), kind: "list_schemas" };
            }
            let names: Vec<String> = m.views.keys().cloned().collect();
            let name = names[rng.usize_below(names.len())].clone();
            let v = m.views[&name].clone();
            let want = match m.view_rows(&v) {
                Some(r) => Want::Rows(r),
                None => Want::Err,
            };
            Planned { sql: format!("SELECT * FROM {name}"), want, kind: "select_view" }
        }
        _ => {
            let key = if !existing.is_empty() && rng.chance(7, 8) { existing[rng.usize_below(existing.len())].clone() } else { pick_table(rng) };
            match m.tables.get(&key) {
                Some(t) => {
                    if rng.chance(1, 3) {
                        Planned { sql: format!("SELECT count(*) FROM {}", table_sql(&key)), want: Want::Rows(vec![vec![Value::Int(t.rows.len() as i128)]]), kind: "count" }
                    } else {
                        Planned { sql: format!("SELECT * FROM {}", table_sql(&key)), want: Want::Rows(t.rows.clone()), kind: "select_table" }
                    }
                }
                None => Planned { sql: format!("SELECT * FROM {}", table_sql(&key)), want: Want::Err, kind: "select_missing" },
            }
        }
    }
}

pub struct CatalogCheck {
    pub big: bool,
}

impl Check for CatalogCheck {
    fn run_one(&self, run: u64, rng: Rng, stats: &mut Stats) -> Vec<Violation> {
        let nsess = *rng.fork("nsess").pick_weighted(&[(3, 1usize), (2, 2), (1, 3)]);
        let mut sessions: Vec<Vec<Stmt>> = Vec::new();
        let mut wants: Vec<Vec<(Want, &'static str)>> = Vec::new();
        let big = self.big && rng.fork("big").chance(1, 2);
        for s in 0..nsess {
            let mut r = rng.fork_idx("session", s as u64);
            let mut m = CatM::new();
            let n = 10 + r.usize_below(25);
            let mut stmts = Vec::new();
            let mut w = Vec::new();
            for _ in 0..n {
                let p = next_stmt(&mut r, &mut m, big);
                stats.count(&format!("stmt.{}", p.kind));
                stmts.push(Stmt::new(p.sql));
                w.push((p.want, p.kind));
            }
            sessions.push(stmts);
            wants.push(w);
        }
        let mut sc = Scenario::single(vec![]);
        sc.sessions = sessions;
        sc.sim = draw_sim(&mut rng.fork("sim"), true);
        sc.entropy = rng.fork("entropy").next_u64();
        {
            // H3: small segments/chunks so flushes happen during a statement
            let mut d = rng.fork("dims");
            if d.chance(2, 3) {
                sc.table_dims = Some((1 + d.usize_below(4), *d.pick(&[1usize, 2, 3, 8, 64])));
                stats.count("hook.small_table_dims");
            }
        }
        let rep = run_scenario(&sc, Chooser::generating(rng.fork("sched")), None);
        stats.world(&rep, nsess as u64 ^ crate::rng::hash_str(&sc.sim.policy.name()));
        if run < 2 {
            stats.sample(json!({"run": run, "policy": sc.sim.policy.name(), "noisy": sc.sim.noisy, "sessions": sc.sessions.iter().map(|s| s.iter().map(|x| x.sql.clone()).collect::<Vec<_>>()).collect::<Vec<_>>()}));
        }
        let mut out = Vec::new();
        if rep.end != RunEnd::Completed {
            let (class, detail) = eval_expect(&Expect::Completes, &rep, 0, 0).unwrap();
            stats.count(&format!("verdict.{class}"));
            // which session was in flight? report the first unfinished one
            let si = (0..nsess).find(|&i| rep.in_flight[i] < sc.sessions[i].len()).unwrap_or(0);
            let stmt = rep.in_flight[si].min(sc.sessions[si].len().saturating_sub(1));
            out.push(Violation { property: "C14".into(), class, scenario: sc.clone(), choices: rep.choices.clone(), session: si, stmt, expect: Expect::Completes, observed: observe(&rep, si, stmt), detail, trace: rep.trace, aux: None });
            return out;
        }
        for si in 0..nsess {
            for (i, (want, kind)) in wants[si].iter().enumerate() {
                let o = &rep.outcomes[si][i].outcome;
                let expect = match want {
                    Want::Ok => Expect::Success,
                    Want::Err => Expect::Failure,
                    Want::Count(n) => Expect::Rows { rows: enc_rows(&[vec![Value::Int(*n)]]), types: None, sorted_by: vec![], ordered_exact: false },
                    Want::Rows(r) => Expect::Rows { rows: enc_rows(r), types: None, sorted_by: vec![], ordered_exact: false },
                    Want::Any => {
                        stats.count("verdict.not_judged_tainted");
                        continue;
                    }
                };
                if let Outcome::Error { msg, .. } = o {
                    if is_unsupported(msg) && !matches!(want, Want::Err) {
                        stats.count("verdict.rejected_unsupported");
                        // the model has diverged from the engine for this session
                        break;
                    }
                }
                match eval_expect(&expect, &rep, si, i) {
                    None => stats.count("verdict.match"),
                    Some((class, detail)) => {
                        stats.count("verdict.violation");
                        stats.count(&format!("violation_kind.{kind}"));
                        // keep only this session's history up to the statement
                        let mut sc2 = sc.clone();
                        for (sj, s) in sc2.sessions.iter_mut().enumerate() {
                            if sj == si {
                                s.truncate(i + 1);
                            }
                        }
                        let detail = format!("{detail} [{kind}] {}", if let Outcome::Error { msg, .. } = o { first_line(msg) } else { String::new() });
                        out.push(Violation { property: "C14".into(), class, scenario: sc2, choices: rep.choices.clone(), session: si, stmt: i, expect, observed: observe(&rep, si, i), detail, trace: rep.trace, aux: None });
                        // later statements of this session are judged against a
                        // model that no longer matches; stop here
                        break;
                    }
                }
            }
        }
        out
    }

    fn shrink(&self, v: &Violation) -> Vec<Violation> {
        // history shrinking: drop one earlier statement of the failing session,
        // or a whole other session. Sound only if the expectation is
        // recomputed; here the expectation of the *failing* statement depends
        // on the earlier ones, so candidates are restricted to dropping
        // statements that cannot influence it: other sessions entirely, and
        // pure probes (SELECT / SHOW / list_*) of the same session.
        let mut out = Vec::new();
        for sj in 0..v.scenario.sessions.len() {
            if sj != v.session && !v.scenario.sessions[sj].is_empty() {
                let mut c = v.clone();
                c.scenario.sessions[sj].clear();
                out.push(c);
            }
        }
        let sess = &v.scenario.sessions[v.session];
        for i in (0..v.stmt).rev() {
            let s = sess[i].sql.to_ascii_uppercase();
            if s.starts_with("SELECT") || s.starts_with("SHOW") {
                let mut c = v.clone();
                c.scenario.sessions[v.session].remove(i);
                c.stmt -= 1;
                out.push(c);
            }
        }
        out
    }
}
