//! C15: every statement text yields a result or an error in bounded time; the
//! process never panics, aborts or hangs; after an error the session keeps
//! answering and its catalog and settings are as before the failed statement.
//!
//! One case = one session in a fresh simulated world inside a supervised child
//! process: setup, probes, ONE hostile statement, the same probes again.
//! Families of hostile statements: token-level mutations of generated valid
//! statements, character soup, deep nesting and very long lists, ill-typed and
//! unsupported constructs (also under dead code with plan verification on),
//! statements failing at run time on some row in some partition, statements
//! failing by an injected I/O error.

use serde_json::json;

use crate::check::c17;
use crate::check::supervise::{CaseSource, Job};
use crate::rng::{Digest, Rng};
use crate::script::{Outcome, Scenario, Stmt, run_scenario};
use crate::sim::{Chooser, Policy, RunEnd, SimConfig};
use crate::simfs::{FsPlan, Gran, SimDisk};
use crate::sql::print;
use crate::sql::qgen::{Features, Gen, gen_tables, setup_sql};

pub struct C15Source;

const CASES_PER_JOB: usize = 160;

#[derive(Debug, Clone)]
pub struct Case {
    pub family: &'static str,
    pub setup: Vec<String>,
    pub hostile: String,
    pub disk: SimDisk,
    pub fs: FsPlan,
    pub policy: Policy,
}

const PROBES: &[&str] = &[
    "SELECT 41 + 1",
    "SHOW partitions",
    "SHOW batch_size",
    "SHOW enable_optimizer",
    "SHOW enable_hash_joins",
    "SHOW verify_optimized_plan",
    "SELECT schema_name, table_name FROM list_tables() WHERE database_name = 'temp'",
    "SELECT view_name FROM list_views() WHERE database_name = 'temp'",
    "SELECT schema_name FROM list_schemas() WHERE database_name = 'temp'",
    "SELECT count(*), sum(k) FROM base_t",
];

fn nest(depth: usize, open: &str, inner: &str, close: &str) -> String {
    let mut s = String::with_capacity(depth * (open.len() + close.len()) + inner.len());
    for _ in 0..depth {
        s.push_str(open);
    }
    s.push_str(inner);
    for _ in 0..depth {
        s.push_str(close);
    }
    s
}

fn tokens(sql: &str) -> Vec<String> {
    // crude lexer: words, numbers, quoted strings, single punctuation
    let cs: Vec<char> = sql.chars().collect();
    let mut out = Vec::new();
    let mut i = 0;
    while i < cs.len() {
        let c = cs[i];
        if c.is_whitespace() {
            i += 1;
        } else if c.is_alphanumeric() || c == '_' {
            let s = i;
            while i < cs.len() && (cs[i].is_alphanumeric() || cs[i] == '_' || cs[i] == '.') {
                i += 1;
            }
            out.push(cs[s..i].iter().collect());
        } else if c == '\'' || c == '"' {
            let s = i;
            i += 1;
            while i < cs.len() && cs[i] != c {
                i += 1;
            }
            i = (i + 1).min(cs.len());
            out.push(cs[s..i].iter().collect());
        } else {
            out.push(c.to_string());
            i += 1;
        }
    }
    out
}

const SOUP: &[&str] = &["SELECT", "FROM", "WHERE", "(", ")", ",", "*", "'", "\"", ";", "--", "/*", "*/", "NULL", "1e999", "-", "+", "=", "<>", "JOIN", "ON", "GROUP", "BY", "ORDER", "LIMIT", "UNION", "ALL", "AS", "CASE", "WHEN", "THEN", "END", "CAST", "INT", "::", ".", "[", "]", "{", "}", "\\", "\u{0}", "é", "東", "\u{202e}", "\u{feff}", "$1", "?", "0x", "t0", "base_t", "k", "x", "WITH", "RECURSIVE", "VALUES", "INSERT", "INTO", "CREATE", "TEMP", "TABLE", "DROP", "SET", "TO", "SHOW", "DESCRIBE", "EXPLAIN", "NOT", "IN", "EXISTS", "LATERAL", "9223372036854775808", "''", "\n", "\t"];

const ILL: &[&str] = &[
    "SELECT * FROM no_such_table",
    "SELECT no_such_col FROM base_t",
    "SELECT no_such_fn(k) FROM base_t",
    "SELECT abs() FROM base_t",
    "SELECT abs(k, k, k) FROM base_t",
    "SELECT 'a' + 1",
    "SELECT k FROM base_t INTERSECT SELECT k FROM base_t",
    "SELECT k FROM base_t EXCEPT SELECT k FROM base_t",
    "SELECT * FROM base_t a FULL JOIN base_t b ON a.k = b.k",
    "SELECT * FROM base_t a ANTI JOIN base_t b ON a.k = b.k",
    "INSERT INTO base_t (k) VALUES (1)",
    "DROP VIEW base_v",
    "CREATE TABLE persistent_t (a INT)",
    "SELECT row_number() OVER () FROM base_t",
    "UPDATE base_t SET k = 1",
    "DELETE FROM base_t",
    "WITH RECURSIVE r(x) AS (SELECT 1 UNION ALL SELECT x + 1 FROM r WHERE x < 3) SELECT * FROM r",
    "SELECT k FROM base_t UNION SELECT k FROM base_t ORDER BY 1",
    "SELECT sum(sum(k)) FROM base_t",
    "SELECT k FROM base_t GROUP BY s",
    "SELECT * FROM base_t WHERE sum(k) > 1",
    "SELECT (SELECT k, s FROM base_t)",
    "SELECT * FROM base_t LIMIT -1",
    "SELECT * FROM base_t LIMIT 'x'",
    "SELECT CAST(k AS NO_SUCH_TYPE) FROM base_t",
    "SELECT k FROM base_t ORDER BY 99",
    "SELECT * FROM generate_series(1)",
    "SELECT * FROM read_csv(42)",
    "SELECT * FROM read_parquet('no/such/file.parquet')",
    "SET no_such_setting TO 1",
    "SET partitions TO 'many'",
    "SET partitions TO 0",
    "SET partitions TO 100000",
    "SET batch_size TO 0",
    "SET batch_size TO -5",
    "SET batch_size TO 99999999",
    "RESET no_such_setting",
    "SHOW no_such_setting",
    "CREATE TEMP TABLE base_t (k INT)",
    "CREATE TEMP TABLE dup_cols (a INT, a INT)",
    "CREATE SCHEMA temp.base_s",
    "DROP TABLE no_such_table",
    "DROP SCHEMA no_such_schema",
    "CREATE TEMP VIEW base_v AS SELECT 1",
    "INSERT INTO base_t VALUES (1)",
    "INSERT INTO base_t VALUES (1, 'a', 2.0, 4)",
    "INSERT INTO base_v VALUES (1)",
    "DESCRIBE no_such_table",
    "EXPLAIN SELECT * FROM no_such_table",
    "SELECT 1 AS a, 2 AS a ORDER BY a",
    "SELECT * FROM base_t t1, base_t t1",
    "SELECT t9.k FROM base_t t1",
];

/// Constructs that only fail in one of the plans when wrapped in dead code.
const DEAD_WRAPS: &[&str] = &[
    "SELECT * FROM ({}) AS t WHERE 1 = 0",
    "SELECT * FROM ({}) AS t WHERE false",
    "SELECT * FROM ({}) AS t LIMIT 0",
    "SELECT 1 WHERE false AND EXISTS ({})",
    "SELECT CASE WHEN false THEN (SELECT count(*) FROM ({}) AS t) ELSE 0 END",
];

const RUNTIME: &[&str] = &[
    "SELECT CAST(s AS INT) FROM base_t",
    "SELECT k, CAST(s AS INT) FROM big_t JOIN base_t ON big_t.x = base_t.k",
    "SELECT * FROM generate_series(1, 10, 0)",
    "SELECT x / (x - x) FROM big_t",
    "SELECT x % (x - 7) FROM big_t",
    "SELECT 9223372036854775807 + x FROM big_t",
    "SELECT CAST(x * 100000000 AS INT) * 100000 FROM big_t",
    "SELECT sum(CAST(s AS INT)) FROM base_t GROUP BY k",
    "SELECT CAST(s AS INT) FROM base_t ORDER BY 1",
    "SELECT DISTINCT CAST(s AS DOUBLE) FROM base_t",
    "SELECT x, (SELECT CAST(s AS INT) FROM base_t WHERE k = x) FROM big_t",
    "CREATE TEMP TABLE fail_ctas AS SELECT x, CAST(CASE WHEN x = 777 THEN 'boom' ELSE '1' END AS INT) AS y FROM big_t",
    "INSERT INTO base_t SELECT x, CAST(CASE WHEN x > 900 THEN 'boom' ELSE 'ok' END AS TEXT), CAST(CASE WHEN x = 901 THEN 'z' ELSE '1' END AS DOUBLE) FROM big_t",
    "SELECT * FROM big_t a JOIN big_t b ON a.x = b.x WHERE CAST(CASE WHEN a.x = 1234 THEN 'q' ELSE '1' END AS INT) = 1",
    "SELECT CAST('1e400' AS DOUBLE), CAST('9999999999999999999999' AS BIGINT)",
    "SELECT CAST(1e30 AS DECIMAL(10,2))",
    "SELECT CAST('not a date' AS DATE)",
    "SELECT substring(s, -5, -2), lpad(s, -1, 'x'), repeat(s, -3) FROM base_t",
    "SELECT list_extract([1,2,3], 99), [1,2,3][0], [][1]",
];

fn gen_case(rng: &mut Rng) -> Case {
    let mut setup: Vec<String> = Vec::new();
    let partitions = *rng.pick(&[1u32, 2, 3, 4, 8]);
    setup.push(format!("SET partitions TO {partitions}"));
    setup.push(format!("SET batch_size TO {}", rng.pick(&[1u32, 3, 16, 2048, 8192])));
    setup.push(format!("SET enable_optimizer TO {}", rng.chance(3, 4)));
    setup.push(format!("SET enable_hash_joins TO {}", rng.chance(3, 4)));
    if rng.chance(1, 3) {
        setup.push("SET verify_optimized_plan TO true".into());
    }
    setup.push("CREATE TEMP TABLE base_t (k INT, s TEXT, d DOUBLE)".into());
    setup.push("INSERT INTO base_t VALUES (1, '10', 1.5), (2, 'x', NULL), (NULL, NULL, 2.5), (4, '40', -1.0)".into());
    setup.push("CREATE TEMP VIEW base_v AS SELECT k FROM base_t".into());
    setup.push("CREATE SCHEMA base_s".into());
    let big = *rng.pick(&[10u32, 1000, 5000]);
    setup.push(format!("CREATE TEMP TABLE big_t AS SELECT * FROM generate_series(1, {big}) g(x)"));
    // generated tables for the token-mutation family
    let tables = gen_tables(&mut rng.fork("tables"), 12);
    let mut disk = SimDisk::default();
    let mut fs = FsPlan { max_calls: 400_000, ..FsPlan::default() };
    let fam = rng.below(100);
    let (family, hostile): (&'static str, String) = if fam < 30 {
        setup.extend(setup_sql(&tables, 5));
        let mut g = Gen::new(rng.fork("q"), &tables, Features::swarm(&mut rng.fork("swarm")));
        g.max_product = 2000;
        let base = match rng.below(6) {
            0 => "CREATE TEMP TABLE m_t AS SELECT k, s FROM base_t WHERE k > 1".to_string(),
            1 => "INSERT INTO base_t SELECT x, 'y', 0.5 FROM big_t WHERE x < 5".to_string(),
            2 => "CREATE TEMP VIEW m_v AS SELECT k + 1 AS k1 FROM base_t".to_string(),
            _ => print::query(&g.gen_query()),
        };
        let mut t = tokens(&base);
        let nmut = 1 + rng.usize_below(3);
        for _ in 0..nmut {
            if t.is_empty() {
                break;
            }
            let i = rng.usize_below(t.len());
            match rng.below(8) {
                0 => {
                    t.remove(i);
                }
                1 => {
                    let x = t[i].clone();
                    t.insert(i, x);
                }
                2 => {
                    let j = rng.usize_below(t.len());
                    t.swap(i, j);
                }
                3 => t[i] = (*rng.pick(SOUP)).to_string(),
                4 => t.insert(i, (*rng.pick(&["(", ")", ",", "'", "\""])).to_string()),
                5 => t[i] = (*rng.pick(&["SELECT", "FROM", "NULL", "TABLE", "k", "base_t", "no_such", "1", "'s'", "*"])).to_string(),
                6 => t.truncate(i),
                _ => t[i] = format!("{}{}", t[i], rng.pick(&["x", "0", "'", "é", "."])),
            }
        }
        ("token-mutation", t.join(" "))
    } else if fam < 40 {
        let n = 1 + rng.usize_below(40);
        let mut s = String::new();
        for _ in 0..n {
            s.push_str(*rng.pick(SOUP));
            if rng.chance(2, 3) {
                s.push(' ');
            }
        }
        if rng.chance(1, 4) {
            // random code points
            for _ in 0..rng.usize_below(30) {
                if let Some(c) = char::from_u32(rng.below(0x11_0000) as u32) {
                    s.push(c);
                }
            }
        }
        ("soup", s)
    } else if fam < 58 {
        let depth = *rng.pick(&[10usize, 60, 150, 400, 1200, 4000, 20000]);
        // planning time is quadratic in the length of operator chains and in
        // nesting depth (seconds at 1200, minutes at 20000): slow but bounded,
        // so only the cheap shapes go to the largest sizes
        let chain = depth.min(600);
        let list = depth.min(4000);
        let s = match rng.below(14) {
            0 => format!("SELECT {}", nest(depth, "(", "1", ")")),
            1 => format!("SELECT {}1", "-".repeat(depth)),
            2 => format!("SELECT {} true", "NOT ".repeat(chain)),
            3 => format!("SELECT {}", nest(chain, "CASE WHEN true THEN ", "1", " END")),
            4 => nest(depth.min(4000), "SELECT * FROM (", "SELECT 1", ") t"),
            5 => format!("SELECT 1{}", " UNION ALL SELECT 1".repeat(depth.min(150))),
            6 => format!("SELECT 1 WHERE 1 = 1{}", " AND 1 = 1".repeat(chain)),
            7 => format!("SELECT k FROM base_t WHERE k IN ({})", (0..list).map(|i| i.to_string()).collect::<Vec<_>>().join(", ")),
            8 => format!("SELECT * FROM (VALUES {}) v(a)", (0..list).map(|i| format!("({i})")).collect::<Vec<_>>().join(", ")),
            9 => format!("SELECT {}", nest(chain, "abs(", "1", ")")),
            10 => format!("SELECT 1{}", " + 1".repeat(chain)),
            11 => format!("SELECT '{}'", "x".repeat(depth * 50)),
            12 => format!("SELECT {} FROM base_t", (0..depth.min(5000)).map(|i| format!("k AS c{i}")).collect::<Vec<_>>().join(", ")),
            _ => format!("SELECT 1 AS {}", "a".repeat(depth * 10)),
        };
        ("deep-or-long", s)
    } else if fam < 72 {
        let base = (*rng.pick(ILL)).to_string();
        if rng.chance(1, 3) && base.starts_with("SELECT") {
            let w = *rng.pick(DEAD_WRAPS);
            ("ill-typed-under-dead-code", w.replace("{}", &base))
        } else {
            ("ill-typed-or-unsupported", base)
        }
    } else if fam < 90 {
        ("runtime-failure", (*rng.pick(RUNTIME)).to_string())
    } else {
        // I/O failure: a CSV file on the simulated disk, an error injected at the k-th call
        let mut kinds = Vec::new();
        let spec = c17::gen_spec(&mut rng.fork("csv"), &mut kinds, 1);
        disk.put("d/a.csv", spec.render());
        fs.error_at = Some(rng.below(12));
        fs.gran = Gran::Fixed(64);
        fs.pending_16 = 4;
        let s = match rng.below(3) {
            0 => "SELECT * FROM read_csv('d/a.csv')".to_string(),
            1 => "CREATE TEMP TABLE from_csv AS SELECT * FROM read_csv('d/a.csv')".to_string(),
            _ => "SELECT count(*) FROM read_csv('d/*.csv')".to_string(),
        };
        ("io-failure", s)
    };
    Case { family, setup, hostile, disk, fs, policy: if rng.chance(1, 2) { Policy::Random } else { Policy::draw(rng) } }
}

pub fn case_for(seed: u64, thorough: bool, job: usize, case: usize) -> Case {
    let root = Rng::new(seed).fork(if thorough { "C15-thorough" } else { "C15" });
    let mut rng = root.fork_idx("job", job as u64).fork_idx("case", case as u64);
    gen_case(&mut rng)
}

pub fn scenario_of(c: &Case) -> (Scenario, usize) {
    let mut stmts: Vec<Stmt> = c.setup.iter().map(|s| Stmt::new(s.clone())).collect();
    stmts.extend(PROBES.iter().map(|p| Stmt::new(*p)));
    let hostile_idx = stmts.len();
    stmts.push(Stmt::new(c.hostile.clone()));
    stmts.extend(PROBES.iter().map(|p| Stmt::new(*p)));
    let mut sc = Scenario::single(stmts);
    sc.disk = c.disk.clone();
    sc.fs = c.fs.clone();
    sc.sim = SimConfig { policy: c.policy.clone(), noisy: false, max_steps: 1_500_000, default_partitions: 4, keep_events: 0 };
    sc.entropy = 11;
    // planning recursion gets the stack of an ordinary main thread
    sc.stack_mb = 8;
    (sc, hostile_idx)
}

fn outcome_key(o: &Outcome) -> String {
    match o {
        Outcome::Rows(t) => {
            let mut rows: Vec<String> = t.rows.iter().map(crate::value::render_row).collect();
            rows.sort();
            format!("rows:{}", rows.join(";"))
        }
        Outcome::Error { .. } => "error".into(),
        Outcome::Dropped { .. } => "dropped".into(),
        Outcome::Panic { msg } => format!("panic:{msg}"),
    }
}

pub fn run_case(c: &Case, case: usize) -> (String, String, u64) {
    let (sc, hi) = scenario_of(c);
    let rep = run_scenario(&sc, Chooser::generating(Rng::new(case as u64 + 17)), None);
    let short: String = c.hostile.chars().take(160).collect();
    let ctx = format!("[{}] {short}", c.family);
    match &rep.end {
        RunEnd::Completed => {}
        RunEnd::Panic { msg, .. } => return ("panic".into(), format!("panic in a pipeline task: {msg} ;; {ctx}"), 0),
        RunEnd::LostWakeup { .. } => return ("hang-lost-wakeup".into(), format!("statement hangs (no runnable task): {} ;; {ctx}", rep.parked_desc.join("; ")), 0),
        RunEnd::NoProgress => return ("hang-no-progress".into(), format!("step budget exhausted after {} steps ;; {ctx}", rep.stats.steps), 0),
    }
    if rep.fs_budget_exceeded {
        return ("hang-io-loop".into(), format!("I/O call budget exceeded ;; {ctx}"), 0);
    }
    let outs = &rep.outcomes[0];
    if outs.len() != sc.sessions[0].len() {
        return ("not-reached".into(), format!("script did not finish ;; {ctx}"), 0);
    }
    let np = PROBES.len();
    // the setup must work, otherwise the case says nothing (harness problem)
    for o in outs.iter().take(hi - np) {
        if let Outcome::Panic { msg } = &o.outcome {
            return ("panic".into(), format!("panic during setup: {msg}"), 0);
        }
    }
    let mut d = Digest::new();
    d.str(c.family);
    let h = &outs[hi].outcome;
    d.str(&outcome_key(h).chars().take(40).collect::<String>());
    if let Outcome::Panic { msg } = h {
        return ("panic".into(), format!("panic on the client side (parser / binder / planner / result pull): {msg} ;; {ctx}"), 0);
    }
    // the session must keep answering
    let post0 = &outs[hi + 1].outcome;
    if outcome_key(post0) != "rows:(42)" {
        return ("session-broken".into(), format!("SELECT 41 + 1 after the statement gave {} ;; {ctx}", outcome_key(post0)), 0);
    }
    for o in outs.iter().skip(hi + 1) {
        if let Outcome::Panic { msg } = &o.outcome {
            return ("panic".into(), format!("panic in a probe after the statement: {msg} ;; {ctx}"), 0);
        }
    }
    // after an error: catalog, contents and settings as before
    let errored = matches!(h, Outcome::Error { msg, .. } if !msg.starts_with("expected 1 statement result"));
    if errored {
        for p in 0..np {
            let before = outcome_key(&outs[hi - np + p].outcome);
            let after = outcome_key(&outs[hi + 1 + p].outcome);
            // `verify_optimized_plan` (a testing aid) compares the two plans'
            // rows in order, so an unordered multi-partition probe can fail
            // verification depending on the schedule: not comparable then
            let verif = |o: &Outcome| matches!(o, Outcome::Error { msg, .. } if msg.contains("Query verification failed"));
            if verif(&outs[hi - np + p].outcome) || verif(&outs[hi + 1 + p].outcome) {
                continue;
            }
            if before != after {
                let err = h.err().map(crate::check::expect::first_line).unwrap_or_default();
                return ("state-changed-after-error".into(), format!("{} was {before} before and {after} after the failed statement (error: {err}) ;; {ctx}", PROBES[p]), 0);
            }
        }
    }
    ("ok".into(), String::new(), d.0)
}

struct C15Job {
    seed: u64,
    thorough: bool,
    job: usize,
}

impl Job for C15Job {
    fn num_cases(&self) -> usize {
        CASES_PER_JOB
    }
    fn run_case(&self, case: usize) -> (String, String, u64) {
        run_case(&case_for(self.seed, self.thorough, self.job, case), case)
    }
    fn scenario(&self, case: usize) -> Scenario {
        scenario_of(&case_for(self.seed, self.thorough, self.job, case)).0
    }
    fn describe(&self, case: usize) -> String {
        let c = case_for(self.seed, self.thorough, self.job, case);
        format!("[{}] {}", c.family, c.hostile.chars().take(300).collect::<String>())
    }
    fn sample(&self, _total: Option<usize>) -> serde_json::Value {
        let c = case_for(self.seed, self.thorough, self.job, 0);
        let (sc, hi) = scenario_of(&c);
        json!({"job": self.job, "family": c.family, "hostile_statement": c.hostile.chars().take(300).collect::<String>(), "hostile_index": hi, "script": sc.sessions[0].iter().map(|s| s.sql.chars().take(120).collect::<String>()).collect::<Vec<_>>()})
    }
}

impl CaseSource for C15Source {
    fn name(&self) -> &'static str {
        "c15"
    }
    fn property(&self) -> &'static str {
        "C15"
    }
    fn level(&self) -> &'static str {
        "exploration"
    }
    fn exhaustive(&self) -> bool {
        false
    }
    fn rule(&self) -> String {
        "one case = one session in a fresh simulated world inside a supervised child process (RLIMIT_AS 6 GiB, 1.5M-step budget, 400k I/O-call budget, 40 s silence limit): random knobs (partitions 1-8, batch 1-8192, optimizer, hash joins, verify_optimized_plan), setup (tables, view, schema, a 10-5000 row table), 10 probes (SELECT, SHOW x5, list_tables/views/schemas, count+sum), ONE hostile statement, the 10 probes again. Families: token-level mutations of generated valid statements (30%), keyword/character soup incl. random code points (10%), deep nesting / long lists up to depth 20000 (18%), ill-typed or unsupported constructs, also wrapped in dead code (14%), statements failing at run time on some row in some partition (18%), statements failed by an injected I/O error (10%). Verdict: outcome class in {rows, error}; no panic, hang, dead or silent process; SELECT 41+1 still answers 42; after an error every probe equals its value before. Non-trivial = every case (each runs a hostile statement under a seeded schedule); distinct = distinct (family, outcome class + leading error text) digests per job.".into()
    }
    fn assumptions(&self) -> Vec<String> {
        vec!["statement texts reach the engine as &str, so arbitrary bytes are represented as arbitrary Unicode scalar values".into(), "families (i)-(iv) are input generation; the simulator contributes partial failure across partitions, injected I/O failure, bounded-time and process-survival supervision, and the before/after history check".into()]
    }
    fn num_jobs(&self, _seed: u64, thorough: bool) -> usize {
        if thorough { 3000 } else { 64 }
    }
    fn silence_limit_s(&self) -> u64 {
        150
    }
    fn job(&self, seed: u64, thorough: bool, idx: usize) -> Option<Box<dyn Job>> {
        Some(Box::new(C15Job { seed, thorough, job: idx }))
    }
}
