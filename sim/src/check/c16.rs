//! C16: no query makes the engine's unsafe code touch memory it does not own;
//! the engine's internal consistency assertions hold throughout.
//!
//! The workloads of the other checks (aggregates, joins, sorting, general
//! queries, DDL/DML histories, Parquet and CSV reads) run here as a memory-
//! safety monitor: in this build every engine `debug_assert!`, Rust's own
//! checks on raw-pointer dereferences (alignment, null), slice bounds and
//! integer overflow are live; the same command is then repeated on an
//! AddressSanitizer build (heap overflows, use after free, double free in the
//! hand-managed buffers) and on a small scale under Miri (uninitialised reads,
//! provenance). Only panics and process deaths count here; wrong rows belong
//! to the other properties.

use crate::campaign::{Check, Stats, Violation};
use crate::check::{c01, c10, c14, c17};
use crate::rng::Rng;
use crate::sql::eval::Dev;

pub struct MemCheck {
    parts: Vec<Box<dyn Check>>,
}

impl MemCheck {
    pub fn new() -> Self {
        let mut agg = c01::ModelCheck::new("C16", c01::Focus::Aggregates, Dev::default());
        agg.max_rows = 120;
        let mut sort = c01::ModelCheck::new("C16", c01::Focus::Sorting, Dev::default());
        sort.max_rows = 120;
        MemCheck {
            parts: vec![
                Box::new(agg),
                Box::new(c01::ModelCheck::new("C16", c01::Focus::Joins, Dev::default())),
                Box::new(sort),
                Box::new(c01::ModelCheck::new("C16", c01::Focus::General, Dev::default())),
                Box::new(c01::ModelCheck::new("C16", c01::Focus::Subqueries, Dev::default())),
                Box::new(c14::CatalogCheck { big: true }),
                Box::new(c10::PqCheck { property: "C16", mode: c10::PqMode::Read }),
                Box::new(c17::CsvCheck { property: "C16", mode: c17::CsvMode::Single }),
            ],
        }
    }
}

impl Check for MemCheck {
    fn run_one(&self, run: u64, rng: Rng, stats: &mut Stats) -> Vec<Violation> {
        let k = self.parts.len() as u64;
        let part = (run % k) as usize;
        stats.count(&format!("c16.workload.{}", ["aggregates", "joins", "sorting", "general", "subqueries", "ddl-dml-history", "parquet-read", "csv-read"][part]));
        let vs = self.parts[part].run_one(run / k, rng, stats);
        // only memory-safety classes: assertion failures / panics (process
        // deaths are caught by the supervisor)
        vs.into_iter()
            .filter(|v| v.class == "panic")
            .map(|mut v| {
                v.property = "C16".into();
                v
            })
            .collect()
    }

    fn shrink(&self, v: &Violation) -> Vec<Violation> {
        let mut out = Vec::new();
        for p in &self.parts {
            out.extend(p.shrink(v));
        }
        out
    }
}
