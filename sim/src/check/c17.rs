//! C17: CSV/TSV reads return the RFC-4180 records with inferred types,
//! independent of read-buffer boundaries, batch size and partition count.
//! Also serves C11(b): list / glob scans return the bag union of the files.
//!
//! The file is produced by the harness's own writer, parsed by the harness's
//! own RFC-4180 state machine (R-CSV) and read by the engine through SimFs
//! under seeded read granularities, `Pending` I/O, batch sizes and partitions.

use std::sync::Arc;

use serde_json::json;

use crate::campaign::{Check, Stats, Violation};
use crate::check::expect::eval_expect;
use crate::replay::{Expect, enc_rows, observe};
use crate::rng::Rng;
use crate::script::{Outcome, Scenario, Stmt, run_scenario};
use crate::sim::{Chooser, Policy, RunEnd, SimConfig};
use crate::simfs::{FsPlan, Gran, SimDisk};
use crate::value::{Row, Value};

pub const SAMPLE: usize = 4096;

pub const DIALECTS: [(u8, u8); 8] = [(b',', b'"'), (b'|', b'"'), (b';', b'"'), (b'\t', b'"'), (b',', b'\''), (b'|', b'\''), (b';', b'\''), (b'\t', b'\'')];

// ---------------------------------------------------------------------------
// R-CSV: RFC-4180 record/field splitter (with the usual lenient treatment of
// malformed quoting: a quote inside an unquoted field is literal; text after a
// closing quote continues the field).

#[derive(Debug, Clone, Default)]
pub struct Parsed {
    pub records: Vec<Vec<Vec<u8>>>,
    /// for each record: offset of the first byte after its first terminator
    /// byte (usize::MAX for a final record ended by EOF)
    pub complete_at: Vec<usize>,
}

pub fn rcsv_parse(bytes: &[u8], delim: u8, quote: u8) -> Parsed {
    #[derive(PartialEq)]
    enum St {
        RecordStart,
        FieldStart,
        Unquoted,
        Quoted,
        QuoteInQuoted,
    }
    let mut out = Parsed::default();
    let mut rec: Vec<Vec<u8>> = Vec::new();
    let mut field: Vec<u8> = Vec::new();
    let mut st = St::RecordStart;
    let mut i = 0;
    let n = bytes.len();
    let is_term = |c: u8| c == b'\n' || c == b'\r';
    while i < n {
        let c = bytes[i];
        match st {
            St::RecordStart => {
                if is_term(c) {
                    // blank line / second half of CRLF
                    i += 1;
                    continue;
                }
                st = St::FieldStart;
                continue;
            }
            St::FieldStart => {
                if c == quote {
                    st = St::Quoted;
                } else if c == delim {
                    rec.push(std::mem::take(&mut field));
                } else if is_term(c) {
                    rec.push(std::mem::take(&mut field));
                    out.records.push(std::mem::take(&mut rec));
                    out.complete_at.push(i + 1);
                    st = St::RecordStart;
                } else {
                    field.push(c);
                    st = St::Unquoted;
                }
            }
            St::Unquoted => {
                if c == delim {
                    rec.push(std::mem::take(&mut field));
                    st = St::FieldStart;
                } else if is_term(c) {
                    rec.push(std::mem::take(&mut field));
                    out.records.push(std::mem::take(&mut rec));
                    out.complete_at.push(i + 1);
                    st = St::RecordStart;
                } else {
                    field.push(c);
                }
            }
            St::Quoted => {
                if c == quote {
                    st = St::QuoteInQuoted;
                } else {
                    field.push(c);
                }
            }
            St::QuoteInQuoted => {
                if c == quote {
                    field.push(c);
                    st = St::Quoted;
                } else if c == delim {
                    rec.push(std::mem::take(&mut field));
                    st = St::FieldStart;
                } else if is_term(c) {
                    rec.push(std::mem::take(&mut field));
                    out.records.push(std::mem::take(&mut rec));
                    out.complete_at.push(i + 1);
                    st = St::RecordStart;
                } else {
                    field.push(c);
                    st = St::Unquoted;
                }
            }
        }
        i += 1;
    }
    if st != St::RecordStart {
        // final record without a line terminator
        rec.push(field);
        out.records.push(rec);
        out.complete_at.push(usize::MAX);
    }
    out
}

#[derive(Debug, Clone, Copy, PartialEq, Eq, PartialOrd, Ord)]
pub enum Ty {
    Boolean,
    Int64,
    Float64,
    Utf8,
}

impl Ty {
    pub fn name(&self) -> &'static str {
        match self {
            Ty::Boolean => "Boolean",
            Ty::Int64 => "Int64",
            Ty::Float64 => "Float64",
            Ty::Utf8 => "Utf8",
        }
    }
}

fn parse_bool(s: &str) -> Option<bool> {
    match s {
        "t" | "true" | "TRUE" | "T" => Some(true),
        "f" | "false" | "FALSE" | "F" => Some(false),
        _ => None,
    }
}

/// Does the text fit the type?
pub fn fits(t: Ty, s: &str) -> bool {
    match t {
        Ty::Boolean => parse_bool(s).is_some(),
        Ty::Int64 => s.parse::<i64>().is_ok(),
        Ty::Float64 => s.parse::<f64>().is_ok(),
        Ty::Utf8 => true,
    }
}

/// Narrowest type that fits every non-empty value.
pub fn narrowest<'a>(vals: impl Iterator<Item = &'a str>) -> Ty {
    let mut t = Ty::Boolean;
    for v in vals {
        if v.is_empty() {
            continue;
        }
        while !fits(t, v) {
            t = match t {
                Ty::Boolean => Ty::Int64,
                Ty::Int64 => Ty::Float64,
                _ => Ty::Utf8,
            };
        }
    }
    t
}

pub fn convert(t: Ty, s: &str) -> Option<Value> {
    if s.is_empty() {
        return Some(Value::Null);
    }
    match t {
        Ty::Boolean => parse_bool(s).map(Value::Bool),
        Ty::Int64 => s.parse::<i64>().ok().map(|i| Value::Int(i as i128)),
        Ty::Float64 => s.parse::<f64>().ok().map(Value::Float),
        Ty::Utf8 => Some(Value::Str(s.to_string())),
    }
}

/// What the reference model expects of `SELECT * FROM read_csv(file)`.
#[derive(Debug, Clone, PartialEq)]
pub enum ModelOutcome {
    Table { names: Vec<String>, types: Vec<Ty>, rows: Vec<Row> },
    Error(String),
}

/// Does the dialect qualify under the documented inference criteria (at least
/// two sampled records, at least two fields, same field count everywhere)?
fn qualifies(sample: &[u8], d: (u8, u8), whole_file: bool) -> Option<usize> {
    let p = rcsv_parse(sample, d.0, d.1);
    let complete: Vec<&Vec<Vec<u8>>> = p.records.iter().zip(p.complete_at.iter()).filter(|(_, c)| **c != usize::MAX || whole_file).map(|(r, _)| r).collect();
    if complete.len() < 2 {
        return None;
    }
    let n = complete[0].len();
    if n < 2 || complete.iter().any(|r| r.len() != n) {
        return None;
    }
    Some(n)
}

/// All outcomes the property admits for this file under dialect `d`:
/// ambiguity only arises from where exactly the sample ends and from an empty
/// field in the first record (see DESIGN, C17).
pub fn model_outcomes(bytes: &[u8], d: (u8, u8)) -> Vec<ModelOutcome> {
    let p = rcsv_parse(bytes, d.0, d.1);
    if p.records.is_empty() {
        return vec![ModelOutcome::Error("no records".into())];
    }
    let mut strs: Vec<Vec<String>> = Vec::with_capacity(p.records.len());
    for r in &p.records {
        let mut row = Vec::with_capacity(r.len());
        for f in r {
            match std::str::from_utf8(f) {
                Ok(s) => row.push(s.to_string()),
                Err(_) => return vec![ModelOutcome::Error("invalid utf8".into())],
            }
        }
        strs.push(row);
    }
    let whole = bytes.len() < SAMPLE;
    // number of records in the sample: a record counts once its terminator
    // lies inside the sample; exactly at the edge both readings are admitted
    let mut s_counts: Vec<usize> = Vec::new();
    if whole {
        s_counts.push(strs.len());
    } else {
        let strict = p.complete_at.iter().filter(|c| **c <= SAMPLE).count();
        let loose = p.complete_at.iter().filter(|c| **c < SAMPLE).count();
        s_counts.push(strict);
        if loose != strict {
            s_counts.push(loose);
        }
    }
    let ncols = strs[0].len();
    let mut outs = Vec::new();
    for s in s_counts {
        if s == 0 {
            outs.push(ModelOutcome::Error("no complete record in the sample".into()));
            continue;
        }
        let s = s.min(strs.len());
        // types from the sampled records after the first (which may be a header)
        let types: Vec<Ty> = (0..ncols).map(|c| narrowest(strs[1..s].iter().filter_map(|r| r.get(c).map(|x| x.as_str())))).collect();
        let first_fits: Vec<bool> = (0..ncols).map(|c| fits(types[c], &strs[0][c])).collect();
        let clear_header = (0..ncols).any(|c| !first_fits[c] && !strs[0][c].is_empty());
        let maybe_header = (0..ncols).any(|c| !first_fits[c]);
        let hs: Vec<bool> = if clear_header {
            vec![true]
        } else if maybe_header {
            vec![true, false]
        } else {
            vec![false]
        };
        for h in hs {
            let names: Vec<String> = if h { strs[0].clone() } else { (0..ncols).map(|i| format!("column{i}")).collect() };
            let mut rows = Vec::new();
            let mut err = None;
            for r in strs.iter().skip(h as usize) {
                if r.len() != ncols {
                    err = Some(format!("record with {} fields, expected {ncols}", r.len()));
                    break;
                }
                let mut row = Vec::with_capacity(ncols);
                for c in 0..ncols {
                    match convert(types[c], &r[c]) {
                        Some(v) => row.push(v),
                        None => {
                            err = Some(format!("'{}' does not fit {}", r[c], types[c].name()));
                            break;
                        }
                    }
                }
                if err.is_some() {
                    break;
                }
                rows.push(row);
            }
            let o = match err {
                Some(e) => ModelOutcome::Error(e),
                None => ModelOutcome::Table { names, types: types.clone(), rows },
            };
            if !outs.contains(&o) {
                outs.push(o);
            }
        }
    }
    outs
}

/// Candidate dialects: only the generating dialect when it is the unique
/// dialect satisfying the documented inference criteria on the sample; all
/// eight otherwise.
pub fn candidate_dialects(bytes: &[u8], generating: (u8, u8)) -> (Vec<(u8, u8)>, bool) {
    candidate_dialects_ext(bytes, generating, false)
}

/// `strict`: a file that parses identically under both quote characters only
/// counts as unambiguous when the generating quote is the documented
/// preference ('"'); needed when the dialect inferred from this file is
/// applied to other files.
pub fn candidate_dialects_ext(bytes: &[u8], generating: (u8, u8), strict: bool) -> (Vec<(u8, u8)>, bool) {
    let sample = &bytes[..bytes.len().min(SAMPLE)];
    let whole = bytes.len() < SAMPLE;
    let q: Vec<(u8, u8)> = DIALECTS.iter().copied().filter(|d| qualifies(sample, *d, whole).is_some()).collect();
    // the same delimiter with the other quote character parses a file without
    // quote characters identically; such twins are not a real ambiguity
    let distinct: Vec<(u8, u8)> = q.iter().copied().filter(|d| *d == generating || rcsv_parse(sample, d.0, d.1).records != rcsv_parse(sample, generating.0, generating.1).records).collect();
    if q.contains(&generating) && distinct.len() == 1 && (!strict || q.len() == 1 || generating.1 == b'"') {
        (vec![generating], true)
    } else {
        (DIALECTS.to_vec(), false)
    }
}

pub fn expectation(outs: &[ModelOutcome]) -> Expect {
    let mut members = Vec::new();
    for o in outs {
        members.push(match o {
            ModelOutcome::Error(_) => Expect::Failure,
            ModelOutcome::Table { types, rows, .. } => Expect::Rows { rows: enc_rows(rows), types: Some(types.iter().map(|t| t.name().to_string()).collect()), sorted_by: vec![], ordered_exact: false },
        });
    }
    members.dedup();
    if members.len() == 1 { members.pop().unwrap() } else { Expect::AllOf(members) }
}

pub fn describe_expectation(outs: &[ModelOutcome]) -> Expect {
    let mut members = Vec::new();
    for o in outs {
        let e = match o {
            ModelOutcome::Error(_) => Expect::Failure,
            ModelOutcome::Table { names, types, .. } => {
                let rows: Vec<Row> = names.iter().zip(types).map(|(n, t)| vec![Value::Str(n.clone()), Value::Str(t.name().to_string())]).collect();
                Expect::Rows { rows: enc_rows(&rows), types: None, sorted_by: vec![], ordered_exact: true }
            }
        };
        if !members.contains(&e) {
            members.push(e);
        }
    }
    // an error outcome of SELECT * caused by a late row does not make DESCRIBE fail
    if members.iter().any(|m| *m == Expect::Failure) {
        members.push(Expect::Success);
    }
    if members.len() == 1 { members.pop().unwrap() } else { Expect::AllOf(members) }
}

// ---------------------------------------------------------------------------
// Generator

#[derive(Debug, Clone, Copy, PartialEq)]
pub enum ColKind {
    Bool,
    Int,
    Float,
    Text,
    /// text whose values need quoting: embedded delimiter, quote, newline
    TextNasty,
    /// every value empty
    Empty,
    /// integers, with a float or text only late in the file (after the sample)
    LateWider,
}

#[derive(Debug, Clone)]
pub struct CsvSpec {
    pub delim: u8,
    pub quote: u8,
    pub crlf: bool,
    pub trailing_nl: bool,
    pub header: Option<Vec<String>>,
    pub rows: Vec<Vec<String>>,
    /// 0 = quote only where needed, 1 = also some other fields, 2 = every field
    pub quote_mode: u8,
    pub quote_salt: u64,
}

const WORDS: &[&str] = &["alpha", "Bravo", "charlie delta", "écho", "fox trot", "golf", "hôtel", "india", "Juliett", "kilo", "лима", "mike", "東京", "x", "yz", "a b c", "o'neil", "say \"hi\"", "semi;colon", "pipe|d", "com,ma", "tab\tbed"];

fn gen_value(kind: ColKind, rng: &mut Rng, spec_delim: u8, spec_quote: u8, cross: bool, row: usize, nrows: usize) -> String {
    if row == 0 && rng.chance(3, 4) {
        // the first data record carries a plain witness of the column's type
        match kind {
            ColKind::Bool => return "true".into(),
            ColKind::Int | ColKind::LateWider => return "12".into(),
            ColKind::Float => return "1.5".into(),
            ColKind::Text => return "word".into(),
            _ => {}
        }
    }
    match kind {
        ColKind::Bool => (*rng.pick(&["true", "false", "t", "f", "TRUE", "FALSE", "T", "F"])).to_string(),
        ColKind::Int => match rng.below(12) {
            0 => "0".into(),
            1 => i64::MAX.to_string(),
            2 => i64::MIN.to_string(),
            3 => format!("+{}", rng.below(1000)),
            4 => format!("00{}", rng.below(100)),
            _ => rng.range(-100000, 100000).to_string(),
        },
        ColKind::Float => match rng.below(12) {
            0 => "1e3".into(),
            1 => "-0.0".into(),
            2 => "inf".into(),
            3 => "NaN".into(),
            4 => rng.range(-50, 50).to_string(),
            5 => ".5".into(),
            _ => format!("{}.{}", rng.range(-999, 999), rng.below(1000)),
        },
        ColKind::Empty => String::new(),
        ColKind::LateWider => {
            if row + 1 == nrows || (row * 4 > nrows * 3 && rng.chance(1, 6)) {
                if rng.chance(1, 2) { "2.5".into() } else { "late".into() }
            } else {
                rng.range(-999, 999).to_string()
            }
        }
        ColKind::Text | ColKind::TextNasty => {
            let mut s = String::new();
            let parts = 1 + rng.usize_below(3);
            for p in 0..parts {
                if p > 0 {
                    s.push(' ');
                }
                let w = *rng.pick(WORDS);
                s.push_str(w);
            }
            if !cross {
                // keep other dialects' structural characters out of the file
                s = s.chars().filter(|c| !matches!(c, ',' | '|' | ';' | '\t' | '"' | '\'')).collect();
            }
            if kind == ColKind::TextNasty {
                match rng.below(6) {
                    0 => s.push(spec_delim as char),
                    1 => s.push(spec_quote as char),
                    2 => s.push('\n'),
                    3 => s.push_str("\r\n"),
                    4 => {
                        s.insert(0, spec_quote as char);
                        s.push(spec_quote as char);
                    }
                    _ => {
                        s.push(spec_delim as char);
                        s.push(spec_quote as char);
                        s.push('\n');
                        s.push(spec_quote as char);
                    }
                }
            }
            if rng.chance(1, 12) {
                // numeric looking text inside a text column
                s = rng.range(-50, 50).to_string();
            }
            if rng.chance(1, 10) {
                s = format!("{s}{}", "-long-value-beyond-the-inline-threshold");
            }
            s
        }
    }
}

pub fn gen_spec(rng: &mut Rng, kinds_out: &mut Vec<ColKind>, size_class: u32) -> CsvSpec {
    let (delim, quote) = *rng.pick(&DIALECTS);
    let ncols = 2 + rng.usize_below(5);
    let cross = rng.chance(1, 6);
    let nrows = match size_class {
        0 => *rng.pick(&[0usize, 1, 1, 2, 2, 3, 4, 5, 7, 8, 9, 16, 17, 33]),
        1 => *rng.pick(&[40usize, 64, 65, 100, 130, 200]),
        _ => *rng.pick(&[300usize, 450, 700, 1200]),
    };
    let null_16 = *rng.pick(&[0u64, 0, 1, 3, 8]);
    let mut kinds = Vec::new();
    for _ in 0..ncols {
        kinds.push(*rng.pick_weighted(&[(2, ColKind::Bool), (4, ColKind::Int), (3, ColKind::Float), (4, ColKind::Text), (3, ColKind::TextNasty), (1, ColKind::Empty), (if size_class == 2 { 1 } else { 0 }, ColKind::LateWider)]));
    }
    let mut rows = Vec::new();
    for r in 0..nrows {
        let mut row = Vec::new();
        for k in &kinds {
            // the first data record carries a witness of the column's type
            let v = if r > 0 && rng.chance(null_16, 16) { String::new() } else { gen_value(*k, rng, delim, quote, cross, r, nrows) };
            row.push(v);
        }
        rows.push(row);
    }
    let header = if rng.chance(2, 3) {
        let mut h = Vec::new();
        for i in 0..ncols {
            h.push(match rng.below(4) {
                0 => format!("c{i}"),
                1 => format!("Col {i}"),
                2 => format!("{}_{i}", rng.pick(WORDS).chars().filter(|c| c.is_alphanumeric()).collect::<String>()),
                _ => format!("h{i}x"),
            });
        }
        Some(h)
    } else {
        None
    };
    *kinds_out = kinds;
    CsvSpec { delim, quote, crlf: rng.chance(1, 3), trailing_nl: rng.chance(3, 4), header, rows, quote_mode: *rng.pick(&[0u8, 0, 1, 2]), quote_salt: rng.next_u64() }
}

impl CsvSpec {
    pub fn render(&self) -> Vec<u8> {
        let mut out = Vec::new();
        let mut salt = Rng::new(self.quote_salt);
        let nl: &[u8] = if self.crlf { b"\r\n" } else { b"\n" };
        let mut recs: Vec<&Vec<String>> = Vec::new();
        if let Some(h) = &self.header {
            recs.push(h);
        }
        recs.extend(self.rows.iter());
        let n = recs.len();
        for (ri, rec) in recs.iter().enumerate() {
            for (fi, f) in rec.iter().enumerate() {
                if fi > 0 {
                    out.push(self.delim);
                }
                let needs = f.bytes().any(|b| b == self.delim || b == self.quote || b == b'\n' || b == b'\r');
                let extra = match self.quote_mode {
                    0 => false,
                    1 => salt.chance(1, 4),
                    _ => true,
                };
                if needs || extra {
                    out.push(self.quote);
                    for b in f.bytes() {
                        if b == self.quote {
                            out.push(self.quote);
                        }
                        out.push(b);
                    }
                    out.push(self.quote);
                } else {
                    out.extend_from_slice(f.as_bytes());
                }
            }
            if ri + 1 < n || self.trailing_nl {
                out.extend_from_slice(nl);
            }
        }
        out
    }

    fn ext(&self) -> &'static str {
        if self.delim == b'\t' { "tsv" } else { "csv" }
    }
}

// ---------------------------------------------------------------------------
// The check

#[derive(Debug, Clone, Copy, PartialEq)]
pub enum CsvMode {
    /// C17: one file, model + differential over read/batch/partition settings
    Single,
    /// C11(b): several files with one schema through a list and through globs
    Multi,
}

pub struct CsvCheck {
    pub property: &'static str,
    pub mode: CsvMode,
}

#[derive(Debug, Clone)]
struct CsvAux {
    specs: Vec<(String, CsvSpec)>,
    /// statements of the scenario are rebuilt from this
    sets: Vec<String>,
    query: QueryKind,
}

#[derive(Debug, Clone, PartialEq)]
enum QueryKind {
    SelectStar,
    Describe,
    BarePath,
    List,
    Glob(String),
    FileCounts(String),
    /// projection (subset / reorder / repeat) and a simple predicate pushed
    /// towards the scan; `opt` = enable_optimizer
    Project { cols: Vec<usize>, pred: Option<(usize, Pred)>, names: Vec<String>, opt: bool },
}

#[derive(Debug, Clone, PartialEq)]
enum Pred {
    IsNull,
    NotNull,
    IntGt(i64),
    IsTrue,
    StrEq(String),
}

#[derive(Debug, Clone)]
struct ScanCfg {
    partitions: u32,
    batch: u32,
    fs: FsPlan,
    sim: SimConfig,
}

fn draw_scan_cfg(rng: &mut Rng, reference: bool, total_bytes: usize) -> ScanCfg {
    if reference {
        return ScanCfg { partitions: 1, batch: 2048, fs: FsPlan::default(), sim: SimConfig { policy: Policy::Canonical, noisy: false, max_steps: 3_000_000, default_partitions: 4, keep_events: 0 } };
    }
    let gran = match rng.below(10) {
        0 => Gran::Whole,
        1..=3 => Gran::Fixed(1 + rng.usize_below(9)),
        4 | 5 => Gran::Random(2 + rng.usize_below(40)),
        6 => Gran::Fixed(*rng.pick(&[4095usize, 4096, 4097, 1000])),
        7 => Gran::Random(5000),
        _ => Gran::Fixed(10 + rng.usize_below(200)),
    };
    // byte-sized reads of large files cost simulated steps without adding
    // boundary positions that small files do not already reach
    let gran = match gran {
        Gran::Fixed(k) if total_bytes > 3000 && k < 16 => Gran::Fixed(16 + k * 7),
        g => g,
    };
    let fs = FsPlan { gran, pending_16: *rng.pick(&[0u64, 0, 2, 6, 12]), shuffle_listing: rng.chance(1, 2), list_chunk: *rng.pick(&[usize::MAX, 1, 2, 3]), ..FsPlan::default() };
    let sim = SimConfig { policy: Policy::draw(rng), noisy: rng.chance(1, 5), max_steps: 3_000_000, default_partitions: 4, keep_events: 0 };
    ScanCfg { partitions: *rng.pick(&[1u32, 1, 2, 3, 4, 8]), batch: *rng.pick(&[1u32, 2, 3, 7, 16, 100, 2048, 8192]), fs, sim }
}

fn sets_of(c: &ScanCfg) -> Vec<String> {
    vec![format!("SET partitions TO {}", c.partitions), format!("SET batch_size TO {}", c.batch)]
}

fn query_sql(q: &QueryKind, specs: &[(String, CsvSpec)]) -> String {
    match q {
        QueryKind::SelectStar => format!("SELECT * FROM read_csv('{}')", specs[0].0),
        QueryKind::Describe => format!("DESCRIBE read_csv('{}')", specs[0].0),
        QueryKind::BarePath => format!("SELECT * FROM '{}'", specs[0].0),
        QueryKind::List => format!("SELECT * FROM read_csv([{}])", specs.iter().map(|s| format!("'{}'", s.0)).collect::<Vec<_>>().join(", ")),
        QueryKind::Glob(g) => format!("SELECT * FROM read_csv('{g}')"),
        QueryKind::FileCounts(g) => format!("SELECT _filename, count(*) FROM read_csv('{g}') GROUP BY _filename"),
        QueryKind::Project { cols, pred, names, .. } => {
            let qi = |i: usize| format!("\"{}\"", names[i].replace('"', "\"\""));
            let sel: Vec<String> = cols.iter().map(|c| qi(*c)).collect();
            let w = match pred {
                None => String::new(),
                Some((c, Pred::IsNull)) => format!(" WHERE {} IS NULL", qi(*c)),
                Some((c, Pred::NotNull)) => format!(" WHERE {} IS NOT NULL", qi(*c)),
                Some((c, Pred::IntGt(k))) => format!(" WHERE {} > {k}", qi(*c)),
                Some((c, Pred::IsTrue)) => format!(" WHERE {}", qi(*c)),
                Some((c, Pred::StrEq(v))) => format!(" WHERE {} = '{}'", qi(*c), v.replace('\'', "''")),
            };
            format!("SELECT {} FROM read_csv('{}'){w}", sel.join(", "), specs[0].0)
        }
    }
}

fn build_scenario(aux: &CsvAux, cfg_fs: &FsPlan, sim: &SimConfig, entropy: u64) -> (Scenario, usize) {
    let mut stmts: Vec<Stmt> = aux.sets.iter().map(|s| Stmt::new(s.clone())).collect();
    stmts.push(Stmt::new(query_sql(&aux.query, &aux.specs)));
    let idx = stmts.len() - 1;
    let mut sc = Scenario::single(stmts);
    let mut disk = SimDisk::default();
    for (p, s) in &aux.specs {
        disk.put(p, s.render());
    }
    sc.disk = disk;
    sc.fs = cfg_fs.clone();
    sc.sim = sim.clone();
    sc.entropy = entropy;
    (sc, idx)
}

/// Model expectation for `aux.query`.
fn model_for(aux: &CsvAux) -> Option<(Expect, bool)> {
    let first = &aux.specs[0].1;
    let bytes0 = first.render();
    let (cands, fixed) = candidate_dialects(&bytes0, (first.delim, first.quote));
    match &aux.query {
        QueryKind::SelectStar | QueryKind::BarePath | QueryKind::Describe => {
            let mut outs = Vec::new();
            for d in cands {
                for o in model_outcomes(&bytes0, d) {
                    if !outs.contains(&o) {
                        outs.push(o);
                    }
                }
            }
            if aux.query == QueryKind::Describe { Some((describe_expectation(&outs), fixed)) } else { Some((expectation(&outs), fixed)) }
        }
        QueryKind::Project { cols, pred, .. } => {
            if !fixed {
                return None;
            }
            let o0 = model_outcomes(&bytes0, (first.delim, first.quote));
            let (types, rows) = match o0.as_slice() {
                [ModelOutcome::Table { types, rows, .. }] => (types, rows),
                _ => return None,
            };
            if let QueryKind::Project { names, .. } = &aux.query {
                if names.len() != types.len() {
                    return None;
                }
            }
            if cols.iter().any(|c| *c >= types.len()) || pred.as_ref().map(|p| p.0 >= types.len()).unwrap_or(false) {
                return None;
            }
            let keep = |r: &Row| -> bool {
                match pred {
                    None => true,
                    Some((c, Pred::IsNull)) => r[*c].is_null(),
                    Some((c, Pred::NotNull)) => !r[*c].is_null(),
                    Some((c, Pred::IntGt(k))) => matches!(&r[*c], Value::Int(i) if *i > *k as i128),
                    Some((c, Pred::IsTrue)) => matches!(&r[*c], Value::Bool(true)),
                    Some((c, Pred::StrEq(v))) => matches!(&r[*c], Value::Str(s) if s == v),
                }
            };
            let out: Vec<Row> = rows.iter().filter(|r| keep(r)).map(|r| cols.iter().map(|c| r[*c].clone()).collect()).collect();
            let ty: Vec<String> = cols.iter().map(|c| types[*c].name().to_string()).collect();
            Some((Expect::Rows { rows: enc_rows(&out), types: Some(ty), sorted_by: vec![], ordered_exact: false }, true))
        }
        QueryKind::List | QueryKind::Glob(_) | QueryKind::FileCounts(_) => {
            // schema and dialect come from the first file (documented: all files
            // are expected to have the same schema); only generated when the
            // dialect is unambiguous
            if !fixed {
                return None;
            }
            let d = (first.delim, first.quote);
            let o0 = model_outcomes(&bytes0, d);
            if o0.len() != 1 {
                return None;
            }
            let (types, has_header) = match &o0[0] {
                ModelOutcome::Table { types, names, .. } => (types.clone(), names.first().map(|n| n != "column0").unwrap_or(false)),
                ModelOutcome::Error(_) => return None,
            };
            let matched: Vec<&(String, CsvSpec)> = match &aux.query {
                QueryKind::List => aux.specs.iter().collect(),
                QueryKind::Glob(g) | QueryKind::FileCounts(g) => aux.specs.iter().filter(|s| glob_match(g, &s.0)).collect(),
                _ => unreachable!(),
            };
            let mut rows: Vec<Row> = Vec::new();
            let mut counts: Vec<Row> = Vec::new();
            for (path, spec) in matched {
                let p = rcsv_parse(&spec.render(), d.0, d.1);
                let mut n = 0i128;
                for r in p.records.iter().skip(has_header as usize) {
                    if r.len() != types.len() {
                        return None;
                    }
                    let mut row = Vec::new();
                    for (c, f) in r.iter().enumerate() {
                        row.push(convert(types[c], std::str::from_utf8(f).ok()?)?);
                    }
                    rows.push(row);
                    n += 1;
                }
                if n > 0 {
                    counts.push(vec![Value::Str(path.clone()), Value::Int(n)]);
                }
            }
            let e = match &aux.query {
                QueryKind::FileCounts(_) => Expect::Rows { rows: enc_rows(&counts), types: None, sorted_by: vec![], ordered_exact: false },
                _ => Expect::Rows { rows: enc_rows(&rows), types: Some(types.iter().map(|t| t.name().to_string()).collect()), sorted_by: vec![], ordered_exact: false },
            };
            Some((e, true))
        }
    }
}

/// Minimal glob matcher for the patterns this check generates: `*` within a
/// segment, `**` for any number of directories.
pub fn glob_match(pat: &str, path: &str) -> bool {
    fn seg_match(p: &[u8], s: &[u8]) -> bool {
        if p.is_empty() {
            return s.is_empty();
        }
        if p[0] == b'*' {
            (0..=s.len()).any(|k| seg_match(&p[1..], &s[k..]))
        } else {
            !s.is_empty() && p[0] == s[0] && seg_match(&p[1..], &s[1..])
        }
    }
    fn rec(ps: &[&str], ss: &[&str]) -> bool {
        match ps.first() {
            None => ss.is_empty(),
            // one or more directories (the engine's reading; the check skips
            // cases where the zero-directory reading would differ)
            Some(&"**") => (1..=ss.len().saturating_sub(1)).any(|k| rec(&ps[1..], &ss[k..])),
            Some(p) => !ss.is_empty() && seg_match(p.as_bytes(), ss[0].as_bytes()) && rec(&ps[1..], &ss[1..]),
        }
    }
    let ps: Vec<&str> = pat.split('/').filter(|s| !s.is_empty()).collect();
    let ss: Vec<&str> = path.split('/').filter(|s| !s.is_empty()).collect();
    rec(&ps, &ss)
}

impl CsvCheck {
    fn violation(&self, aux: &CsvAux, cfg: &ScanCfg, entropy: u64, expect: Expect, rep: &crate::script::RunReport, sc: &Scenario, idx: usize, class: String, detail: String) -> Violation {
        let _ = cfg;
        let _ = entropy;
        Violation { property: self.property.into(), class, scenario: sc.clone(), choices: rep.choices.clone(), session: 0, stmt: idx, expect, observed: observe(rep, 0, idx), detail, trace: rep.trace, aux: Some(Arc::new(aux.clone())) }
    }
}

impl Check for CsvCheck {
    fn run_one(&self, run: u64, rng: Rng, stats: &mut Stats) -> Vec<Violation> {
        let mut out = Vec::new();
        let mut g = rng.fork("gen");
        let size_class = *g.pick_weighted(&[(6, 0u32), (3, 1), (1, 2)]);
        let mut kinds = Vec::new();
        let mut spec0 = gen_spec(&mut g, &mut kinds, size_class);
        if self.mode == CsvMode::Multi {
            // the first file must settle dialect and schema on its own
            for _ in 0..8 {
                let b = spec0.render();
                let d = (spec0.delim, spec0.quote);
                if candidate_dialects_ext(&b, d, true).1 && matches!(model_outcomes(&b, d).as_slice(), [ModelOutcome::Table { .. }]) {
                    break;
                }
                spec0 = gen_spec(&mut g, &mut kinds, size_class);
            }
        }
        let entropy = rng.fork("entropy").next_u64();
        let mut specs: Vec<(String, CsvSpec)> = Vec::new();
        let queries: Vec<QueryKind>;
        match self.mode {
            CsvMode::Single => {
                let path = format!("data/f{}.{}", run % 7, spec0.ext());
                specs.push((path, spec0.clone()));
                let mut qs = vec![QueryKind::SelectStar, QueryKind::Describe];
                if g.chance(1, 3) {
                    qs.push(QueryKind::BarePath);
                }
                queries = qs;
            }
            CsvMode::Multi => {
                // same dialect/header/kinds in every file; different rows
                let nfiles = 1 + g.usize_below(6);
                let dirs = ["d", "d/sub", "d/sub/deep", "e", "e/x", "e/x/y"];
                for i in 0..nfiles {
                    let mut s = spec0.clone();
                    if i > 0 {
                        let nrows = *g.pick(&[0usize, 1, 1, 2, 5, 9, 40]);
                        s.rows = (0..nrows).map(|r| kinds.iter().map(|k| gen_value(*k, &mut g, s.delim, s.quote, false, r, nrows + 1)).collect()).collect();
                        s.trailing_nl = g.chance(3, 4);
                    }
                    if s.quote == b'\'' && g.chance(3, 4) {
                        s.quote_mode = 2;
                    }
                    let dir = dirs[g.usize_below(if i == 0 { 1 } else { dirs.len() })];
                    specs.push((format!("{dir}/part{i}.{}", s.ext()), s));
                }
                // files with another extension must not be matched by the globs
                let ext = spec0.ext();
                let globs = [format!("d/*.{ext}"), format!("d/**/*.{ext}"), format!("e/**/*.{ext}"), format!("e/**/part*.{ext}"), format!("d/part*.{ext}"), format!("*/part*.{ext}"), format!("d/sub/*.{ext}"), format!("*/*/*.{ext}")];
                let mut gl = globs[g.usize_below(globs.len())].clone();
                for _ in 0..6 {
                    if specs.iter().any(|s| glob_match(&gl, &s.0)) {
                        break;
                    }
                    gl = globs[g.usize_below(globs.len())].clone();
                }
                let mut qs = vec![QueryKind::List, QueryKind::Glob(gl.clone()), QueryKind::FileCounts(gl)];
                // projection / predicate over the first file
                if let [ModelOutcome::Table { names, types, rows }] = model_outcomes(&specs[0].1.render(), (spec0.delim, spec0.quote)).as_slice() {
                    let n = names.len();
                    let distinct_names = names.iter().collect::<std::collections::BTreeSet<_>>().len() == n && names.iter().all(|x| !x.is_empty() && !x.contains('"'));
                    if distinct_names {
                        for _ in 0..2 {
                            let k = 1 + g.usize_below(n + 1);
                            let cols: Vec<usize> = (0..k).map(|_| g.usize_below(n)).collect();
                            let pc = g.usize_below(n);
                            let pred = match g.below(5) {
                                0 => None,
                                1 => Some((pc, Pred::IsNull)),
                                2 => Some((pc, Pred::NotNull)),
                                _ => match types[pc] {
                                    Ty::Int64 => Some((pc, Pred::IntGt(g.range(-1000, 1000)))),
                                    Ty::Boolean => Some((pc, Pred::IsTrue)),
                                    Ty::Utf8 => rows.get(g.usize_below(rows.len().max(1))).and_then(|r| if let Value::Str(s) = &r[pc] { if s.contains('\'') || s.contains('\\') { None } else { Some((pc, Pred::StrEq(s.clone()))) } } else { None }),
                                    _ => Some((pc, Pred::NotNull)),
                                },
                            };
                            qs.push(QueryKind::Project { cols, pred, names: names.clone(), opt: g.chance(2, 3) });
                        }
                    }
                }
                queries = qs;
            }
        }
        let total_bytes: usize = specs.iter().map(|s| s.1.render().len()).sum();
        stats.add("csv.bytes_generated", total_bytes as u64);
        if total_bytes > SAMPLE {
            stats.count("csv.files_larger_than_sample");
        }
        let nvar = 2 + rng.fork("nvar").usize_below(2);
        for (qi, q) in queries.iter().enumerate() {
            let aux0 = CsvAux { specs: specs.clone(), sets: vec![], query: q.clone() };
            let (expect, fixed) = match model_for(&aux0) {
                Some(x) => x,
                None => {
                    stats.count("csv.model_skipped");
                    continue;
                }
            };
            // a glob that matches nothing is an error by documentation ("expected at least one file")
            if let QueryKind::Glob(gl) | QueryKind::FileCounts(gl) = q {
                if !specs.iter().any(|s| glob_match(gl, &s.0)) {
                    stats.count("csv.glob_matches_nothing");
                    continue;
                }
                if gl.contains("**") && specs.iter().any(|s| !glob_match(gl, &s.0) && glob_match(&gl.replace("/**", ""), &s.0)) {
                    stats.count("csv.glob_doublestar_zero_dir_skipped");
                    continue;
                }
                // the engine infers the schema from the first *matched* file in
                // listing order, which is not specified: only compare when every
                // matched file yields the same schema as the first spec
                let d = (spec0.delim, spec0.quote);
                let schema0 = model_outcomes(&specs[0].1.render(), d);
                // ... and is by itself unambiguous about the dialect
                let same = specs.iter().filter(|s| glob_match(gl, &s.0)).all(|s| candidate_dialects_ext(&s.1.render(), d, true).1 && model_outcomes(&s.1.render(), d).len() == 1)
                    && specs.iter().filter(|s| glob_match(gl, &s.0)).all(|s| match (model_outcomes(&s.1.render(), d).first(), schema0.first()) {
                    (Some(ModelOutcome::Table { names: n1, types: t1, .. }), Some(ModelOutcome::Table { names: n0, types: t0, .. })) => n1 == n0 && t1 == t0,
                    _ => false,
                });
                if !same {
                    stats.count("csv.multi_schema_differs");
                    continue;
                }
            }
            if *q == QueryKind::List {
                let d = (spec0.delim, spec0.quote);
                if !candidate_dialects_ext(&specs[0].1.render(), d, true).1 {
                    stats.count("csv.multi_first_file_ambiguous");
                    continue;
                }
                let schema0 = model_outcomes(&specs[0].1.render(), d);
                let same = specs.iter().all(|s| match (model_outcomes(&s.1.render(), d).first(), schema0.first()) {
                    (Some(ModelOutcome::Table { names: n1, types: t1, .. }), Some(ModelOutcome::Table { names: n0, types: t0, .. })) => n1 == n0 && t1 == t0,
                    _ => false,
                });
                if !same {
                    stats.count("csv.multi_schema_differs");
                    continue;
                }
            }
            stats.count(if fixed { "csv.dialect_unambiguous" } else { "csv.dialect_ambiguous_existential" });
            let mut reference_rows: Option<(Vec<Row>, Vec<String>, Vec<String>)> = None;
            for vi in 0..=nvar {
                let cfg = draw_scan_cfg(&mut rng.fork_idx("cfg", (qi * 10 + vi) as u64), vi == 0, total_bytes);
                let mut aux = CsvAux { specs: specs.clone(), sets: sets_of(&cfg), query: q.clone() };
                if let QueryKind::Project { opt, .. } = q {
                    aux.sets.push(format!("SET enable_optimizer TO {opt}"));
                }
                let (sc, idx) = build_scenario(&aux, &cfg.fs, &cfg.sim, entropy);
                let rep = run_scenario(&sc, Chooser::generating(rng.fork_idx("sched", (qi * 10 + vi) as u64)), None);
                stats.world(&rep, (cfg.partitions as u64) << 40 ^ (cfg.batch as u64) << 8 ^ crate::rng::hash_str(&format!("{:?}{}", cfg.fs.gran, cfg.sim.policy.name())));
                if run < 2 && qi == 0 && vi == 1 {
                    stats.sample(json!({"run": run, "file": String::from_utf8_lossy(&specs[0].1.render()).chars().take(400).collect::<String>(), "delimiter": (spec0.delim as char).to_string(), "quote": (spec0.quote as char).to_string(),
                        "scan": format!("partitions={} batch={} gran={:?} pending/16={} policy={}", cfg.partitions, cfg.batch, cfg.fs.gran, cfg.fs.pending_16, cfg.sim.policy.name()),
                        "script": sc.sessions[0].iter().map(|s| s.sql.clone()).collect::<Vec<_>>(), "io": rep.io_stats}));
                }
                if rep.end != RunEnd::Completed {
                    let stmt = rep.in_flight[0];
                    let (class, detail) = eval_expect(&Expect::Completes, &rep, 0, stmt).unwrap();
                    stats.count(&format!("verdict.{class}"));
                    out.push(self.violation(&aux, &cfg, entropy, Expect::Completes, &rep, &sc, stmt, class, detail));
                    break;
                }
                match eval_expect(&expect, &rep, 0, idx) {
                    Some((class, detail)) => {
                        stats.count("verdict.violation");
                        out.push(self.violation(&aux, &cfg, entropy, expect.clone(), &rep, &sc, idx, class, format!("{detail} [vs R-CSV model]")));
                        break;
                    }
                    None => stats.count("verdict.match_model"),
                }
                // differential clause: every configuration returns what the
                // reference configuration returned
                if let Outcome::Rows(t) = &rep.outcomes[0][idx].outcome {
                    match &reference_rows {
                        None => reference_rows = Some((t.rows.clone(), t.names.clone(), t.types.clone())),
                        Some((rows, names, types)) => {
                            let e = Expect::Rows { rows: enc_rows(rows), types: Some(types.clone()), sorted_by: vec![], ordered_exact: false };
                            if let Some((class, detail)) = eval_expect(&e, &rep, 0, idx) {
                                stats.count("verdict.violation");
                                out.push(self.violation(&aux, &cfg, entropy, e, &rep, &sc, idx, class, format!("{detail} [vs reference configuration]")));
                                break;
                            }
                            if names != &t.names {
                                stats.count("verdict.violation");
                                out.push(self.violation(&aux, &cfg, entropy, Expect::Custom { check: "names".into(), data: serde_json::to_string(names).unwrap() }, &rep, &sc, idx, "names-mismatch".into(), format!("column names {:?} differ from the reference configuration's {:?}", t.names, names)));
                                break;
                            }
                            stats.count("verdict.match_reference");
                        }
                    }
                }
                // column names against the model (SELECT forms)
                if let (Outcome::Rows(t), true, QueryKind::SelectStar) = (&rep.outcomes[0][idx].outcome, fixed, q) {
                    let outs = model_outcomes(&specs[0].1.render(), (spec0.delim, spec0.quote));
                    let ok = outs.iter().any(|o| matches!(o, ModelOutcome::Table { names, .. } if names == &t.names));
                    if !ok {
                        stats.count("verdict.violation");
                        let want: Vec<Vec<String>> = outs.iter().filter_map(|o| if let ModelOutcome::Table { names, .. } = o { Some(names.clone()) } else { None }).collect();
                        out.push(self.violation(&aux, &cfg, entropy, Expect::Custom { check: "names_any".into(), data: serde_json::to_string(&want).unwrap() }, &rep, &sc, idx, "names-mismatch".into(), format!("column names {:?}, the model admits {:?}", t.names, want)));
                        break;
                    }
                }
            }
        }
        out
    }

    fn shrink(&self, v: &Violation) -> Vec<Violation> {
        let aux: CsvAux = match v.aux.as_ref().and_then(|a| a.downcast_ref::<CsvAux>()) {
            Some(a) => a.clone(),
            None => return vec![],
        };
        // content shrinking is only sound for expectations derived from the
        // model (the differential expectation belongs to one particular file)
        let model_based = v.detail.contains("[vs R-CSV model]") || matches!(v.expect, Expect::Completes);
        if !model_based {
            return vec![];
        }
        let mut out = Vec::new();
        let mut push = |a: CsvAux| {
            let e = if matches!(v.expect, Expect::Completes) {
                Some(Expect::Completes)
            } else {
                model_for(&a).map(|x| x.0)
            };
            if let Some(e) = e {
                let (sc, idx) = build_scenario(&a, &v.scenario.fs, &v.scenario.sim, v.scenario.entropy);
                let mut c = v.clone();
                c.scenario = sc;
                c.stmt = idx;
                c.expect = e;
                c.aux = Some(Arc::new(a));
                out.push(c);
            }
        };
        for fi in (1..aux.specs.len()).rev() {
            if aux.query == QueryKind::List || matches!(aux.query, QueryKind::Glob(_) | QueryKind::FileCounts(_)) {
                let mut a = aux.clone();
                a.specs.remove(fi);
                push(a);
            }
        }
        for fi in 0..aux.specs.len() {
            let n = aux.specs[fi].1.rows.len();
            if n > 1 {
                let mut a = aux.clone();
                a.specs[fi].1.rows.truncate(n / 2);
                push(a);
                let mut a = aux.clone();
                a.specs[fi].1.rows.drain(0..n / 2);
                push(a);
            }
            if n > 0 && n <= 12 {
                for r in 0..n {
                    let mut a = aux.clone();
                    a.specs[fi].1.rows.remove(r);
                    push(a);
                }
            }
            let nc = aux.specs[fi].1.rows.first().map(|r| r.len()).or(aux.specs[fi].1.header.as_ref().map(|h| h.len())).unwrap_or(0);
            if nc > 2 && aux.specs.len() == 1 {
                for c in 0..nc {
                    let mut a = aux.clone();
                    for r in a.specs[fi].1.rows.iter_mut() {
                        r.remove(c);
                    }
                    if let Some(h) = a.specs[fi].1.header.as_mut() {
                        h.remove(c);
                    }
                    push(a);
                }
            }
            if aux.specs[fi].1.quote_mode != 0 {
                let mut a = aux.clone();
                a.specs[fi].1.quote_mode = 0;
                push(a);
            }
            if aux.specs[fi].1.crlf {
                let mut a = aux.clone();
                a.specs[fi].1.crlf = false;
                push(a);
            }
        }
        for si in 0..aux.sets.len() {
            let mut a = aux.clone();
            a.sets.remove(si);
            push(a);
        }
        out
    }
}

#[cfg(test)]
mod tests {
    use super::*;

    #[test]
    fn rcsv_basic() {
        let p = rcsv_parse(b"a,b\r\n\"x,\"\"y\"\"\n\",2\n3,", b',', b'"');
        assert_eq!(p.records.len(), 3);
        assert_eq!(p.records[1][0], b"x,\"y\"\n".to_vec());
        assert_eq!(p.records[2], vec![b"3".to_vec(), b"".to_vec()]);
        assert_eq!(p.complete_at[2], usize::MAX);
    }

    #[test]
    fn glob() {
        assert!(glob_match("d/*.csv", "d/a.csv"));
        assert!(!glob_match("d/*.csv", "d/sub/a.csv"));
        assert!(glob_match("d/**/*.csv", "d/sub/deep/a.csv"));
        assert!(!glob_match("d/**/*.csv", "d/a.csv"));
    }
}
