//! C18: the announced schema (DESCRIBE and QueryResult.output_schema) is the
//! schema of the rows produced. Monitored on generated queries plus a widened
//! type palette (DECIMAL, DATE, TIMESTAMP, small/unsigned ints) in projections
//! that R-SQL does not interpret.

use serde_json::json;

use crate::campaign::{Check, Stats, Violation};
use crate::check::sqlcase::*;
use crate::replay::{Expect, observe};
use crate::rng::Rng;
use crate::script::{Outcome, Scenario, Stmt, run_scenario};
use crate::sim::{Chooser, RunEnd};
use crate::sql::print;
use crate::sql::qgen::{Features, Gen, gen_tables, setup_sql};

pub struct SchemaCheck;

const WIDE_EXPRS: &[&str] = &[
    "CAST(1.25 AS DECIMAL(10,3))",
    "CAST(1.25 AS DECIMAL(10,3)) + CAST(2.5 AS DECIMAL(6,1))",
    "CAST(7 AS DECIMAL(20,4)) * CAST(3 AS DECIMAL(5,2))",
    "1.5 + 2",
    "CAST('2024-02-29' AS DATE)",
    "CAST('2024-02-29 10:11:12' AS TIMESTAMP)",
    "CAST(3 AS SMALLINT)",
    "CAST(3 AS TINYINT) + CAST(4 AS SMALLINT)",
    "CAST(3 AS SMALLINT) + 1",
    "CAST(200 AS UINT8)",
    "CAST(200 AS UINT16) + CAST(1 AS UINT32)",
    "CAST(1 AS REAL)",
    "CAST(1 AS REAL) + CAST(1 AS DOUBLE)",
    "CAST(1 AS BIGINT) + CAST(1 AS REAL)",
    "round(CAST(1.256 AS DECIMAL(10,3)), 1)",
    "abs(-3)",
    "sum(CAST(1.5 AS DECIMAL(8,2)))",
    "avg(CAST(3 AS SMALLINT))",
    "min(CAST('2024-01-01' AS DATE))",
    "count(*)",
    "NULL",
    "CASE WHEN true THEN CAST(1 AS DECIMAL(6,2)) ELSE CAST(2 AS DECIMAL(6,2)) END",
];

/// Typed atoms for the combinatorial palette: (column name in `wt`, SQL type, literal form).
const ATOMS: &[(&str, &str, &str)] = &[
    ("c_ti", "TINYINT", "CAST(3 AS TINYINT)"),
    ("c_si", "SMALLINT", "CAST(3 AS SMALLINT)"),
    ("c_i", "INT", "4"),
    ("c_bi", "BIGINT", "CAST(5 AS BIGINT)"),
    ("c_u8", "UINT8", "CAST(200 AS UINT8)"),
    ("c_u16", "UINT16", "CAST(300 AS UINT16)"),
    ("c_u32", "UINT32", "CAST(7 AS UINT32)"),
    ("c_u64", "UINT64", "CAST(9 AS UINT64)"),
    ("c_r", "REAL", "CAST(1.5 AS REAL)"),
    ("c_d", "DOUBLE", "CAST(2.5 AS DOUBLE)"),
    ("c_dec103", "DECIMAL(10,3)", "CAST(1.25 AS DECIMAL(10,3))"),
    ("c_dec61", "DECIMAL(6,1)", "CAST(2.5 AS DECIMAL(6,1))"),
    ("c_dec93", "DECIMAL(9,3)", "CAST(7.125 AS DECIMAL(9,3))"),
    ("c_dec204", "DECIMAL(20,4)", "CAST(7 AS DECIMAL(20,4))"),
    ("c_dec50", "DECIMAL(5,0)", "CAST(12 AS DECIMAL(5,0))"),
    ("c_date", "DATE", "CAST('2024-02-29' AS DATE)"),
    ("c_ts", "TIMESTAMP", "CAST('2024-02-29 10:11:12' AS TIMESTAMP)"),
    ("c_t", "TEXT", "'abc'"),
    ("c_b", "BOOLEAN", "true"),
];

fn wt_setup() -> Vec<String> {
    let cols: Vec<String> = ATOMS.iter().map(|a| format!("{} {}", a.0, a.1)).collect();
    let vals: Vec<String> = ATOMS.iter().map(|a| a.2.to_string()).collect();
    vec![format!("CREATE TEMP TABLE wt ({})", cols.join(", ")), format!("INSERT INTO wt VALUES ({}), ({})", vals.join(", "), vals.join(", "))]
}

/// A random typed expression over the palette; `cols` = use columns of `wt`.
fn gen_wide(rng: &mut Rng, cols: bool, depth: u32) -> String {
    let atom = |rng: &mut Rng| -> String {
        let a = rng.pick(ATOMS);
        if cols { a.0.to_string() } else { a.2.to_string() }
    };
    if depth == 0 {
        return atom(rng);
    }
    match rng.below(10) {
        0..=4 => {
            let op = *rng.pick(&["+", "-", "*", "/", "%"]);
            format!("({} {op} {})", gen_wide(rng, cols, depth - 1), gen_wide(rng, cols, depth - 1))
        }
        5 => format!("{}({})", rng.pick(&["abs", "round", "ceil", "floor", "-"]), gen_wide(rng, cols, depth - 1)),
        6 => format!("CASE WHEN {} THEN {} ELSE {} END", if cols { "c_b" } else { "true" }, gen_wide(rng, cols, depth - 1), gen_wide(rng, cols, depth - 1)),
        7 => format!("coalesce({}, {})", gen_wide(rng, cols, depth - 1), gen_wide(rng, cols, depth - 1)),
        8 => format!("({} {} {})", gen_wide(rng, cols, depth - 1), rng.pick(&["=", "<", ">=", "<>"]), gen_wide(rng, cols, depth - 1)),
        _ => atom(rng),
    }
}

impl Check for SchemaCheck {
    fn run_one(&self, run: u64, rng: Rng, stats: &mut Stats) -> Vec<Violation> {
        let tables = gen_tables(&mut rng.fork("tables"), 20);
        let knobs = Knobs::draw(&mut rng.fork("knobs"), true);
        let sim = draw_sim(&mut rng.fork("sim"), false);
        let mut g = Gen::new(rng.fork("queries"), &tables, Features::swarm(&mut rng.fork("swarm")));
        g.max_product = 600;
        let mut stmts = knobs.set_stmts();
        stmts.extend(setup_sql(&tables, 5).into_iter().map(Stmt::new));
        stmts.extend(wt_setup().into_iter().map(Stmt::new));
        let nsetup = stmts.len();
        let mut sqls: Vec<String> = Vec::new();
        for _ in 0..5 {
            sqls.push(print::query(&g.gen_query()));
        }
        // widened palette: scalar items and aggregate items separately
        let mut wr = rng.fork("wide");
        for _ in 0..3 {
            let aggs = wr.chance(1, 3);
            let pool: Vec<&&str> = WIDE_EXPRS.iter().filter(|e| (e.contains("sum(") || e.contains("avg(") || e.contains("min(") || e.contains("count(")) == aggs).collect();
            let n = 1 + wr.usize_below(3);
            let items: Vec<String> = (0..n).map(|i| format!("{} AS w{i}", pool[wr.usize_below(pool.len())])).collect();
            let from = if tables[0].data.rows.is_empty() || wr.chance(1, 2) { String::new() } else { format!(" FROM {}", tables[0].name) };
            sqls.push(format!("SELECT {}{}", items.join(", "), from));
        }
        // combinatorial palette: operators / functions / CASE / coalesce over
        // every pair of numeric, decimal, temporal, text and boolean types,
        // as literals (constant folding) and as columns
        for _ in 0..6 {
            let cols = wr.chance(1, 2);
            let n = 1 + wr.usize_below(3);
            let items: Vec<String> = (0..n).map(|i| { let d = 1 + wr.below(2) as u32; format!("{} AS x{i}", gen_wide(&mut wr, cols, d)) }).collect();
            sqls.push(format!("SELECT {}{}", items.join(", "), if cols { " FROM wt" } else { "" }));
        }
        for _ in 0..2 {
            let agg = *wr.pick(&["sum", "avg", "min", "max", "count"]);
            let d = wr.below(2) as u32;
            sqls.push(format!("SELECT {agg}({}) AS a0 FROM wt", gen_wide(&mut wr, true, d)));
        }
        {
            let (a, b) = (wr.pick(ATOMS).2, wr.pick(ATOMS).2);
            sqls.push(format!("SELECT {a} AS u UNION ALL SELECT {b}"));
        }
        // UNION branches unify to one type
        sqls.push("SELECT CAST(1 AS INT) AS u UNION ALL SELECT CAST(2 AS BIGINT)".to_string());
        sqls.push("SELECT CAST(1 AS SMALLINT) AS u UNION ALL SELECT CAST(2.5 AS DOUBLE)".to_string());
        for t in &tables {
            sqls.push(format!("SELECT * FROM {}", t.name));
        }
        for q in &sqls {
            stmts.push(Stmt::new(format!("DESCRIBE {q}")));
            stmts.push(Stmt::new(q.clone()));
        }
        let mut sc = Scenario::single(stmts);
        sc.sim = sim.clone();
        sc.entropy = rng.fork("entropy").next_u64();
        let rep = run_scenario(&sc, Chooser::generating(rng.fork("sched")), None);
        stats.world(&rep, knobs.key());
        if run < 1 {
            stats.sample(json!({"run": run, "script": sc.sessions[0].iter().skip(nsetup).map(|s| s.sql.clone()).collect::<Vec<_>>()}));
        }
        let mut out = Vec::new();
        if rep.end != RunEnd::Completed {
            stats.count("verdict.bad_end_ignored_here");
            return out;
        }
        for (i, _q) in sqls.iter().enumerate() {
            let (di, qi) = (nsetup + 2 * i, nsetup + 2 * i + 1);
            let (d, r) = (&rep.outcomes[0][di].outcome, &rep.outcomes[0][qi].outcome);
            let mk = |stmt: usize, class: &str, detail: String, expect: Expect| {
                let mut sc2 = sc.clone();
                // keep setup + the DESCRIBE/query pair
                let keep: Vec<Stmt> = sc.sessions[0].iter().enumerate().filter(|(j, _)| *j < nsetup || *j == di || *j == qi).map(|(_, s)| s.clone()).collect();
                sc2.sessions[0] = keep;
                let stmt2 = if stmt == di { nsetup } else { nsetup + 1 };
                Violation { property: "C18".into(), class: class.into(), scenario: sc2, choices: rep.choices.clone(), session: 0, stmt: stmt2, expect, observed: observe(&rep, 0, stmt), detail, trace: rep.trace, aux: None }
            };
            match (d, r) {
                (Outcome::Rows(dt), Outcome::Rows(rt)) => {
                    if let Some(m) = &rt.type_mismatch {
                        stats.count("verdict.violation");
                        out.push(mk(qi, "schema-mismatch", m.clone(), Expect::SchemaConsistent));
                        continue;
                    }
                    // DESCRIBE rows: (column_name, datatype)
                    let described: Vec<(String, String)> = dt.rows.iter().map(|r| (r[0].render().trim_matches('\'').to_string(), r[1].render().trim_matches('\'').to_string())).collect();
                    let announced: Vec<(String, String)> = rt.names.iter().cloned().zip(rt.types.iter().cloned()).collect();
                    if described != announced {
                        stats.count("verdict.violation");
                        let detail = format!("DESCRIBE says {described:?}, the result announces {announced:?}");
                        out.push(mk(qi, "describe-mismatch", detail.clone(), Expect::Custom { check: "describe".into(), data: serde_json::to_string(&described).unwrap() }));
                        continue;
                    }
                    stats.count("verdict.match");
                }
                (Outcome::Error { .. }, Outcome::Error { .. }) | (Outcome::Panic { .. }, Outcome::Panic { .. }) => stats.count("verdict.both_fail"),
                (Outcome::Rows(_), Outcome::Error { msg, planned }) => {
                    // DESCRIBE binds but does not optimise / plan physically; a
                    // failure there says nothing about the announced schema
                    let _ = (msg, planned);
                    stats.count("verdict.query_fails_after_describe");
                }
                (Outcome::Error { msg, .. }, Outcome::Rows(_)) => {
                    if crate::check::expect::is_unsupported(msg) {
                        stats.count("verdict.rejected_unsupported");
                    } else {
                        stats.count("verdict.violation");
                        out.push(mk(di, "describe-fails-query-ok", format!("DESCRIBE fails: {}", crate::check::expect::first_line(msg)), Expect::Success));
                    }
                }
                _ => stats.count("verdict.other"),
            }
        }
        out
    }
}
