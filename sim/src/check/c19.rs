//! C19: malformed Parquet / CSV input fails cleanly (fault enumeration).
//!
//! For every generated (and every small repository) file: every truncation
//! length, every byte position x several replacement values, every metadata
//! lie the harness writer can tell x several values, and an injected I/O error
//! at every I/O call. Each case runs `SELECT *` (and the metadata functions
//! for Parquet) in a child worker process with an address-space limit; the
//! supervisor turns a dead or silent worker into a violation.
//!
//! Outcome class must be {rows, error}. Anything else - a panic in a pipeline
//! task or in the planner, a lost wake-up, an exhausted step or I/O-call
//! budget (endless zero-length reads), a dead process (abort, stack overflow,
//! failed huge allocation), a worker that stops reporting - is a violation.

use std::collections::BTreeMap;
use std::io::{BufRead, BufReader, Write};
use std::process::{Command, Stdio};
use std::sync::Mutex;
use std::sync::atomic::{AtomicUsize, Ordering};
use std::time::{Duration, Instant};

use serde_json::json;

use crate::campaign::{KnownFinding, load_known};
use crate::check::c17;
use crate::pq::{self, LieField};
use crate::replay::{Expect, ReplayFile, scenario_to_file, write_replay};
use crate::rng::{Digest, Rng};
use crate::script::{Outcome, Scenario, Stmt, run_scenario};
use crate::sim::{Chooser, Policy, RunEnd, SimConfig};
use crate::simfs::{FsPlan, Gran, SimDisk};

#[derive(Clone)]
pub enum Kind {
    Parquet(Option<pq::FileSpec>),
    Csv,
}

#[derive(Clone)]
pub struct BaseFile {
    pub name: String,
    pub path: String,
    pub bytes: Vec<u8>,
    pub kind: Kind,
}

const LIE_VALUES: &[i64] = &[-1, 0, 1, 7, 1 << 20, i32::MAX as i64, i64::MAX];

/// The deterministic list of base files for (seed, tier).
pub fn base_files(seed: u64, thorough: bool) -> Vec<BaseFile> {
    let mut out = Vec::new();
    let root = Rng::new(seed).fork("C19");
    let (npq, ncsv) = if thorough { (400, 200) } else { (26, 10) };
    for i in 0..npq {
        let mut g = root.fork_idx("pq", i as u64);
        // small files: every byte position is enumerated
        let mut spec = pq::gen_file(&mut g, 14, pq::ALL_TYPES);
        for c in spec.cols.iter_mut() {
            if c.page_rows > 16 {
                c.page_rows = *g.pick(&[2usize, 5, 100]);
            }
        }
        if spec.cols.len() > 3 {
            spec.cols.truncate(3);
            spec.data.truncate(3);
        }
        let (bytes, _) = pq::write_file(&spec);
        out.push(BaseFile { name: format!("gen-pq-{i}"), path: format!("m/f{i}.parquet"), bytes, kind: Kind::Parquet(Some(spec)) });
    }
    for i in 0..ncsv {
        let mut g = root.fork_idx("csv", i as u64);
        let mut kinds = Vec::new();
        let mut spec = c17::gen_spec(&mut g, &mut kinds, 0);
        if spec.rows.len() > 8 {
            spec.rows.truncate(8);
        }
        let bytes = spec.render();
        out.push(BaseFile { name: format!("gen-csv-{i}"), path: format!("m/f{i}.csv"), bytes, kind: Kind::Csv });
    }
    // the repository's own small Parquet files
    if let Ok(rd) = std::fs::read_dir("/repo/testdata/parquet") {
        let mut names: Vec<_> = rd.flatten().filter(|e| e.path().extension().map(|x| x == "parquet").unwrap_or(false)).map(|e| e.path()).collect();
        names.sort();
        for p in names {
            if let Ok(bytes) = std::fs::read(&p) {
                if bytes.len() <= 1200 {
                    let n = p.file_name().unwrap().to_string_lossy().to_string();
                    out.push(BaseFile { name: format!("repo-{n}"), path: format!("m/{n}"), bytes, kind: Kind::Parquet(None) });
                }
            }
        }
    }
    out
}

#[derive(Debug, Clone)]
pub enum Mutation {
    None,
    Truncate(usize),
    SetByte { pos: usize, val: u8 },
    Lie(LieField, i64),
    IoError(u64),
    /// short reads of n bytes together with Pending I/O (no content fault)
    Trickle(usize),
}

pub fn flip_values(b: u8, csv: bool) -> Vec<u8> {
    let mut v = vec![0x00, 0xff, b ^ 0x01, b ^ 0x80];
    if csv {
        v.push(b'"');
        v.push(b'\n');
    }
    v.sort();
    v.dedup();
    v.retain(|x| *x != b);
    v
}

/// All cases of one base file, in a fixed order. `io_calls` = number of I/O
/// calls of the clean run (for the I/O error family).
pub fn cases(f: &BaseFile, io_calls: u64) -> Vec<Mutation> {
    let mut out = vec![Mutation::None];
    let csv = matches!(f.kind, Kind::Csv);
    for l in 0..f.bytes.len() {
        out.push(Mutation::Truncate(l));
    }
    for (pos, b) in f.bytes.iter().enumerate() {
        for val in flip_values(*b, csv) {
            out.push(Mutation::SetByte { pos, val });
        }
    }
    if let Kind::Parquet(Some(_)) = f.kind {
        for l in pq::ALL_LIES {
            for v in LIE_VALUES {
                out.push(Mutation::Lie(*l, *v));
            }
        }
    }
    for k in 0..io_calls.min(400) {
        out.push(Mutation::IoError(k));
    }
    for n in [1usize, 2, 3, 7] {
        out.push(Mutation::Trickle(n));
    }
    out
}

pub fn apply(f: &BaseFile, m: &Mutation) -> (Vec<u8>, FsPlan) {
    let mut plan = FsPlan { max_calls: 300_000, ..FsPlan::default() };
    let bytes = match m {
        Mutation::None => f.bytes.clone(),
        Mutation::Truncate(l) => f.bytes[..*l].to_vec(),
        Mutation::SetByte { pos, val } => {
            let mut b = f.bytes.clone();
            b[*pos] = *val;
            b
        }
        Mutation::Lie(field, v) => match &f.kind {
            Kind::Parquet(Some(spec)) => {
                let mut s = spec.clone();
                s.lies = vec![(*field, *v)];
                pq::write_file(&s).0
            }
            _ => f.bytes.clone(),
        },
        Mutation::IoError(k) => {
            plan.error_at = Some(*k);
            f.bytes.clone()
        }
        Mutation::Trickle(n) => {
            plan.gran = Gran::Fixed(*n);
            plan.pending_16 = 5;
            f.bytes.clone()
        }
    };
    (bytes, plan)
}

pub fn scenario_for(f: &BaseFile, m: &Mutation, case: usize) -> Scenario {
    let (bytes, plan) = apply(f, m);
    let mut stmts = vec![Stmt::new(format!("SET partitions TO {}", 1 + case % 2)), Stmt::new(format!("SET batch_size TO {}", [2048, 1, 3, 16][case % 4]))];
    match f.kind {
        Kind::Parquet(_) => {
            stmts.push(Stmt::new(format!("SELECT * FROM read_parquet('{}')", f.path)));
            stmts.push(Stmt::new(format!("SELECT * FROM parquet.column_metadata('{}')", f.path)));
            stmts.push(Stmt::new(format!("SELECT * FROM parquet.rowgroup_metadata('{}')", f.path)));
        }
        Kind::Csv => {
            stmts.push(Stmt::new(format!("SELECT * FROM read_csv('{}')", f.path)));
        }
    }
    // liveness probe: the session must keep answering afterwards
    stmts.push(Stmt::new("SELECT 41 + 1"));
    let mut sc = Scenario::single(stmts);
    let mut disk = SimDisk::default();
    disk.put(&f.path, bytes);
    sc.disk = disk;
    sc.fs = plan;
    sc.sim = SimConfig { policy: if case % 3 == 0 { Policy::Random } else { Policy::Canonical }, noisy: false, max_steps: 400_000, default_partitions: 4, keep_events: 0 };
    sc.entropy = 7;
    sc
}

/// Run one case in this process. Returns (verdict class or "ok", detail,
/// outcome digest).
pub fn run_case(f: &BaseFile, m: &Mutation, case: usize) -> (String, String, u64) {
    let sc = scenario_for(f, m, case);
    let rep = run_scenario(&sc, Chooser::generating(Rng::new(case as u64)), None);
    let mut d = Digest::new();
    let nstmts = sc.sessions[0].len();
    match &rep.end {
        RunEnd::Completed => {}
        RunEnd::Panic { msg, .. } => return ("panic".into(), format!("panic in a pipeline task: {msg}"), 0),
        RunEnd::LostWakeup { .. } => return ("hang-lost-wakeup".into(), format!("query hangs (no runnable task): {}", rep.parked_desc.join("; ")), 0),
        RunEnd::NoProgress => return ("hang-no-progress".into(), format!("step budget exhausted after {} steps", rep.stats.steps), 0),
    }
    if rep.fs_budget_exceeded {
        return ("hang-io-loop".into(), "I/O call budget exceeded (endless read loop)".into(), 0);
    }
    for (i, o) in rep.outcomes[0].iter().enumerate() {
        match &o.outcome {
            Outcome::Panic { msg } => return ("panic".into(), format!("panic on the client side (planning / result pull): {msg}"), 0),
            Outcome::Rows(t) => {
                d.u64(t.rows.len() as u64);
                for r in t.rows.iter().take(50) {
                    d.str(&crate::value::render_row(r));
                }
                if i == nstmts - 1 && !(t.rows.len() == 1 && t.rows[0].first().map(|v| v.render() == "42").unwrap_or(false)) {
                    return ("session-broken".into(), "the probe statement after the scan returned wrong rows".into(), 0);
                }
            }
            Outcome::Error { msg, .. } => {
                d.str(&crate::check::expect::first_line(msg));
                if i == nstmts - 1 {
                    return ("session-broken".into(), format!("the probe statement after the scan failed: {msg}"), 0);
                }
            }
            Outcome::Dropped { .. } => {}
        }
    }
    if rep.outcomes[0].len() != nstmts {
        return ("not-reached".into(), "script did not finish".into(), 0);
    }
    ("ok".into(), String::new(), d.0)
}

pub fn signature(class: &str, detail: &str) -> String {
    // digits are noise (lengths, indexes); the panic location stays
    let (msg, loc) = match detail.rfind(" @ ") {
        Some(i) => (&detail[..i], &detail[i + 3..]),
        None => (detail, ""),
    };
    let norm: String = msg.chars().map(|c| if c.is_ascii_digit() { '#' } else { c }).collect();
    let mut norm2 = String::new();
    let mut prev = ' ';
    for c in norm.chars() {
        if !(c == '#' && prev == '#') {
            norm2.push(c);
        }
        prev = c;
    }
    let loc = loc.replace("/repo/crates/", "");
    format!("{class}|{}|{}", norm2.chars().take(110).collect::<String>(), loc)
}

// ---------------------------------------------------------------------------
// Worker (child process)

/// `glaresim c19-worker <seed> <tier> <file_idx> <from_case>`
pub fn worker_main(args: &[String]) -> i32 {
    let seed: u64 = args.first().and_then(|s| s.parse().ok()).unwrap_or(1);
    let thorough = args.get(1).map(|s| s == "thorough").unwrap_or(false);
    let file_idx: usize = args.get(2).and_then(|s| s.parse().ok()).unwrap_or(0);
    let from: usize = args.get(3).and_then(|s| s.parse().ok()).unwrap_or(0);
    let only: Option<usize> = args.get(4).and_then(|s| s.parse().ok());
    // allocation without bound must fail inside the worker, not take the box down
    unsafe {
        let lim = libc::rlimit { rlim_cur: 6 << 30, rlim_max: 6 << 30 };
        libc::setrlimit(libc::RLIMIT_AS, &lim);
    }
    let files = base_files(seed, thorough);
    let f = match files.get(file_idx) {
        Some(f) => f,
        None => return 2,
    };
    let out = std::io::stdout();
    // clean run first: its I/O call count sizes the I/O error family
    let clean = run_scenario(&scenario_for(f, &Mutation::None, 0), Chooser::generating(Rng::new(0)), None);
    let io_calls: u64 = clean.io_stats.iter().filter(|(k, _)| !k.starts_with("fault.") && !k.contains('.')).map(|(_, v)| *v).sum();
    let cs = cases(f, io_calls);
    {
        let mut o = out.lock();
        let _ = writeln!(o, "N {}", cs.len());
        let _ = o.flush();
    }
    for (i, m) in cs.iter().enumerate().skip(from) {
        if let Some(o) = only {
            if i != o {
                continue;
            }
        }
        {
            let mut o = out.lock();
            let _ = writeln!(o, "C {i}");
            let _ = o.flush();
        }
        let (class, detail, digest) = run_case(f, m, i);
        let mut o = out.lock();
        let _ = writeln!(o, "R {i} {class} {digest:016x} {}", detail.replace('\n', " "));
        let _ = o.flush();
    }
    let mut o = out.lock();
    let _ = writeln!(o, "E");
    let _ = o.flush();
    0
}

// ---------------------------------------------------------------------------
// Supervisor

#[derive(Debug, Clone)]
struct Finding {
    class: String,
    detail: String,
    file: usize,
    case: usize,
    count: u64,
}

fn matches_known<'a>(known: &'a [KnownFinding], class: &str, detail: &str) -> Option<&'a KnownFinding> {
    known.iter().find(|k| k.status == "open" && k.properties.iter().any(|p| p == "C19") && (k.class.is_empty() || k.class == class) && (!k.contains.is_empty() || !k.any_of.is_empty()) && k.contains.iter().all(|c| detail.contains(c.as_str())) && (k.any_of.is_empty() || k.any_of.iter().any(|c| detail.contains(c.as_str()))))
}

pub fn run(tier: &str) -> i32 {
    let start = Instant::now();
    let thorough = tier == "thorough";
    let seed: u64 = std::env::var("VERIF_SEED").ok().and_then(|s| s.parse().ok()).unwrap_or(1);
    let threads: usize = std::env::var("VERIF_THREADS").ok().and_then(|s| s.parse().ok()).unwrap_or(16);
    let root = std::env::var("VERIF_ROOT").unwrap_or_else(|_| "/verif".into());
    let files = base_files(seed, thorough);
    let nfiles = std::env::var("VERIF_RUNS").ok().and_then(|s| s.parse::<usize>().ok()).map(|n| n.min(files.len())).unwrap_or(files.len());
    let exe = std::env::current_exe().expect("current exe");
    let next = AtomicUsize::new(0);
    let findings: Mutex<BTreeMap<String, Finding>> = Mutex::new(BTreeMap::new());
    let totals: Mutex<(u64, u64, BTreeMap<String, u64>, std::collections::BTreeSet<u64>, Vec<serde_json::Value>)> = Mutex::new((0, 0, BTreeMap::new(), Default::default(), Vec::new()));
    let case_timeout = Duration::from_secs(40);

    std::thread::scope(|s| {
        for _ in 0..threads {
            s.spawn(|| {
                loop {
                    let fi = next.fetch_add(1, Ordering::Relaxed);
                    if fi >= nfiles {
                        break;
                    }
                    let mut from = 0usize;
                    let mut total_cases: Option<usize> = None;
                    let mut clean_digest: Option<u64> = None;
                    // restart the worker after every death until the file is done
                    loop {
                        let mut child = match Command::new(&exe).arg("c19-worker").arg(seed.to_string()).arg(tier).arg(fi.to_string()).arg(from.to_string()).stdout(Stdio::piped()).stderr(Stdio::null()).spawn() {
                            Ok(c) => c,
                            Err(e) => {
                                eprintln!("harness error: cannot spawn worker: {e}");
                                return;
                            }
                        };
                        let stdout = child.stdout.take().unwrap();
                        let (tx, rx) = std::sync::mpsc::channel::<String>();
                        let reader = std::thread::spawn(move || {
                            for line in BufReader::new(stdout).lines().map_while(Result::ok) {
                                if tx.send(line).is_err() {
                                    break;
                                }
                            }
                        });
                        let mut in_flight: Option<usize> = None;
                        let mut finished = false;
                        let mut timed_out = false;
                        loop {
                            match rx.recv_timeout(case_timeout) {
                                Ok(line) => {
                                    let mut it = line.splitn(5, ' ');
                                    match it.next() {
                                        Some("N") => total_cases = it.next().and_then(|x| x.parse().ok()),
                                        Some("C") => in_flight = it.next().and_then(|x| x.parse().ok()),
                                        Some("R") => {
                                            let case: usize = it.next().and_then(|x| x.parse().ok()).unwrap_or(0);
                                            let class = it.next().unwrap_or("").to_string();
                                            let digest = u64::from_str_radix(it.next().unwrap_or("0"), 16).unwrap_or(0);
                                            let detail = it.next().unwrap_or("").to_string();
                                            in_flight = None;
                                            from = case + 1;
                                            let mut t = totals.lock().unwrap();
                                            t.0 += 1;
                                            if case == 0 {
                                                clean_digest = Some(digest);
                                                if class != "ok" {
                                                    *t.2.entry("clean_file_not_ok".into()).or_insert(0) += 1;
                                                }
                                            }
                                            if class == "ok" {
                                                if Some(digest) != clean_digest {
                                                    let mut dd = Digest::new();
                                                    dd.u64(fi as u64);
                                                    dd.u64(digest);
                                                    t.3.insert(dd.0);
                                                }
                                                *t.2.entry("outcome.rows_or_error".into()).or_insert(0) += 1;
                                            } else {
                                                *t.2.entry(format!("outcome.{class}")).or_insert(0) += 1;
                                                drop(t);
                                                let sig = signature(&class, &detail);
                                                let mut fs = findings.lock().unwrap();
                                                let e = fs.entry(sig).or_insert(Finding { class, detail, file: fi, case, count: 0 });
                                                e.count += 1;
                                            }
                                        }
                                        Some("E") => {
                                            finished = true;
                                            break;
                                        }
                                        _ => {}
                                    }
                                }
                                Err(std::sync::mpsc::RecvTimeoutError::Timeout) => {
                                    timed_out = true;
                                    let _ = child.kill();
                                    break;
                                }
                                Err(std::sync::mpsc::RecvTimeoutError::Disconnected) => break,
                            }
                        }
                        let status = child.wait().ok();
                        let _ = reader.join();
                        if finished {
                            break;
                        }
                        // the worker died or went silent
                        let case = in_flight.unwrap_or(from);
                        let (class, detail) = if timed_out {
                            ("hang-cpu".to_string(), format!("worker silent for {}s while running the case (endless loop without I/O)", case_timeout.as_secs()))
                        } else {
                            use std::os::unix::process::ExitStatusExt;
                            let sig = status.and_then(|s| s.signal());
                            ("process-died".to_string(), format!("worker process died (signal {sig:?}, status {status:?}): abort, stack overflow or failed allocation"))
                        };
                        {
                            let mut t = totals.lock().unwrap();
                            t.0 += 1;
                            *t.2.entry(format!("outcome.{class}")).or_insert(0) += 1;
                        }
                        let sig = signature(&class, &format!("{detail} file={}", files[fi].name));
                        let mut fs = findings.lock().unwrap();
                        let e = fs.entry(sig).or_insert(Finding { class, detail, file: fi, case, count: 0 });
                        e.count += 1;
                        drop(fs);
                        from = case + 1;
                        if let Some(n) = total_cases {
                            if from >= n {
                                break;
                            }
                        } else {
                            // died before announcing its cases: give up on this file
                            break;
                        }
                    }
                    let mut t = totals.lock().unwrap();
                    t.1 += 1;
                    if t.4.len() < 3 {
                        t.4.push(json!({"file": files[fi].name, "bytes": files[fi].bytes.len(), "cases": total_cases, "first_mutations": ["clean", "truncate to 0", "truncate to 1", "..."], "kind": match files[fi].kind { Kind::Csv => "csv", Kind::Parquet(Some(_)) => "parquet (harness writer)", Kind::Parquet(None) => "parquet (repository testdata)" }}));
                    }
                }
            });
        }
    });

    let known = load_known(&format!("{root}/known_findings.json"));
    let findings = findings.into_inner().unwrap();
    let (cases_run, files_done, counters, distinct, samples) = totals.into_inner().unwrap();
    let mut violations = 0u64;
    let mut known_hits = 0u64;
    let replay_dir = std::env::var("VERIF_REPLAY_DIR").unwrap_or_else(|_| format!("{root}/replays"));
    let mut known_lines: std::collections::BTreeSet<String> = Default::default();
    let mut reported = 0usize;
    let max_report: usize = std::env::var("VERIF_MAX_REPORT").ok().and_then(|s| s.parse().ok()).unwrap_or(8);
    for (sig, f) in &findings {
        if let Some(k) = matches_known(&known, &f.class, &f.detail) {
            known_hits += f.count;
            known_lines.insert(format!("KNOWN-FINDING: property=C19 {} [{}]", k.what, k.id));
            continue;
        }
        violations += 1;
        if reported >= max_report {
            continue;
        }
        reported += 1;
        // replay file: the mutated file and the script, self-contained
        let base = &files[f.file];
        let worker_cases = {
            let clean = run_scenario(&scenario_for(base, &Mutation::None, 0), Chooser::generating(Rng::new(0)), None);
            let io_calls: u64 = clean.io_stats.iter().filter(|(k, _)| !k.starts_with("fault.") && !k.contains('.')).map(|(_, v)| *v).sum();
            cases(base, io_calls)
        };
        let m = worker_cases.get(f.case).cloned().unwrap_or(Mutation::None);
        let sc = scenario_for(base, &m, f.case);
        let file = ReplayFile {
            format: 1,
            property: "C19".into(),
            class: f.class.clone(),
            layer: "L1-child".into(),
            seed,
            run: (f.file * 1_000_000 + f.case) as u64,
            tier: tier.to_string(),
            scenario: scenario_to_file(&sc),
            choices: vec![],
            session: 0,
            stmt: 2,
            expect: Expect::Completes,
            observed: format!("{} x{} ({:?} on {})", sig, f.count, m, base.name),
            detail: f.detail.clone(),
            trace_digest: String::new(),
        };
        let path = write_replay(&replay_dir, &file).unwrap_or_else(|e| format!("<write failed: {e}>"));
        println!("VIOLATION property=C19 replay={path}");
        println!("  class={} count={} file={} case={} mutation={:?}", f.class, f.count, base.name, f.case, m);
        println!("  {}", f.detail.chars().take(400).collect::<String>());
    }
    for l in &known_lines {
        println!("{l}");
    }
    let wall = start.elapsed().as_secs_f64();
    let nontrivial = distinct.len() as u64 + findings.len() as u64;
    let ev = json!({
        "property_id": "C19", "tier": if thorough { "thorough" } else { "quick" }, "seed": seed, "level": "fault_enumeration",
        "coverage": {
            "evaluations": cases_run, "distinct_nontrivial": nontrivial,
            "rule": "per base file (harness-written Parquet files <= 14 rows x <= 3 columns over all types/encodings/codecs/page versions, generated CSV files, the repository's small Parquet test files): the clean file, EVERY truncation length, EVERY byte position x {0x00, 0xFF, b^0x01, b^0x80 (+ quote, newline for CSV)}, every metadata lie of the harness writer (30 fields: counts, sizes, offsets, type/codec/encoding ids, level lengths, dictionary size and bit width, delta-binary-packed header, footer length) x {-1, 0, 1, 7, 2^20, 2^31-1, 2^63-1}, an injected I/O error at every I/O call, and 1/2/3/7-byte trickle reads with Pending I/O. Each case = SELECT * (+ column_metadata, rowgroup_metadata for Parquet) + a probe statement, in a child process with RLIMIT_AS 6 GiB, step budget 400k, I/O-call budget 300k, 40 s silence limit. Non-trivial = the outcome (rows digest or error text) differs from the clean file's outcome, or the case is a violation; distinct = distinct (file, outcome digest).",
            "samples": samples, "exhaustive": true,
            "files": files_done, "outcomes": counters, "distinct_violation_signatures": findings.len(), "known_findings_hit": known_hits,
            "runs_per_hour": (cases_run as f64 / wall.max(1e-9) * 3600.0) as u64,
            "faults_injected": {"truncation": "every length", "byte_set": "every position x 4-6 values", "metadata_lie": "30 fields x 7 values (harness-written files)", "io_error": "every I/O call", "trickle_read_pending": "4 granularities"},
            "components_real": ["glaredb_parser", "glaredb_core", "glaredb_ext_csv", "glaredb_ext_parquet"],
            "components_stub": ["thread pool (L1 SimRuntime)", "filesystems (SimFs)", "wall clock"],
        },
        "assumptions": ["exhaustive per file for the truncation and single-byte families; the set of base files is sampled", "a violation signature = class + message with digits masked + panic location; one replay file per signature"],
        "wall_s": wall, "violations": violations,
    });
    let evp = std::env::var("VERIF_EVIDENCE").unwrap_or_else(|_| format!("{root}/evidence/C19.json"));
    if let Err(e) = std::fs::write(&evp, serde_json::to_string_pretty(&ev).unwrap()) {
        eprintln!("harness error: cannot write evidence: {e}");
        return 2;
    }
    println!("C19 {tier}: files={files_done} cases={cases_run} distinct_nontrivial={nontrivial} violation_signatures={violations} known={known_hits} wall={wall:.1}s");
    if files_done < nfiles as u64 {
        println!("harness error: only {files_done} of {nfiles} files were completed");
        return 2;
    }
    if violations > 0 { 1 } else { 0 }
}

/// Replay of a C19 file: run the recorded scenario in a child process so that
/// a crash is observed rather than suffered.
pub fn replay_child(path: &str) -> i32 {
    let r = match crate::replay::read_replay(path) {
        Ok(r) => r,
        Err(e) => {
            eprintln!("harness error: {e}");
            return 2;
        }
    };
    unsafe {
        let lim = libc::rlimit { rlim_cur: 6 << 30, rlim_max: 6 << 30 };
        libc::setrlimit(libc::RLIMIT_AS, &lim);
    }
    let sc = crate::replay::scenario_from_file(&r.scenario);
    let rep = run_scenario(&sc, Chooser::generating(Rng::new((r.run % 1_000_000) as u64)), None);
    let bad = match &rep.end {
        RunEnd::Completed => rep.fs_budget_exceeded || rep.outcomes[0].iter().any(|o| matches!(o.outcome, Outcome::Panic { .. })),
        _ => true,
    };
    println!("child: end={:?} outcomes={:?}", rep.end, rep.outcomes[0].iter().map(|o| match &o.outcome { Outcome::Rows(t) => format!("rows:{}", t.rows.len()), Outcome::Error { msg, .. } => format!("error:{}", crate::check::expect::first_line(msg)), Outcome::Panic { msg } => format!("PANIC:{msg}"), Outcome::Dropped { .. } => "dropped".into() }).collect::<Vec<_>>());
    if bad { 1 } else { 0 }
}

pub fn replay(path: &str) -> i32 {
    let exe = std::env::current_exe().expect("exe");
    let mut child = match Command::new(exe).arg("c19-replay-child").arg(path).stdout(Stdio::inherit()).stderr(Stdio::null()).spawn() {
        Ok(c) => c,
        Err(e) => {
            eprintln!("harness error: {e}");
            return 2;
        }
    };
    let startt = Instant::now();
    loop {
        match child.try_wait() {
            Ok(Some(st)) => {
                if st.success() {
                    println!("replay of {path}: the recorded violation did not reproduce");
                    return 0;
                }
                println!("VIOLATION property=C19 replay={path}");
                println!("  child status: {st:?}");
                return 1;
            }
            Ok(None) => {
                if startt.elapsed() > Duration::from_secs(60) {
                    let _ = child.kill();
                    println!("VIOLATION property=C19 replay={path}");
                    println!("  child silent for 60 s (hang)");
                    return 1;
                }
                std::thread::sleep(Duration::from_millis(50));
            }
            Err(e) => {
                eprintln!("harness error: {e}");
                return 2;
            }
        }
    }
}
