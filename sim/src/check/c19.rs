//! C19: malformed Parquet / CSV input fails cleanly (fault enumeration).
//!
//! For every generated (and every small repository) file: every truncation
//! length, every byte position x several replacement values, every metadata
//! lie the harness writer can tell x several values, and an injected I/O error
//! at every I/O call. Each case runs `SELECT *` (and the metadata functions
//! for Parquet) in a child worker process with an address-space limit; the
//! supervisor turns a dead or silent worker into a violation.
//!
//! Outcome class must be {rows, error}. Anything else - a panic in a pipeline
//! task or in the planner, a lost wake-up, an exhausted step or I/O-call
//! budget (endless zero-length reads), a dead process (abort, stack overflow,
//! failed huge allocation), a worker that stops reporting - is a violation.

use serde_json::json;

use crate::check::c17;
use crate::check::supervise::{CaseSource, Job};
use crate::pq::{self, LieField};
use crate::rng::{Digest, Rng};
use crate::script::{Outcome, Scenario, Stmt, run_scenario};
use crate::sim::{Chooser, Policy, RunEnd, SimConfig};
use crate::simfs::{FsPlan, Gran, SimDisk};

#[derive(Clone)]
pub enum Kind {
    Parquet(Option<pq::FileSpec>),
    Csv,
}

#[derive(Clone)]
pub struct BaseFile {
    pub name: String,
    pub path: String,
    pub bytes: Vec<u8>,
    pub kind: Kind,
}

const LIE_VALUES: &[i64] = &[-1, 0, 1, 7, 1 << 20, i32::MAX as i64, i64::MAX];

/// The deterministic list of base files for (seed, tier).
pub fn base_files(seed: u64, thorough: bool) -> Vec<BaseFile> {
    let mut out = Vec::new();
    let root = Rng::new(seed).fork("C19");
    let (npq, ncsv) = if thorough { (400, 200) } else { (26, 10) };
    for i in 0..npq {
        let mut g = root.fork_idx("pq", i as u64);
        // small files: every byte position is enumerated
        let mut spec = pq::gen_file(&mut g, 14, pq::ALL_TYPES);
        for c in spec.cols.iter_mut() {
            if c.page_rows > 16 {
                c.page_rows = *g.pick(&[2usize, 5, 100]);
            }
        }
        if spec.cols.len() > 3 {
            spec.cols.truncate(3);
            spec.data.truncate(3);
        }
        let (bytes, _) = pq::write_file(&spec);
        out.push(BaseFile { name: format!("gen-pq-{i}"), path: format!("m/f{i}.parquet"), bytes, kind: Kind::Parquet(Some(spec)) });
    }
    for i in 0..ncsv {
        let mut g = root.fork_idx("csv", i as u64);
        let mut kinds = Vec::new();
        let mut spec = c17::gen_spec(&mut g, &mut kinds, 0);
        if spec.rows.len() > 8 {
            spec.rows.truncate(8);
        }
        let bytes = spec.render();
        out.push(BaseFile { name: format!("gen-csv-{i}"), path: format!("m/f{i}.csv"), bytes, kind: Kind::Csv });
    }
    // the repository's own small Parquet files
    if let Ok(rd) = std::fs::read_dir("/repo/testdata/parquet") {
        let mut names: Vec<_> = rd.flatten().filter(|e| e.path().extension().map(|x| x == "parquet").unwrap_or(false)).map(|e| e.path()).collect();
        names.sort();
        for p in names {
            if let Ok(bytes) = std::fs::read(&p) {
                if bytes.len() <= 1200 {
                    let n = p.file_name().unwrap().to_string_lossy().to_string();
                    out.push(BaseFile { name: format!("repo-{n}"), path: format!("m/{n}"), bytes, kind: Kind::Parquet(None) });
                }
            }
        }
    }
    out
}

#[derive(Debug, Clone)]
pub enum Mutation {
    None,
    Truncate(usize),
    SetByte { pos: usize, val: u8 },
    Lie(LieField, i64),
    IoError(u64),
    /// short reads of n bytes together with Pending I/O (no content fault)
    Trickle(usize),
}

pub fn flip_values(b: u8, csv: bool) -> Vec<u8> {
    let mut v = vec![0x00, 0xff, b ^ 0x01, b ^ 0x80];
    if csv {
        v.push(b'"');
        v.push(b'\n');
    }
    v.sort();
    v.dedup();
    v.retain(|x| *x != b);
    v
}

/// All cases of one base file, in a fixed order. `io_calls` = number of I/O
/// calls of the clean run (for the I/O error family).
pub fn cases(f: &BaseFile, io_calls: u64) -> Vec<Mutation> {
    let mut out = vec![Mutation::None];
    let csv = matches!(f.kind, Kind::Csv);
    for l in 0..f.bytes.len() {
        out.push(Mutation::Truncate(l));
    }
    for (pos, b) in f.bytes.iter().enumerate() {
        for val in flip_values(*b, csv) {
            out.push(Mutation::SetByte { pos, val });
        }
    }
    if let Kind::Parquet(Some(_)) = f.kind {
        for l in pq::ALL_LIES {
            for v in LIE_VALUES {
                out.push(Mutation::Lie(*l, *v));
            }
        }
    }
    for k in 0..io_calls.min(400) {
        out.push(Mutation::IoError(k));
    }
    for n in [1usize, 2, 3, 7] {
        out.push(Mutation::Trickle(n));
    }
    out
}

pub fn apply(f: &BaseFile, m: &Mutation) -> (Vec<u8>, FsPlan) {
    let mut plan = FsPlan { max_calls: 300_000, ..FsPlan::default() };
    let bytes = match m {
        Mutation::None => f.bytes.clone(),
        Mutation::Truncate(l) => f.bytes[..*l].to_vec(),
        Mutation::SetByte { pos, val } => {
            let mut b = f.bytes.clone();
            b[*pos] = *val;
            b
        }
        Mutation::Lie(field, v) => match &f.kind {
            Kind::Parquet(Some(spec)) => {
                let mut s = spec.clone();
                s.lies = vec![(*field, *v)];
                pq::write_file(&s).0
            }
            _ => f.bytes.clone(),
        },
        Mutation::IoError(k) => {
            plan.error_at = Some(*k);
            f.bytes.clone()
        }
        Mutation::Trickle(n) => {
            plan.gran = Gran::Fixed(*n);
            plan.pending_16 = 5;
            f.bytes.clone()
        }
    };
    (bytes, plan)
}

pub fn scenario_for(f: &BaseFile, m: &Mutation, case: usize) -> Scenario {
    let (bytes, plan) = apply(f, m);
    let mut stmts = vec![Stmt::new(format!("SET partitions TO {}", 1 + case % 2)), Stmt::new(format!("SET batch_size TO {}", [2048, 1, 3, 16][case % 4]))];
    match f.kind {
        Kind::Parquet(_) => {
            stmts.push(Stmt::new(format!("SELECT * FROM read_parquet('{}')", f.path)));
            stmts.push(Stmt::new(format!("SELECT * FROM parquet.column_metadata('{}')", f.path)));
            stmts.push(Stmt::new(format!("SELECT * FROM parquet.rowgroup_metadata('{}')", f.path)));
        }
        Kind::Csv => {
            stmts.push(Stmt::new(format!("SELECT * FROM read_csv('{}')", f.path)));
        }
    }
    // liveness probe: the session must keep answering afterwards
    stmts.push(Stmt::new("SELECT 41 + 1"));
    let mut sc = Scenario::single(stmts);
    let mut disk = SimDisk::default();
    disk.put(&f.path, bytes);
    sc.disk = disk;
    sc.fs = plan;
    sc.sim = SimConfig { policy: if case % 3 == 0 { Policy::Random } else { Policy::Canonical }, noisy: false, max_steps: 400_000, default_partitions: 4, keep_events: 0 };
    sc.entropy = 7;
    sc
}

/// Run one case in this process. Returns (verdict class or "ok", detail,
/// outcome digest).
pub fn run_case(f: &BaseFile, m: &Mutation, case: usize) -> (String, String, u64) {
    let sc = scenario_for(f, m, case);
    let rep = run_scenario(&sc, Chooser::generating(Rng::new(case as u64)), None);
    let mut d = Digest::new();
    let nstmts = sc.sessions[0].len();
    match &rep.end {
        RunEnd::Completed => {}
        RunEnd::Panic { msg, .. } => return ("panic".into(), format!("panic in a pipeline task: {msg}"), 0),
        RunEnd::LostWakeup { .. } => return ("hang-lost-wakeup".into(), format!("query hangs (no runnable task): {}", rep.parked_desc.join("; ")), 0),
        RunEnd::NoProgress => return ("hang-no-progress".into(), format!("step budget exhausted after {} steps", rep.stats.steps), 0),
    }
    if rep.fs_budget_exceeded {
        return ("hang-io-loop".into(), "I/O call budget exceeded (endless read loop)".into(), 0);
    }
    for (i, o) in rep.outcomes[0].iter().enumerate() {
        match &o.outcome {
            Outcome::Panic { msg } => return ("panic".into(), format!("panic on the client side (planning / result pull): {msg}"), 0),
            Outcome::Rows(t) => {
                d.u64(t.rows.len() as u64);
                for r in t.rows.iter().take(50) {
                    d.str(&crate::value::render_row(r));
                }
                if i == nstmts - 1 && !(t.rows.len() == 1 && t.rows[0].first().map(|v| v.render() == "42").unwrap_or(false)) {
                    return ("session-broken".into(), "the probe statement after the scan returned wrong rows".into(), 0);
                }
            }
            Outcome::Error { msg, .. } => {
                d.str(&crate::check::expect::first_line(msg));
                if i == nstmts - 1 {
                    return ("session-broken".into(), format!("the probe statement after the scan failed: {msg}"), 0);
                }
            }
            Outcome::Dropped { .. } => {}
        }
    }
    if rep.outcomes[0].len() != nstmts {
        return ("not-reached".into(), "script did not finish".into(), 0);
    }
    ("ok".into(), String::new(), d.0)
}


// ---------------------------------------------------------------------------
// Case source for the supervisor

pub struct C19Source;

struct C19Job {
    file: BaseFile,
    cases: Vec<Mutation>,
}

impl Job for C19Job {
    fn num_cases(&self) -> usize {
        self.cases.len()
    }
    fn run_case(&self, case: usize) -> (String, String, u64) {
        run_case(&self.file, &self.cases[case], case)
    }
    fn scenario(&self, case: usize) -> Scenario {
        scenario_for(&self.file, self.cases.get(case).unwrap_or(&Mutation::None), case)
    }
    fn describe(&self, case: usize) -> String {
        format!("{:?} on {}", self.cases.get(case), self.file.name)
    }
    fn sample(&self, total_cases: Option<usize>) -> serde_json::Value {
        json!({"file": self.file.name, "bytes": self.file.bytes.len(), "cases": total_cases, "first_mutations": ["clean", "truncate to 0", "truncate to 1", "..."], "kind": match self.file.kind { Kind::Csv => "csv", Kind::Parquet(Some(_)) => "parquet (harness writer)", Kind::Parquet(None) => "parquet (repository testdata)" }})
    }
}

impl CaseSource for C19Source {
    fn name(&self) -> &'static str {
        "c19"
    }
    fn property(&self) -> &'static str {
        "C19"
    }
    fn level(&self) -> &'static str {
        "fault_enumeration"
    }
    fn exhaustive(&self) -> bool {
        true
    }
    fn rule(&self) -> String {
        "per base file (harness-written Parquet files <= 14 rows x <= 3 columns over all types/encodings/codecs/page versions, generated CSV files, the repository's small Parquet test files): the clean file, EVERY truncation length, EVERY byte position x {0x00, 0xFF, b^0x01, b^0x80 (+ quote, newline for CSV)}, every metadata lie of the harness writer (30 fields: counts, sizes, offsets, type/codec/encoding ids, level lengths, dictionary size and bit width, delta-binary-packed header, footer length) x {-1, 0, 1, 7, 2^20, 2^31-1, 2^63-1}, an injected I/O error at every I/O call, and 1/2/3/7-byte trickle reads with Pending I/O. Each case = SELECT * (+ column_metadata, rowgroup_metadata for Parquet) + a probe statement, in a child process with RLIMIT_AS 6 GiB, step budget 400k, I/O-call budget 300k, 40 s silence limit. Non-trivial = the outcome (rows digest or error text) differs from the clean file's outcome, or the case is a violation; distinct = distinct (file, outcome digest).".into()
    }
    fn assumptions(&self) -> Vec<String> {
        vec!["exhaustive per file for the truncation and single-byte families; the set of base files is sampled".into(), "a violation signature = class + message with digits masked + panic location; one replay file per signature".into()]
    }
    fn extra_evidence(&self) -> serde_json::Value {
        json!({"faults_injected": {"truncation": "every length", "byte_set": "every position x 4-6 values", "metadata_lie": "30 fields x 7 values (harness-written files)", "io_error": "every I/O call", "trickle_read_pending": "4 granularities"}})
    }
    fn num_jobs(&self, seed: u64, thorough: bool) -> usize {
        base_files(seed, thorough).len()
    }
    fn job(&self, seed: u64, thorough: bool, idx: usize) -> Option<Box<dyn Job>> {
        let file = base_files(seed, thorough).into_iter().nth(idx)?;
        // clean run first: its I/O call count sizes the I/O error family
        let clean = run_scenario(&scenario_for(&file, &Mutation::None, 0), Chooser::generating(Rng::new(0)), None);
        let io_calls: u64 = clean.io_stats.iter().filter(|(k, _)| !k.starts_with("fault.") && !k.contains('.')).map(|(_, v)| *v).sum();
        let cases = cases(&file, io_calls);
        Some(Box::new(C19Job { file, cases }))
    }
}
