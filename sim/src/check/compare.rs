//! Comparison of an engine result with the model's result.

use std::cmp::Ordering;

use crate::sql::ast::*;
use crate::sql::eval::{order_rows_cmp, Db, Dev, Eval, EvalErr};
use crate::value::{render_rows, row_cmp, Row, Table};

#[derive(Debug, Clone, PartialEq)]
pub enum Verdict {
    Match,
    /// model says a run-time error may occur; any clean engine outcome passes
    ModelError(String),
    /// model result is one of several legal ones; not compared
    Ambiguous,
    /// too expensive / not covered by the model
    Skipped(String),
    Mismatch(String),
}

pub fn sorted(mut rows: Vec<Row>) -> Vec<Row> {
    rows.sort_by(row_cmp);
    rows
}

/// Bag equality with float tolerance. Returns a description of the first
/// difference.
pub fn bag_diff(expected: &[Row], got: &[Row], rel: f64) -> Option<String> {
    if expected.len() != got.len() {
        return Some(format!("row count: expected {}, got {}", expected.len(), got.len()));
    }
    let e = sorted(expected.to_vec());
    let g = sorted(got.to_vec());
    for (i, (a, b)) in e.iter().zip(g.iter()).enumerate() {
        if a.len() != b.len() {
            return Some(format!("row width: expected {}, got {}", a.len(), b.len()));
        }
        for (x, y) in a.iter().zip(b.iter()) {
            if !x.approx_same(y, rel) {
                return Some(format!("sorted row {i}: expected {} got {}", crate::value::render_row(a), crate::value::render_row(b)));
            }
        }
    }
    None
}

/// Is every row of `sub` a member of `sup`, respecting multiplicity?
pub fn bag_included(sub: &[Row], sup: &[Row]) -> bool {
    let mut s = sorted(sup.to_vec());
    for r in sub {
        match s.iter().position(|x| row_cmp(x, r) == Ordering::Equal || x.iter().zip(r).all(|(a, b)| a.approx_same(b, 1e-9))) {
            Some(i) => {
                s.remove(i);
            }
            None => return false,
        }
    }
    true
}

pub fn types_diff(q_out: &[(String, Ty)], t: &Table) -> Option<String> {
    let exp: Vec<&str> = q_out.iter().map(|o| o.1.engine()).collect();
    let got: Vec<&str> = t.types.iter().map(|s| s.as_str()).collect();
    if exp != got {
        return Some(format!("announced types: expected {exp:?}, got {got:?}"));
    }
    None
}

/// Compare the engine's table for query `q` with R-SQL under deviation set `dev`.
pub fn check_query(db: &Db, q: &Query, t: &Table, dev: &Dev) -> (Verdict, Vec<&'static str>) {
    let mut ev = Eval::new(db, dev.clone());
    let (full, sliced) = match ev.query_full(q, None, None) {
        Ok(x) => x,
        Err(EvalErr::Runtime(m)) => return (Verdict::ModelError(m), vec![]),
        Err(EvalErr::Budget) => return (Verdict::Skipped("budget".into()), vec![]),
        Err(EvalErr::Unsupported(m)) => return (Verdict::Skipped(format!("unsupported: {m}")), vec![]),
    };
    let fired: Vec<&'static str> = ev.dev_fired.iter().copied().collect();
    if let Some(d) = types_diff(&q.out, t) {
        return (Verdict::Mismatch(d), fired);
    }
    let has_slice = q.limit.is_some() || q.offset.is_some();
    // ordering: every adjacent pair respects the keys
    if !q.order_by.is_empty() {
        for w in t.rows.windows(2) {
            if order_rows_cmp(&w[0], &w[1], &q.order_by) == Ordering::Greater {
                return (Verdict::Mismatch(format!("not sorted: {} before {}", crate::value::render_row(&w[0]), crate::value::render_row(&w[1]))), fired);
            }
        }
    }
    if ev.ambiguous {
        if has_slice {
            // weak check: right count, members of the un-sliced result
            if t.rows.len() != sliced.len() {
                return (Verdict::Mismatch(format!("slice row count: expected {}, got {}", sliced.len(), t.rows.len())), fired);
            }
            // only sound if the ambiguity comes from the top-level slice alone;
            // we cannot tell, so inclusion failures are not reported.
            let _ = bag_included(&t.rows, &full);
        }
        return (Verdict::Ambiguous, fired);
    }
    if let Some(d) = bag_diff(&sliced, &t.rows, 1e-9) {
        return (
            Verdict::Mismatch(format!("{d}\n  expected: {:?}\n  got:      {:?}", render_rows(&sorted(sliced.clone()), 12), render_rows(&sorted(t.rows.clone()), 12))),
            fired,
        );
    }
    (Verdict::Match, fired)
}
