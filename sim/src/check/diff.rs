//! Differential checks: the same script under two configurations / schedules
//! must give the same rows. Serves C02 (optimizer on/off), C03 (partitions,
//! batch size, join algorithm), C04 (schedules, wake-up noise, termination).

use std::sync::Arc;

use serde_json::json;

use crate::campaign::{Check, Stats, Violation, still_fails};
use crate::check::expect::{eval_expect, is_unsupported, items_to_keys};
use crate::check::sqlcase::*;
use crate::replay::{Expect, enc_rows, observe};
use crate::rng::Rng;
use crate::script::{Outcome, RunReport, Scenario, Stmt, run_scenario};
use crate::sim::{Chooser, Policy, RunEnd, SimConfig};
use crate::sql::ast::*;
use crate::sql::eval::{Db, Dev};
use crate::sql::print;
use crate::sql::qgen::{Features, Gen, TableDef, gen_tables, setup_sql};

#[derive(Debug, Clone, Copy, PartialEq)]
pub enum DiffMode {
    Optimizer,
    Config,
    Schedule,
}

pub struct DiffCheck {
    pub property: &'static str,
    pub mode: DiffMode,
    pub queries_per_run: usize,
    pub max_rows: usize,
    pub small_batches: bool,
}

#[derive(Debug, Clone)]
struct DiffAux {
    sql: SqlAux,
    ref_knobs: Knobs,
    /// statements executed after the query (e.g. SELECT * FROM the CTAS table)
    wrap: Wrap,
}

#[derive(Debug, Clone, PartialEq)]
enum Wrap {
    Query,
    /// CREATE TEMP TABLE x AS <query>; then SELECT * FROM x is the checked stmt
    Ctas,
    /// CREATE TEMP TABLE x (cols); INSERT INTO x <query>; SELECT * FROM x
    Insert,
}

#[derive(Debug, Clone, Copy, PartialEq)]
enum Det {
    Exact,
    CountOnly,
    Skip,
}

fn determinism(db: &Db, q: &Query) -> Det {
    // any LIMIT/OFFSET not under a total order makes the row set legitimately
    // configuration dependent; the model cannot always see that (it may
    // disagree with the engine about the un-limited rows), so decide it
    // syntactically
    let mut any_limit = false;
    {
        let mut c = q.clone();
        crate::sql::shrink::visit_query_mut(&mut c, &mut |_| {}, &mut |qq| {
            if qq.limit.is_some() || qq.offset.is_some() {
                any_limit = true;
            }
        });
    }
    // a LIMIT below the top level makes everything above it (including the
    // number of rows) depend on which rows were kept
    let mut nested_limit = false;
    {
        let mut c = q.clone();
        let mut first = true;
        crate::sql::shrink::visit_query_mut(&mut c, &mut |_| {}, &mut |qq| {
            if first {
                first = false;
            } else if (qq.limit.is_some() || qq.offset.is_some()) && qq.limit != Some(0) {
                nested_limit = true;
            }
        });
    }
    if nested_limit {
        return Det::Skip;
    }
    let d = determinism_model(db, q);
    if any_limit && d == Det::Exact { Det::CountOnly } else { d }
}

fn determinism_model(db: &Db, q: &Query) -> Det {
    match model_expect(db, q, &Dev::default()) {
        ModelSays::Expect(Expect::Rows { .. }, _) => Det::Exact,
        ModelSays::Expect(_, _) | ModelSays::Ambiguous => Det::CountOnly,
        ModelSays::MayError(_) => Det::Skip,
        ModelSays::Skip(_) => {
            let mut any_limit = false;
            let mut c = q.clone();
            crate::sql::shrink::visit_query_mut(&mut c, &mut |_| {}, &mut |qq| {
                if qq.limit.is_some() || qq.offset.is_some() {
                    any_limit = true;
                }
            });
            if any_limit { Det::CountOnly } else { Det::Exact }
        }
    }
}

fn stmts_for(aux: &DiffAux, knobs: &Knobs) -> (Vec<Stmt>, usize) {
    let mut stmts = knobs.set_stmts();
    stmts.extend(setup_sql(&aux.sql.tables, aux.sql.chunk).into_iter().map(Stmt::new));
    let qsql = print::query(&aux.sql.query);
    match aux.wrap {
        Wrap::Query => {
            stmts.push(Stmt::new(qsql));
        }
        Wrap::Ctas => {
            stmts.push(Stmt::new(format!("CREATE TEMP TABLE ctas_x AS {qsql}")));
            stmts.push(Stmt::new("SELECT * FROM ctas_x"));
        }
        Wrap::Insert => {
            let cols: Vec<String> = aux.sql.query.out.iter().enumerate().map(|(i, (_, t))| format!("k{i} {}", t.sql())).collect();
            stmts.push(Stmt::new(format!("CREATE TEMP TABLE ins_x ({})", cols.join(", "))));
            stmts.push(Stmt::new(format!("INSERT INTO ins_x {qsql}")));
            stmts.push(Stmt::new("SELECT * FROM ins_x"));
        }
    }
    let idx = stmts.len() - 1;
    (stmts, idx)
}

/// Expectation for statement `stmt` of the variant, taken from the reference run.
fn expect_from_reference(refrep: &RunReport, stmt: usize, q: Option<&Query>, det: Det) -> Option<Expect> {
    if refrep.end != RunEnd::Completed {
        return None;
    }
    match &refrep.outcomes[0].get(stmt)?.outcome {
        Outcome::Rows(t) => {
            let sorted_by = q.map(|q| items_to_keys(&q.order_by)).unwrap_or_default();
            match det {
                Det::Exact => Some(Expect::Rows { rows: enc_rows(&t.rows), types: Some(t.types.clone()), sorted_by, ordered_exact: false }),
                Det::CountOnly => Some(Expect::Custom { check: "count".into(), data: t.rows.len().to_string() }),
                Det::Skip => None,
            }
        }
        _ => None,
    }
}

fn eval_diff_expect(e: &Expect, rep: &RunReport, stmt: usize) -> Option<(String, String)> {
    eval_expect(e, rep, 0, stmt)
}

impl DiffCheck {
    pub fn new(property: &'static str, mode: DiffMode) -> Self {
        DiffCheck { property, mode, queries_per_run: 6, max_rows: 40, small_batches: true }
    }

    fn features(&self, rng: &mut Rng) -> Features {
        let mut f = Features::swarm(rng);
        match self.mode {
            DiffMode::Optimizer => {
                f.joins = true;
                f.and_or = true;
                // half of the runs lean on what filter pushdown / column
                // pruning do around aggregates and derived tables
                if rng.chance(1, 2) {
                    f.group_by = true;
                    f.rollup_cube = true;
                    f.having = true;
                    f.derived = true;
                } else if rng.chance(1, 2) {
                    // ... or on shared materializations: CTEs read several times,
                    // set operations, correlated subqueries over them
                    f.cte = true;
                    f.union = true;
                    f.correlated = true;
                    f.subq_scalar = true;
                    f.subq_exists = true;
                }
            }
            DiffMode::Config | DiffMode::Schedule => {
                f.joins = true;
                f.group_by = true;
            }
        }
        f
    }

    /// (reference knobs, reference sim) and the variants to compare against it.
    fn plan(&self, rng: &Rng) -> ((Knobs, SimConfig), Vec<(Knobs, SimConfig)>) {
        let canonical = SimConfig { policy: Policy::Canonical, noisy: false, max_steps: 400_000, default_partitions: 4, keep_events: 0 };
        match self.mode {
            DiffMode::Optimizer => {
                let mut k = Knobs::draw(&mut rng.fork("knobs"), self.small_batches);
                k.optimizer = false;
                let sim = draw_sim(&mut rng.fork("sim"), false);
                let mut k2 = k.clone();
                k2.optimizer = true;
                ((k, sim.clone()), vec![(k2, sim)])
            }
            DiffMode::Config => {
                let mut vars = Vec::new();
                let n = 2 + rng.fork("nvar").usize_below(2);
                for i in 0..n {
                    let mut k = Knobs::draw(&mut rng.fork_idx("knobs", i as u64), self.small_batches);
                    // the optimizer is C02's dimension, not C03's
                    k.optimizer = Knobs::reference().optimizer;
                    vars.push((k, draw_sim(&mut rng.fork_idx("sim", i as u64), false)));
                }
                ((Knobs::reference(), canonical), vars)
            }
            DiffMode::Schedule => {
                let mut k = Knobs::draw(&mut rng.fork("knobs"), self.small_batches);
                if k.partitions == 1 && rng.fork("p").chance(3, 4) {
                    k.partitions = 2 + rng.fork("p2").below(6) as u32;
                }
                let mut vars = Vec::new();
                for i in 0..3u64 {
                    let mut s = draw_sim(&mut rng.fork_idx("sim", i), false);
                    s.noisy = i == 2;
                    vars.push((k.clone(), s));
                }
                ((k, canonical), vars)
            }
        }
    }
}

impl Check for DiffCheck {
    fn run_one(&self, run: u64, rng: Rng, stats: &mut Stats) -> Vec<Violation> {
        let tables: Vec<TableDef> = gen_tables(&mut rng.fork("tables"), self.max_rows);
        let db = db_of(&tables);
        let feats = self.features(&mut rng.fork("swarm"));
        let mut g = Gen::new(rng.fork("queries"), &tables, feats);
        g.cte_bias = self.mode == DiffMode::Optimizer && rng.fork("ctebias").chance(1, 8);
        if g.cte_bias {
            g.f.cte = true;
            g.f.union = true;
        }
        let chunk = 1 + rng.fork("chunk").usize_below(9);
        let ((ref_knobs, ref_sim), variants) = self.plan(&rng);
        // tiny batches make per-row costs quadratic in some operators (sort
        // blocks); keep intermediate results small then
        let min_batch = variants.iter().map(|v| v.0.batch_size).chain(std::iter::once(ref_knobs.batch_size)).min().unwrap_or(2048);
        g.max_product = if min_batch < 16 { 600 } else if min_batch < 1024 { 4000 } else { 40_000 };

        // script body: queries, some wrapped into CTAS / INSERT ... SELECT
        let mut body: Vec<(Query, Wrap)> = Vec::new();
        let mut wr = rng.fork("wrap");
        for _ in 0..self.queries_per_run {
            let q = g.gen_query();
            let wrap = if self.mode != DiffMode::Optimizer && wr.chance(1, 4) { if wr.chance(1, 2) { Wrap::Ctas } else { Wrap::Insert } } else { Wrap::Query };
            body.push((q, wrap));
        }
        // one scenario per configuration; statement index of each checked stmt
        let entropy = rng.fork("entropy").next_u64();
        // hook H3: variants may store tables in tiny chunks/segments so that a
        // single input batch spans several chunks and scans span many segments
        let var_dims: Option<(usize, usize)> = {
            let mut d = rng.fork("dims");
            if self.mode != DiffMode::Optimizer && d.chance(1, 2) { Some((1 + d.usize_below(4), *d.pick(&[1usize, 2, 3, 8, 64]))) } else { None }
        };
        let build = |knobs: &Knobs, sim: &SimConfig| -> (Scenario, Vec<usize>) {
            let mut stmts = knobs.set_stmts();
            stmts.extend(setup_sql(&tables, chunk).into_iter().map(Stmt::new));
            let mut idxs = Vec::new();
            for (i, (q, wrap)) in body.iter().enumerate() {
                let qsql = print::query(q);
                match wrap {
                    Wrap::Query => stmts.push(Stmt::new(qsql)),
                    Wrap::Ctas => {
                        stmts.push(Stmt::new(format!("CREATE TEMP TABLE ctas_{i} AS {qsql}")));
                        stmts.push(Stmt::new(format!("SELECT * FROM ctas_{i}")));
                    }
                    Wrap::Insert => {
                        let cols: Vec<String> = q.out.iter().enumerate().map(|(j, (_, t))| format!("k{j} {}", t.sql())).collect();
                        stmts.push(Stmt::new(format!("CREATE TEMP TABLE ins_{i} ({})", cols.join(", "))));
                        stmts.push(Stmt::new(format!("INSERT INTO ins_{i} {qsql}")));
                        stmts.push(Stmt::new(format!("SELECT * FROM ins_{i}")));
                    }
                }
                idxs.push(stmts.len() - 1);
            }
            let mut sc = Scenario::single(stmts);
            sc.sim = sim.clone();
            sc.entropy = entropy;
            if !(knobs == &ref_knobs && sim.policy == Policy::Canonical) {
                sc.table_dims = var_dims;
            }
            (sc, idxs)
        };

        let (ref_sc, idxs) = build(&ref_knobs, &ref_sim);
        let refrep = run_scenario(&ref_sc, Chooser::generating(rng.fork("sched-ref")), None);
        stats.world(&refrep, ref_knobs.key());
        let mut out = Vec::new();
        let dets: Vec<Det> = body.iter().map(|(q, _)| determinism(&db, q)).collect();

        if refrep.end != RunEnd::Completed {
            // the reference run itself hangs or panics: reported by C04/C01 too,
            // here only when this check owns schedules
            let stmt = refrep.in_flight[0];
            if let Some((class, detail)) = eval_expect(&Expect::Completes, &refrep, 0, stmt) {
                stats.count(&format!("verdict.reference_{class}"));
                let mut sc2 = ref_sc.clone();
                sc2.sessions[0].truncate(stmt + 1);
                let mut v = Violation { property: self.property.into(), class, scenario: sc2, choices: refrep.choices.clone(), session: 0, stmt, expect: Expect::Completes, observed: observe(&refrep, 0, stmt), detail, trace: refrep.trace, aux: None };
                let nsetup = ref_knobs.set_stmts().len() + setup_sql(&tables, chunk).len();
                if stmt >= nsetup {
                    // find the body statement by replaying the index computation
                    let (_, idxs) = build(&ref_knobs, &ref_sim);
                    if let Some(qi) = idxs.iter().position(|&ix| stmt <= ix) {
                        let (q, wrap) = &body[qi];
                        let aux = DiffAux { sql: SqlAux { tables: tables.clone(), views: vec![], query: q.clone(), knobs: ref_knobs.clone(), chunk, dev: Dev::default() }, ref_knobs: ref_knobs.clone(), wrap: wrap.clone() };
                        if let Some(v1) = rehome(&v, &aux, &ref_sim) {
                            v = v1;
                        }
                    }
                }
                out.push(v);
            }
            return out;
        }

        for (vi, (knobs, sim)) in variants.iter().enumerate() {
            let (sc, _) = build(knobs, sim);
            let rep = run_scenario(&sc, Chooser::generating(rng.fork_idx("sched", vi as u64)), None);
            stats.world(&rep, knobs.key() ^ crate::rng::hash_str(&sim.policy.name()) ^ (sim.noisy as u64) << 60);
            if run < 1 && vi == 0 {
                stats.sample(json!({"run": run, "reference": format!("{ref_knobs:?} {}", ref_sim.policy.name()), "variant": format!("{knobs:?} {} noisy={}", sim.policy.name(), sim.noisy),
                    "script": sc.sessions[0].iter().map(|s| s.sql.clone()).collect::<Vec<_>>()}));
            }
            if rep.end != RunEnd::Completed {
                let stmt = rep.in_flight[0];
                let (class, detail) = eval_expect(&Expect::Completes, &rep, 0, stmt).unwrap();
                stats.count(&format!("verdict.{class}"));
                let mut sc2 = sc.clone();
                sc2.sessions[0].truncate(stmt + 1);
                let mut v = Violation { property: self.property.into(), class, scenario: sc2, choices: rep.choices.clone(), session: 0, stmt, expect: Expect::Completes, observed: observe(&rep, 0, stmt), detail, trace: rep.trace, aux: None };
                // which body statement was in flight?
                if let Some(qi) = idxs.iter().position(|&ix| stmt <= ix) {
                    let (q, wrap) = &body[qi];
                    let aux = DiffAux { sql: SqlAux { tables: tables.clone(), views: vec![], query: q.clone(), knobs: knobs.clone(), chunk, dev: Dev::default() }, ref_knobs: ref_knobs.clone(), wrap: wrap.clone() };
                    if let Some(v1) = rehome(&v, &aux, &ref_sim) {
                        v = v1;
                    }
                }
                out.push(v);
                continue;
            }
            for (qi, (q, wrap)) in body.iter().enumerate() {
                let stmt = idxs[qi];
                if *wrap != Wrap::Query {
                    // the CTAS / INSERT itself must have had the same fate
                    let (rd, vd) = (&refrep.outcomes[0][stmt - 1].outcome, &rep.outcomes[0][stmt - 1].outcome);
                    match (rd, vd) {
                        (Outcome::Rows(a), Outcome::Rows(b)) => {
                            // reported counts (rows_inserted) must agree when the
                            // statement is deterministic
                            if dets[qi] == Det::Exact && a.rows != b.rows {
                                stats.count("verdict.violation");
                                out.push(Violation { property: self.property.into(), class: "rows-mismatch".into(), scenario: sc.clone(), choices: rep.choices.clone(), session: 0, stmt: stmt - 1, expect: Expect::Rows { rows: enc_rows(&a.rows), types: None, sorted_by: vec![], ordered_exact: false }, observed: observe(&rep, 0, stmt - 1), detail: "reported row count of INSERT / CREATE TABLE AS differs from the reference configuration".into(), trace: rep.trace, aux: None });
                                continue;
                            }
                        }
                        (Outcome::Rows(_), Outcome::Panic { msg }) => {
                            stats.count("verdict.violation");
                            out.push(Violation { property: self.property.into(), class: "panic".into(), scenario: sc.clone(), choices: rep.choices.clone(), session: 0, stmt: stmt - 1, expect: Expect::NoPanic, observed: observe(&rep, 0, stmt - 1), detail: format!("panic on the client side: {msg}"), trace: rep.trace, aux: None });
                            continue;
                        }
                        _ => {
                            stats.count("verdict.dml_not_comparable");
                            continue;
                        }
                    }
                }
                let (ro, vo) = (&refrep.outcomes[0][stmt].outcome, &rep.outcomes[0][stmt].outcome);
                // the statement before the checked one (CTAS / INSERT) must agree on
                // success too; a failure there shows up as an error on SELECT * anyway
                match (ro, vo) {
                    (Outcome::Panic { .. }, Outcome::Panic { .. }) => {
                        stats.count("verdict.both_panic");
                        continue;
                    }
                    (Outcome::Error { .. }, Outcome::Error { .. }) => {
                        stats.count("verdict.both_error");
                        continue;
                    }
                    (Outcome::Error { msg, .. }, Outcome::Rows(_)) | (Outcome::Rows(_), Outcome::Error { msg, .. }) => {
                        if dets[qi] == Det::Skip {
                            stats.count("verdict.model_may_error");
                            continue;
                        }
                        if is_unsupported(msg) {
                            stats.count("verdict.rejected_unsupported_one_side");
                            continue;
                        }
                        if matches!(ro, Outcome::Error { .. }) {
                            // reference failed, variant succeeded: report from the
                            // reference's point of view is not replayable here
                            stats.count("verdict.reference_error_only");
                        }
                    }
                    _ => {}
                }
                if dets[qi] == Det::Skip {
                    stats.count("verdict.model_may_error");
                    continue;
                }
                let e = match expect_from_reference(&refrep, stmt, if *wrap == Wrap::Query { Some(q) } else { None }, dets[qi]) {
                    Some(e) => e,
                    None => {
                        // reference did not produce rows
                        if *wrap != Wrap::Query {
                            // the CTAS / INSERT before it failed in the reference run
                            stats.count("verdict.reference_dml_failed");
                            continue;
                        }
                        if let (Outcome::Error { msg, .. }, Outcome::Rows(_)) = (ro, vo) {
                            stats.count("verdict.violation");
                            let mut v = Violation { property: self.property.into(), class: "error-only-in-reference".into(), scenario: ref_sc.clone(), choices: refrep.choices.clone(), session: 0, stmt, expect: Expect::Success, observed: observe(&refrep, 0, stmt), detail: format!("reference configuration fails ({}) where {:?} succeeds", crate::check::expect::first_line(msg), knobs), trace: refrep.trace, aux: None };
                            v.class = "unexpected-error".into();
                            out.push(v);
                        }
                        continue;
                    }
                };
                match eval_diff_expect(&e, &rep, stmt) {
                    None => stats.count(if dets[qi] == Det::Exact { "verdict.match" } else { "verdict.match_count_only" }),
                    Some((class, detail)) => {
                        stats.count("verdict.violation");
                        let aux = DiffAux { sql: SqlAux { tables: tables.clone(), views: vec![], query: q.clone(), knobs: knobs.clone(), chunk, dev: Dev::default() }, ref_knobs: ref_knobs.clone(), wrap: wrap.clone() };
                        let mut v = Violation { property: self.property.into(), class, scenario: sc.clone(), choices: rep.choices.clone(), session: 0, stmt, expect: e.clone(), observed: observe(&rep, 0, stmt), detail, trace: rep.trace, aux: None };
                        // re-home into a scenario with only this statement
                        if let Some(v1) = rehome(&v, &aux, &ref_sim) {
                            v = v1;
                        }
                        out.push(v);
                    }
                }
            }
        }
        out
    }

    fn shrink(&self, v: &Violation) -> Vec<Violation> {
        let aux: DiffAux = match v.aux.as_ref().and_then(|a| a.downcast_ref::<DiffAux>()) {
            Some(a) => a.clone(),
            None => return vec![],
        };
        let canonical = SimConfig { policy: Policy::Canonical, noisy: false, max_steps: 400_000, default_partitions: 4, keep_events: 0 };
        let ref_sim = if self.mode == DiffMode::Optimizer { v.scenario.sim.clone() } else { canonical };
        let mut out = Vec::new();
        // every candidate costs a reference run: bound the round by wall clock
        let t0 = std::time::Instant::now();
        let mut push = |a: DiffAux| {
            if t0.elapsed().as_secs() >= 6 {
                return;
            }
            let mut c = v.clone();
            c.aux = Some(Arc::new(a.clone()));
            if let Some(c2) = rehome_candidate(&c, &a, &ref_sim) {
                out.push(c2);
            }
        };
        // variant knobs towards the reference knobs, one at a time
        for k in 0..4 {
            let mut a = aux.clone();
            match k {
                0 => a.sql.knobs.partitions = aux.ref_knobs.partitions,
                1 => a.sql.knobs.batch_size = aux.ref_knobs.batch_size,
                2 if self.mode != DiffMode::Optimizer => a.sql.knobs.optimizer = aux.ref_knobs.optimizer,
                3 => a.sql.knobs.hash_joins = aux.ref_knobs.hash_joins,
                _ => {}
            }
            if a.sql.knobs != aux.sql.knobs && a.sql.knobs != a.ref_knobs {
                push(a);
            }
        }
        if aux.wrap != Wrap::Query {
            let mut a = aux.clone();
            a.wrap = Wrap::Query;
            push(a);
        }
        for q in crate::sql::shrink::candidates(&aux.sql.query) {
            let mut a = aux.clone();
            a.sql.query = q;
            push(a);
        }
        for ti in 0..aux.sql.tables.len() {
            if aux.sql.tables.len() > 1 {
                let mut a = aux.clone();
                a.sql.tables.remove(ti);
                push(a);
            }
            let n = aux.sql.tables[ti].data.rows.len();
            if n > 1 {
                let mut a = aux.clone();
                a.sql.tables[ti].data.rows.truncate(n / 2);
                push(a);
                let mut a = aux.clone();
                a.sql.tables[ti].data.rows.drain(0..n / 2);
                push(a);
            }
            if n > 0 && n <= 10 {
                for ri in 0..n {
                    let mut a = aux.clone();
                    a.sql.tables[ti].data.rows.remove(ri);
                    push(a);
                }
            }
        }
        out
    }
}

/// Build the single-statement scenario for `aux`, compute the expectation from
/// a fresh reference run, and keep it if the violation still shows.
fn rehome(v: &Violation, aux: &DiffAux, ref_sim: &SimConfig) -> Option<Violation> {
    let mut c = rehome_candidate(v, aux, ref_sim)?;
    c.aux = Some(Arc::new(aux.clone()));
    let (detail, observed, trace, choices) = still_fails_diff(&c)?;
    c.detail = detail;
    c.observed = observed;
    c.trace = trace;
    c.choices = choices;
    Some(c)
}

fn rehome_candidate(v: &Violation, aux: &DiffAux, ref_sim: &SimConfig) -> Option<Violation> {
    let (ref_stmts, idx) = stmts_for(aux, &aux.ref_knobs);
    let mut ref_sc = Scenario::single(ref_stmts);
    ref_sc.sim = ref_sim.clone();
    ref_sc.entropy = v.scenario.entropy;
    let refrep = run_scenario(&ref_sc, Chooser::replaying(vec![]), None);
    let db = db_of(&aux.sql.tables);
    let det = determinism(&db, &aux.sql.query);
    if matches!(v.expect, Expect::Completes | Expect::NoPanic) {
        let (stmts, idx) = stmts_for(aux, &aux.sql.knobs);
        let mut c = v.clone();
        c.scenario = Scenario::single(stmts);
        c.scenario.sim = v.scenario.sim.clone();
        c.scenario.entropy = v.scenario.entropy;
        c.scenario.table_dims = v.scenario.table_dims;
        c.stmt = idx;
        return Some(c);
    }
    let e = expect_from_reference(&refrep, idx, if aux.wrap == Wrap::Query { Some(&aux.sql.query) } else { None }, det)?;
    let (stmts, idx2) = stmts_for(aux, &aux.sql.knobs);
    debug_assert_eq!(idx, idx2);
    let mut c = v.clone();
    c.scenario = Scenario::single(stmts);
    c.scenario.sim = v.scenario.sim.clone();
    c.scenario.entropy = v.scenario.entropy;
    c.scenario.table_dims = v.scenario.table_dims;
    c.stmt = idx;
    c.expect = e;
    Some(c)
}

fn still_fails_diff(v: &Violation) -> Option<(String, String, u64, Vec<u32>)> {
    still_fails(v)
}
