//! Evaluation of a recorded expectation against a run.

use std::cmp::Ordering;

use crate::check::compare::{bag_diff, bag_included};
use crate::replay::{Expect, dec_rows};
use crate::script::{Outcome, RunReport};
use crate::sim::RunEnd;
use crate::sql::ast::{NullsOrder, OrderItem};
use crate::sql::eval::order_rows_cmp;
use crate::value::render_row;

pub fn keys_to_items(keys: &[(usize, bool, String)]) -> Vec<OrderItem> {
    keys.iter()
        .map(|(c, d, n)| OrderItem {
            col: *c,
            by_alias: false,
            desc: *d,
            nulls: match n.as_str() {
                "first" => NullsOrder::First,
                "last" => NullsOrder::Last,
                _ => NullsOrder::Default,
            },
        })
        .collect()
}

pub fn items_to_keys(items: &[OrderItem]) -> Vec<(usize, bool, String)> {
    items
        .iter()
        .map(|o| {
            (
                o.col,
                o.desc,
                match o.nulls {
                    NullsOrder::First => "first".to_string(),
                    NullsOrder::Last => "last".to_string(),
                    NullsOrder::Default => "default".to_string(),
                },
            )
        })
        .collect()
}

fn end_violation(rep: &RunReport) -> Option<(String, String)> {
    match &rep.end {
        RunEnd::Completed => None,
        RunEnd::LostWakeup { parked } => Some(("hang-lost-wakeup".into(), format!("no runnable task, no pending event; parked tasks {parked:?}; in flight {:?}; tasks {:?}\n{}", rep.in_flight, summarize_tasks(rep), rep.parked_desc.join("\n")))),
        RunEnd::NoProgress => Some(("hang-no-progress".into(), format!("step budget exhausted after {} steps; in flight {:?}", rep.stats.steps, rep.in_flight))),
        RunEnd::Panic { msg, task } => Some(("panic".into(), format!("panic in task {task}: {msg}"))),
    }
}

fn summarize_tasks(rep: &RunReport) -> Vec<String> {
    rep.task_table.iter().filter(|t| t.2 == "parked" || t.2 == "runnable").map(|t| format!("#{}:{}:{}polls{}", t.0, t.2, t.1, if t.3 { ":client" } else { "" })).collect()
}

/// Some((class, detail)) if the expectation is violated.
pub fn eval_expect(expect: &Expect, rep: &RunReport, session: usize, stmt: usize) -> Option<(String, String)> {
    if let Some(v) = end_violation(rep) {
        return Some(v);
    }
    if *expect == Expect::Completes {
        return None;
    }
    let o = match rep.outcomes.get(session).and_then(|s| s.get(stmt)) {
        Some(o) => &o.outcome,
        None => return Some(("not-reached".into(), "statement was not reached".into())),
    };
    if let Outcome::Panic { msg } = o {
        return Some(("panic".into(), format!("panic on the client side: {msg}")));
    }
    match expect {
        Expect::Completes | Expect::NoPanic => None,
        Expect::AllOf(members) => {
            let mut first: Option<(String, String)> = None;
            for m in members {
                match eval_expect(m, rep, session, stmt) {
                    None => return None,
                    Some(v) => {
                        if first.is_none() {
                            first = Some(v);
                        }
                    }
                }
            }
            first
        }
        Expect::Success => match o {
            Outcome::Error { msg, .. } => Some(("unexpected-error".into(), first_line(msg))),
            _ => None,
        },
        Expect::Failure => match o {
            Outcome::Rows(t) => Some(("unexpected-success".into(), format!("statement returned {} rows, an error was required", t.rows.len()))),
            _ => None,
        },
        Expect::SchemaConsistent => match o {
            Outcome::Rows(t) => t.type_mismatch.as_ref().map(|m| ("schema-mismatch".to_string(), m.clone())),
            _ => None,
        },
        Expect::Rows { rows, types, sorted_by, ordered_exact } => match o {
            Outcome::Error { msg, .. } => Some(("unexpected-error".into(), first_line(msg))),
            Outcome::Dropped { .. } => None,
            Outcome::Panic { .. } => unreachable!(),
            Outcome::Rows(t) => {
                if let Some(ty) = types {
                    if ty != &t.types {
                        return Some(("type-mismatch".into(), format!("announced types: expected {ty:?}, got {:?}", t.types)));
                    }
                }
                if let (Some(m), true) = (&t.type_mismatch, types.is_some()) {
                    return Some(("schema-mismatch".into(), m.clone()));
                }
                let exp = dec_rows(rows);
                let keys = keys_to_items(sorted_by);
                if !keys.is_empty() {
                    for w in t.rows.windows(2) {
                        if order_rows_cmp(&w[0], &w[1], &keys) == Ordering::Greater {
                            return Some(("not-sorted".into(), format!("{} precedes {}", render_row(&w[0]), render_row(&w[1]))));
                        }
                    }
                }
                if *ordered_exact {
                    if exp.len() != t.rows.len() {
                        return Some(("rows-mismatch".into(), format!("row count: expected {}, got {}", exp.len(), t.rows.len())));
                    }
                    for (i, (a, b)) in exp.iter().zip(t.rows.iter()).enumerate() {
                        if a.len() != b.len() || !a.iter().zip(b).all(|(x, y)| x.approx_same(y, 1e-9)) {
                            return Some(("rows-mismatch".into(), format!("row {i}: expected {} got {}", render_row(a), render_row(b))));
                        }
                    }
                    return None;
                }
                bag_diff(&exp, &t.rows, 1e-9).map(|d| ("rows-mismatch".to_string(), d))
            }
        },
        Expect::Slice { count, superset, sorted_by } => match o {
            Outcome::Error { msg, .. } => Some(("unexpected-error".into(), first_line(msg))),
            Outcome::Rows(t) => {
                if t.rows.len() != *count {
                    return Some(("rows-mismatch".into(), format!("slice row count: expected {count}, got {}", t.rows.len())));
                }
                let keys = keys_to_items(sorted_by);
                if !keys.is_empty() {
                    for w in t.rows.windows(2) {
                        if order_rows_cmp(&w[0], &w[1], &keys) == Ordering::Greater {
                            return Some(("not-sorted".into(), format!("{} precedes {}", render_row(&w[0]), render_row(&w[1]))));
                        }
                    }
                }
                if !bag_included(&t.rows, &dec_rows(superset)) {
                    return Some(("rows-mismatch".into(), "slice rows are not a sub-bag of the un-sliced result".into()));
                }
                None
            }
            _ => None,
        },
        Expect::Custom { check, data } => {
            if check == "describe" {
                // data = [(name, type)] from DESCRIBE; compare with what the
                // statement announces and produces
                let want: Vec<(String, String)> = serde_json::from_str(data).unwrap_or_default();
                return match o {
                    Outcome::Rows(t) => {
                        let got: Vec<(String, String)> = t.names.iter().cloned().zip(t.types.iter().cloned()).collect();
                        if got != want {
                            Some(("describe-mismatch".into(), format!("DESCRIBE says {want:?}, the result announces {got:?}")))
                        } else {
                            t.type_mismatch.as_ref().map(|m| ("schema-mismatch".to_string(), m.clone()))
                        }
                    }
                    _ => None,
                };
            }
            if check == "names" || check == "names_any" {
                return match o {
                    Outcome::Rows(t) => {
                        let ok = if check == "names" {
                            serde_json::from_str::<Vec<String>>(data).map(|w| w == t.names).unwrap_or(false)
                        } else {
                            serde_json::from_str::<Vec<Vec<String>>>(data).map(|w| w.iter().any(|x| x == &t.names)).unwrap_or(false)
                        };
                        if ok { None } else { Some(("names-mismatch".into(), format!("column names {:?}, expected {data}", t.names))) }
                    }
                    _ => None,
                };
            }
            if check == "count" {
                return match o {
                    Outcome::Rows(t) => {
                        let want: usize = data.parse().unwrap_or(0);
                        if t.rows.len() != want { Some(("rows-mismatch".into(), format!("row count: reference {want}, got {}", t.rows.len()))) } else { None }
                    }
                    Outcome::Error { msg, .. } => Some(("unexpected-error".into(), first_line(msg))),
                    _ => None,
                };
            }
            None
        }
    }
}

pub fn first_line(msg: &str) -> String {
    msg.lines().next().unwrap_or("").chars().take(300).collect()
}

/// Errors that mean "this engine does not implement the construct": counted
/// as rejected, never as pass or violation.
pub fn is_unsupported(msg: &str) -> bool {
    let m = msg.to_ascii_lowercase();
    m.contains("not implemented") || m.contains("not yet implemented") || m.contains("not yet supported") || m.contains("unsupported") || m.contains("not supported") || m.contains("cannot handle source type")
}
