pub mod c01;
pub mod c10;
pub mod c14;
pub mod c17;
pub mod c15;
pub mod c16;
pub mod c18;
pub mod c19;
pub mod supervise;
pub mod compare;
pub mod diff;
pub mod expect;
pub mod sqlcase;

use crate::campaign::still_fails;
use crate::campaign::Violation;
use crate::replay::{read_replay, scenario_from_file};
use crate::sql::eval::Dev;

/// Deviation switches allowed for `property`: those named by open entries of
/// known_findings.json (field "dev").
pub fn allowed_dev(property: &str) -> Dev {
    let path = format!("{}/known_findings.json", std::env::var("VERIF_ROOT").unwrap_or_else(|_| "/verif".into()));
    let mut d = Dev::default();
    if let Ok(s) = std::fs::read_to_string(path) {
        if let Ok(v) = serde_json::from_str::<serde_json::Value>(&s) {
            for f in v["findings"].as_array().cloned().unwrap_or_default() {
                if f["status"] != "open" {
                    continue;
                }
                let props: Vec<String> = f["properties"].as_array().map(|a| a.iter().filter_map(|x| x.as_str().map(|s| s.to_string())).collect()).unwrap_or_default();
                if !props.iter().any(|p| p == property) {
                    continue;
                }
                match f["dev"].as_str() {
                    Some("strict_and_or") => d.strict_and_or = true,
                    Some("filter_ignored") => d.filter_ignored = true,
                    Some("corr_agg_empty_null") => d.corr_agg_empty_null = true,
                    Some("quant_two_valued") => d.quant_two_valued = true,
                    Some("corr_null_outer") => d.corr_null_outer = true,
                    _ => {}
                }
            }
        }
    }
    d
}

pub fn dispatch(prop: &str, tier: &str) -> i32 {
    let quick = tier != "thorough";
    match prop {
        "C01" => {
            let mut cfg = crate::base_cfg("C01", tier);
            cfg.runs = if quick { 6000 } else { 400_000 };
            cfg.rule = "one run = one world: random tables (<=40 rows), random knobs and scheduling policy, 8 generated SELECTs compared with the R-SQL reference evaluator (bag equality, sortedness under ORDER BY, announced types). Non-trivial = at least two scheduling decisions with >1 runnable task and at least one Pending poll; distinct = distinct (knobs, policy, event-trace digest).".into();
            cfg.assumptions = vec!["R-SQL implements the documented semantics for exactly the generator's grammar".into(), "scalar function semantics beyond the small expression core are not covered (C05 n/a)".into()];
            let chk = c01::ModelCheck::new("C01", c01::Focus::General, allowed_dev("C01"));
            crate::finish(&cfg, &chk, serde_json::json!({}))
        }
        "C06" | "C07" | "C08" | "C09" => {
            let mut cfg = crate::base_cfg(prop, tier);
            let (focus, what) = match prop {
                "C06" => (c01::Focus::Joins, "join-heavy queries (cross/inner/left/right/semi, IN/EXISTS forms, equality and inequality conditions, NULL and duplicate keys), hash joins on or off per run"),
                "C07" => (c01::Focus::Aggregates, "GROUP BY / ROLLUP / CUBE / GROUPING(), DISTINCT, UNION and aggregates with DISTINCT and FILTER, rows split over 1-16 partitions"),
                "C08" => (c01::Focus::Sorting, "ORDER BY over 1-3 keys with every direction / NULLS placement, LIMIT/OFFSET around batch and input sizes, small batch sizes so inputs span many sort blocks"),
                _ => (c01::Focus::Subqueries, "scalar / EXISTS / IN / ANY / ALL / lateral subqueries (correlated or not), CTEs referenced several times, derived tables"),
            };
            cfg.runs = if quick { 4000 } else { 300_000 };
            cfg.rule = format!("one run = one world: random tables, knobs and scheduling policy, 8 generated SELECTs biased to {what}, compared with the R-SQL reference evaluator. Non-trivial = >=2 scheduling decisions with >1 runnable task and >=1 Pending poll; distinct = distinct (knobs, policy, event-trace digest).");
            cfg.assumptions = vec!["R-SQL implements the documented semantics for exactly the generator's grammar".into()];
            let p: &'static str = match prop { "C06" => "C06", "C07" => "C07", "C08" => "C08", _ => "C09" };
            let mut chk = c01::ModelCheck::new(p, focus, allowed_dev(prop));
            if prop == "C07" || prop == "C08" {
                chk.max_rows = 120;
            }
            crate::finish(&cfg, &chk, serde_json::json!({}))
        }
        "C14" => {
            let mut cfg = crate::base_cfg("C14", tier);
            cfg.runs = if quick { 4000 } else { 300_000 };
            cfg.rule = "one run = one engine with 1-3 sessions scheduled concurrently, each executing a generated history of 10-35 statements (CREATE/DROP SCHEMA/TABLE/VIEW with IF [NOT] EXISTS, INSERT VALUES/SELECT incl. self-reference, CREATE TABLE AS, SET/RESET, statements failing at bind time or at run time on a late row, interleaved with SELECT *, count(*), list_tables/list_schemas/list_views, SHOW); every statement's outcome is compared with a sequential catalog+table model per session. Non-trivial = >=2 scheduling decisions with choice and >=1 Pending poll.".into();
            cfg.assumptions = vec!["temporary objects only (the engine rejects persistent tables)".into(), "dropping a non-empty schema and dropping a table under a view are not generated (documentation silent)".into()];
            crate::finish(&cfg, &c14::CatalogCheck { big: true }, serde_json::json!({}))
        }
        "C18" => {
            let mut cfg = crate::base_cfg("C18", tier);
            cfg.runs = if quick { 3000 } else { 200_000 };
            cfg.rule = "one run = one world: for generated queries, a widened type palette (DECIMAL, DATE, TIMESTAMP, small/unsigned ints, REAL) and SELECT * of every table: DESCRIBE <stmt> must equal the announced output schema, and every produced array must carry the announced datatype. Non-trivial = >=2 scheduling decisions with choice and >=1 Pending poll.".into();
            cfg.assumptions = vec!["no schedule or fault is in the property's statement; it is monitored on simulated runs (see DESIGN 3 C18)".into()];
            crate::finish(&cfg, &c18::SchemaCheck, serde_json::json!({}))
        }
        "C17" => {
            let mut cfg = crate::base_cfg(prop, tier);
            cfg.runs = if quick { 4000 } else { 400_000 };
            cfg.rule = "one run = one generated CSV/TSV file (8 dialects x header/no header x column kinds x quoting styles x LF/CRLF x trailing newline or not, 0-1200 records, below and above the 4 KiB inference sample) read by SELECT *, DESCRIBE and the bare-path form through SimFs in the reference configuration and in 2-3 seeded configurations (read granularity 1 byte .. whole, Pending reads/opens, batch 1-8192, partitions 1-8, scheduling policy); every outcome must equal the harness's own RFC-4180 parse (R-CSV) typed by the narrowest-type rule over the sampled records, and all configurations must agree. Non-trivial = >=1 fired fault (short read, Pending I/O) or >=2 scheduling decisions with choice; distinct = distinct (scan configuration, event-trace digest).".to_string();
            cfg.assumptions = vec!["R-CSV (the harness's RFC-4180 state machine) and Rust's bool/i64/f64 text parsers define 'fits'".into(), "dialect is existential unless the generating dialect is the only one satisfying the documented inference criteria on the sample".into()];
            let chk = c17::CsvCheck { property: "C17", mode: c17::CsvMode::Single };
            crate::finish(&cfg, &chk, serde_json::json!({}))
        }
        "C10" => {
            let mut cfg = crate::base_cfg(prop, tier);
            cfg.runs = if quick { 2500 } else { 300_000 };
            cfg.rule = "one run = one Parquet file produced by the harness's own writer (21 physical/logical type combinations, PLAIN / dictionary (+fallback) / RLE / DELTA_BINARY_PACKED / DELTA_LENGTH_BYTE_ARRAY / DELTA_BYTE_ARRAY / BYTE_STREAM_SPLIT, v1/v2 pages of 1..100000 values, 7 codecs, required/optional with NULL patterns, 0-1200 rows in 1..n row groups, annotation styles, padding) read by SELECT *, SELECT _rowid,*, DESCRIBE and the parquet metadata functions through SimFs in the reference configuration and 2-3 seeded configurations (read granularity 1 byte .. whole, Pending seeks/reads, batch 1-8192, partitions 1-8, scheduling policy). Expected = the rows, types and footer facts the writer was given. Non-trivial = >=1 fired fault or >=2 scheduling decisions with choice; distinct = distinct (scan configuration, event-trace digest).".into();
            cfg.assumptions = vec!["breadth is bounded by what the harness writer can encode (flat schemas; no nested types, no page indexes, no bloom filters, no encryption)".into(), "third-party codec crates (snap, flate2, brotli, lz4_flex, zstd) produce valid streams".into()];
            let chk = c10::PqCheck { property: "C10", mode: c10::PqMode::Read };
            crate::finish(&cfg, &chk, serde_json::json!({}))
        }
        "C11" => {
            let mut cfg = crate::base_cfg(prop, tier);
            cfg.runs = if quick { 3000 } else { 400_000 };
            cfg.rule = "even runs: 1-6 generated CSV files of one schema in nested directories read through a file list, a glob and GROUP BY _filename (shuffled/chunked/Pending listings, partitions 1-8, short reads) plus projections/predicates over the first file: result = bag union of the files' reference rows, each file exactly once. Odd runs: one generated Parquet file (integer/text/bool columns, 1-40-row row groups, statistics exact / deprecated-only / widened-inexact / null-count-only / absent, signed and unsigned, NULL-only chunks) queried with projections (subset, reorder, repeat, _rowid) and predicates (col = const at / next to occurring values with and without a cast to the column type, >, IS [NOT] NULL, text equality) with the optimizer on or off: result = reference rows filtered by the harness. Non-trivial = >=1 fired fault or >=2 scheduling decisions with choice.".into();
            cfg.assumptions = vec!["'**' is only generated where zero-directory and one-or-more-directory readings agree".into(), "statistics written by the harness are truthful (lying statistics belong to C19)".into()];
            let chk = Composite { a: Box::new(c17::CsvCheck { property: "C11", mode: c17::CsvMode::Multi }), b: Box::new(c10::PqCheck { property: "C11", mode: c10::PqMode::Pushdown }) };
            crate::finish(&cfg, &chk, serde_json::json!({}))
        }
        "C16" => {
            let mut cfg = crate::base_cfg("C16", tier);
            let asan = std::env::var("VERIF_FLAVOR").map(|f| f == "asan").unwrap_or(false);
            cfg.runs = if quick { if asan { 250 } else { 6000 } } else if asan { 60_000 } else { 400_000 };
            cfg.rule = format!("memory-safety monitor ({}): one run = one world of one of eight workloads (aggregate-, join-, sort-, subquery-focused and general generated queries against tables of up to 120 rows incl. strings around the 12-byte inline threshold, DDL/DML histories with tiny table segments, harness-written Parquet files, generated CSV files) under random knobs (partitions 1-16, batch 1-8192) and scheduling policies. A run is a violation iff an engine assertion or a Rust safety check panics, or the process dies (located by the supervising parent). Non-trivial = >=2 scheduling decisions with choice and >=1 Pending poll, or >=1 fired fault; distinct = distinct (knobs, policy, event-trace digest).", if asan { "AddressSanitizer build: heap-buffer-overflow, use-after-free, double free abort the child" } else { "build with debug assertions and overflow checks: engine debug_assert!, raw-pointer alignment/null checks, slice bounds" });
            cfg.assumptions = vec!["this layer executes one poll at a time on one thread: data races between partitions inside a poll are not observable here (see the Miri part and DESIGN 3 C16)".into(), "wrong rows are not counted here".into()];
            if asan {
                cfg.components_real.push("built with -Zsanitizer=address (nightly)".into());
            }
            crate::finish(&cfg, &c16::MemCheck::new(), serde_json::json!({"flavor": if asan { "asan" } else { "debug-assertions" }}))
        }
        "C19" => supervise::run(&c19::C19Source, tier),
        "C15" => supervise::run(&c15::C15Source, tier),
        "C02" | "C03" | "C04" => {
            let mut cfg = crate::base_cfg(prop, tier);
            let (mode, runs, rule) = match prop {
                "C02" => (diff::DiffMode::Optimizer, if quick { 3000 } else { 300_000 }, "one run = random tables + 6 generated queries executed twice in fresh worlds with identical knobs and scheduling policy, differing only in SET enable_optimizer; rows compared as bags (sortedness under ORDER BY, count only where the query is legitimately non-deterministic)"),
                "C03" => (diff::DiffMode::Config, if quick { 2500 } else { 200_000 }, "one run = random tables + 6 generated statements (queries, CREATE TABLE AS, INSERT..SELECT followed by SELECT *) executed in the reference configuration (1 partition, batch 2048, canonical schedule) and in 2-3 random configurations (partitions 1-16, batch 1-8192, hash joins on/off, random policy); rows and reported counts compared"),
                _ => (diff::DiffMode::Schedule, if quick { 2500 } else { 200_000 }, "one run = random tables + 6 generated statements executed under the canonical schedule and under 3 other scheduling policies (one with spurious/duplicate/delayed wake-ups), identical knobs; invariants: no lost wake-up (strict mode), step bound, same rows as the sequential run, finished tasks never polled again"),
            };
            cfg.runs = runs;
            cfg.rule = format!("{rule}. Non-trivial = >=2 scheduling decisions with >1 runnable task and >=1 Pending poll, or >=1 fired fault; distinct = distinct (knobs, policy, event-trace digest).");
            cfg.assumptions = vec!["the model evaluator is used only to classify a query as deterministic / count-only / may-error, never for expected rows".into()];
            let chk = diff::DiffCheck::new(match prop { "C02" => "C02", "C03" => "C03", _ => "C04" }, mode);
            crate::finish(&cfg, &chk, serde_json::json!({}))
        }
        _ => {
            eprintln!("unknown property {prop}");
            2
        }
    }
}

/// Determinism self-test: run `n` C01-style worlds and print one digest per
/// run (event trace + results). Two processes must print identical output.
pub fn selftest_determinism(n: u64) -> i32 {
    use crate::campaign::{Check, Stats};
    let seed = std::env::var("VERIF_SEED").ok().and_then(|s| s.parse().ok()).unwrap_or(1u64);
    let threads = std::env::var("VERIF_THREADS").ok().and_then(|s| s.parse().ok()).unwrap_or(16usize);
    let root = crate::rng::Rng::new(seed).fork("selftest");
    let results = std::sync::Mutex::new(std::collections::BTreeMap::new());
    let next = std::sync::atomic::AtomicU64::new(0);
    std::thread::scope(|s| {
        for _ in 0..threads {
            std::thread::Builder::new()
                .stack_size(256 << 20)
                .spawn_scoped(s, || {
                    crate::sim::install_quiet_panic_hook();
                    loop {
                        let run = next.fetch_add(1, std::sync::atomic::Ordering::Relaxed);
                        if run >= n {
                            break;
                        }
                        let mut st = Stats::default();
                        let chk: Box<dyn Check> = match run % 9 {
                            0 => Box::new(c01::ModelCheck::new("C01", c01::Focus::General, Dev::default())),
                            1 => Box::new(diff::DiffCheck::new("C04", diff::DiffMode::Schedule)),
                            2 => Box::new(diff::DiffCheck::new("C03", diff::DiffMode::Config)),
                            3 => Box::new(c10::PqCheck { property: "C10", mode: c10::PqMode::Read }),
                            4 => Box::new(c10::PqCheck { property: "C11", mode: c10::PqMode::Pushdown }),
                            5 => Box::new(c17::CsvCheck { property: "C17", mode: c17::CsvMode::Single }),
                            6 => Box::new(c17::CsvCheck { property: "C11", mode: c17::CsvMode::Multi }),
                            7 => Box::new(c14::CatalogCheck { big: true }),
                            _ => Box::new(c18::SchemaCheck),
                        };
                        let vs = chk.run_one(run, root.fork_idx("run", run), &mut st);
                        let mut d = crate::rng::Digest::new();
                        for k in &st.nontrivial {
                            d.u64(*k);
                        }
                        d.u64(st.steps);
                        d.u64(st.statements);
                        d.u64(vs.len() as u64);
                        for v in &vs {
                            d.str(&v.class);
                            d.u64(v.trace);
                        }
                        results.lock().unwrap().insert(run, d.0);
                    }
                })
                .unwrap();
        }
    });
    for (run, d) in results.into_inner().unwrap() {
        println!("{run} {d:016x}");
    }
    0
}

pub fn replay_file(path: &str) -> i32 {
    if std::fs::read_to_string(path).map(|s| s.contains("\"layer\": \"L1-crash\"")).unwrap_or(false) {
        return crate::replay_crash(path);
    }
    let r = match read_replay(path) {
        Ok(r) => r,
        Err(e) => {
            eprintln!("harness error: {e}");
            return 2;
        }
    };
    if r.layer == "L1-child" {
        return supervise::replay(path, &r.property);
    }
    let v = Violation {
        property: r.property.clone(),
        class: r.class.clone(),
        scenario: scenario_from_file(&r.scenario),
        choices: r.choices.clone(),
        session: r.session,
        stmt: r.stmt,
        expect: r.expect.clone(),
        observed: String::new(),
        detail: String::new(),
        trace: 0,
        aux: None,
    };
    match still_fails(&v) {
        Some((detail, observed, trace, _)) => {
            println!("VIOLATION property={} replay={}", r.property, path);
            println!("  class={} session={} stmt={}", r.class, r.session, r.stmt);
            println!("  {detail}");
            println!("  observed: {observed}");
            let d = format!("{trace:016x}");
            if d != r.trace_digest {
                eprintln!("harness error: event-trace digest differs from the recorded one ({d} vs {}): determinism lost", r.trace_digest);
                return 2;
            }
            1
        }
        None => {
            println!("replay of {path}: the recorded violation (class {}) did not reproduce", r.class);
            0
        }
    }
}

/// Alternates two checks by run parity; shrinking is offered by both (each
/// recognises its own violations by the auxiliary data they carry).
pub struct Composite {
    pub a: Box<dyn crate::campaign::Check>,
    pub b: Box<dyn crate::campaign::Check>,
}

impl crate::campaign::Check for Composite {
    fn run_one(&self, run: u64, rng: crate::rng::Rng, stats: &mut crate::campaign::Stats) -> Vec<Violation> {
        if run % 2 == 0 { self.a.run_one(run / 2, rng, stats) } else { self.b.run_one(run / 2, rng, stats) }
    }
    fn shrink(&self, v: &Violation) -> Vec<Violation> {
        let mut c = self.a.shrink(v);
        c.extend(self.b.shrink(v));
        c
    }
    fn describe(&self, v: &Violation) -> Option<String> {
        self.a.describe(v).or_else(|| self.b.describe(v))
    }
}
