pub mod c01;
pub mod compare;
pub mod expect;
pub mod sqlcase;

use crate::campaign::still_fails;
use crate::campaign::Violation;
use crate::replay::{read_replay, scenario_from_file};
use crate::sql::eval::Dev;

/// Deviation switches allowed for `property`: those named by open entries of
/// known_findings.json (field "dev").
pub fn allowed_dev(property: &str) -> Dev {
    let path = format!("{}/known_findings.json", std::env::var("VERIF_ROOT").unwrap_or_else(|_| "/verif".into()));
    let mut d = Dev::default();
    if let Ok(s) = std::fs::read_to_string(path) {
        if let Ok(v) = serde_json::from_str::<serde_json::Value>(&s) {
            for f in v["findings"].as_array().cloned().unwrap_or_default() {
                if f["status"] != "open" {
                    continue;
                }
                let props: Vec<String> = f["properties"].as_array().map(|a| a.iter().filter_map(|x| x.as_str().map(|s| s.to_string())).collect()).unwrap_or_default();
                if !props.iter().any(|p| p == property) {
                    continue;
                }
                match f["dev"].as_str() {
                    Some("strict_and_or") => d.strict_and_or = true,
                    Some("filter_ignored") => d.filter_ignored = true,
                    Some("corr_agg_empty_null") => d.corr_agg_empty_null = true,
                    Some("quant_two_valued") => d.quant_two_valued = true,
                    _ => {}
                }
            }
        }
    }
    d
}

pub fn dispatch(prop: &str, tier: &str) -> i32 {
    let quick = tier != "thorough";
    match prop {
        "C01" => {
            let mut cfg = crate::base_cfg("C01", tier);
            cfg.runs = if quick { 6000 } else { 400_000 };
            cfg.rule = "one run = one world: random tables (<=40 rows), random knobs and scheduling policy, 8 generated SELECTs compared with the R-SQL reference evaluator (bag equality, sortedness under ORDER BY, announced types). Non-trivial = at least two scheduling decisions with >1 runnable task and at least one Pending poll; distinct = distinct (knobs, policy, event-trace digest).".into();
            cfg.assumptions = vec!["R-SQL implements the documented semantics for exactly the generator's grammar".into(), "scalar function semantics beyond the small expression core are not covered (C05 n/a)".into()];
            let chk = c01::ModelCheck::new("C01", c01::Focus::General, allowed_dev("C01"));
            crate::finish(&cfg, &chk, serde_json::json!({}))
        }
        _ => {
            eprintln!("unknown property {prop}");
            2
        }
    }
}

pub fn replay_file(path: &str) -> i32 {
    let r = match read_replay(path) {
        Ok(r) => r,
        Err(e) => {
            eprintln!("harness error: {e}");
            return 2;
        }
    };
    let v = Violation {
        property: r.property.clone(),
        class: r.class.clone(),
        scenario: scenario_from_file(&r.scenario),
        choices: r.choices.clone(),
        session: r.session,
        stmt: r.stmt,
        expect: r.expect.clone(),
        observed: String::new(),
        detail: String::new(),
        trace: 0,
        aux: None,
    };
    match still_fails(&v) {
        Some((detail, observed, trace, _)) => {
            println!("VIOLATION property={} replay={}", r.property, path);
            println!("  class={} session={} stmt={}", r.class, r.session, r.stmt);
            println!("  {detail}");
            println!("  observed: {observed}");
            let d = format!("{trace:016x}");
            if d != r.trace_digest {
                eprintln!("harness error: event-trace digest differs from the recorded one ({d} vs {}): determinism lost", r.trace_digest);
                return 2;
            }
            1
        }
        None => {
            println!("replay of {path}: the recorded violation (class {}) did not reproduce", r.class);
            0
        }
    }
}
