//! Shared machinery for checks that run generated SQL against R-SQL or against
//! a reference configuration.

use std::sync::Arc;

use crate::campaign::{Stats, Violation};
use crate::check::expect::{eval_expect, is_unsupported, items_to_keys};
use crate::replay::{Expect, enc_rows, observe};
use crate::rng::Rng;
use crate::script::{Outcome, RunReport, Scenario, Stmt};
use crate::sim::{Policy, SimConfig};
use crate::sql::ast::*;
use crate::sql::eval::{Db, Dev, Eval, EvalErr};
use crate::sql::print;
use crate::sql::qgen::{TableDef, setup_sql};

#[derive(Debug, Clone, PartialEq)]
pub struct Knobs {
    pub partitions: u32,
    pub batch_size: u32,
    pub optimizer: bool,
    pub hash_joins: bool,
}

impl Knobs {
    pub fn reference() -> Knobs {
        Knobs { partitions: 1, batch_size: 2048, optimizer: true, hash_joins: true }
    }

    pub fn draw(rng: &mut Rng, small_batches: bool) -> Knobs {
        let partitions = *rng.pick_weighted(&[(2, 1u32), (3, 2), (2, 3), (3, 4), (1, 7), (1, 8), (1, 16)]);
        let batch_size = if small_batches { *rng.pick(&[1u32, 2, 3, 5, 8, 16, 64, 1024, 2048, 2048, 4096, 8192]) } else { *rng.pick(&[2048u32, 2048, 4096, 8192]) };
        Knobs { partitions, batch_size, optimizer: rng.chance(3, 4), hash_joins: rng.chance(3, 4) }
    }

    pub fn set_stmts(&self) -> Vec<Stmt> {
        vec![
            Stmt::new(format!("SET partitions TO {}", self.partitions)),
            Stmt::new(format!("SET batch_size TO {}", self.batch_size)),
            Stmt::new(format!("SET enable_optimizer TO {}", self.optimizer)),
            Stmt::new(format!("SET enable_hash_joins TO {}", self.hash_joins)),
        ]
    }

    pub fn key(&self) -> u64 {
        (self.partitions as u64) << 32 | (self.batch_size as u64) << 2 | (self.optimizer as u64) << 1 | self.hash_joins as u64
    }
}

pub fn draw_sim(rng: &mut Rng, noisy_ok: bool) -> SimConfig {
    SimConfig { policy: Policy::draw(rng), noisy: noisy_ok && rng.chance(1, 4), max_steps: 400_000, default_partitions: 4, keep_events: 0 }
}

pub fn db_of(tables: &[TableDef]) -> Db {
    let mut db = Db::default();
    for t in tables {
        db.tables.insert(t.name.clone(), t.data.clone());
    }
    db
}

/// What the model says about a query.
pub enum ModelSays {
    Expect(Expect, Vec<&'static str>),
    /// a run-time error may occur; any clean outcome is fine
    MayError(String),
    Ambiguous,
    Skip(String),
}

pub fn model_expect(db: &Db, q: &Query, dev: &Dev) -> ModelSays {
    let mut ev = Eval::new(db, dev.clone());
    let (full, sliced) = match ev.query_full(q, None, None) {
        Ok(x) => x,
        Err(EvalErr::Runtime(m)) => return ModelSays::MayError(m),
        Err(EvalErr::Budget) => return ModelSays::Skip("budget".into()),
        Err(EvalErr::Unsupported(m)) => return ModelSays::Skip(format!("unsupported:{m}")),
    };
    let fired: Vec<&'static str> = ev.dev_fired.iter().copied().collect();
    let types: Vec<String> = q.out.iter().map(|o| o.1.engine().to_string()).collect();
    let sorted_by = items_to_keys(&q.order_by);
    if ev.dialect_ambiguous {
        return ModelSays::Ambiguous;
    }
    if ev.ambiguous {
        // If the only source of ambiguity can be the top-level slice, the weak
        // check applies; we cannot tell it apart from inner ambiguity, so only
        // top-level queries without nested LIMIT get the weak check.
        if (q.limit.is_some() || q.offset.is_some()) && !has_inner_limit(q) {
            return ModelSays::Expect(Expect::Slice { count: sliced.len(), superset: enc_rows(&full), sorted_by }, fired);
        }
        return ModelSays::Ambiguous;
    }
    ModelSays::Expect(Expect::Rows { rows: enc_rows(&sliced), types: Some(types), sorted_by, ordered_exact: false }, fired)
}

fn has_inner_limit(q: &Query) -> bool {
    let mut c = q.clone();
    let mut n = 0usize;
    let mut first = true;
    crate::sql::shrink::visit_query_mut(&mut c, &mut |_| {}, &mut |qq| {
        if first {
            first = false;
        } else if qq.limit.is_some() || qq.offset.is_some() {
            n += 1;
        }
    });
    n > 0
}

/// Expectation that is violated only if the engine agrees neither with the
/// strict model nor with the model under the recorded deviations.
pub fn model_expect_both(db: &Db, q: &Query, allowed: &Dev) -> ModelSays {
    let strict = model_expect(db, q, &Dev::default());
    if *allowed == Dev::default() {
        return strict;
    }
    match strict {
        ModelSays::Expect(e, f) => match model_expect(db, q, allowed) {
            ModelSays::Expect(e2, _) => {
                if e2 == e {
                    ModelSays::Expect(e, f)
                } else {
                    ModelSays::Expect(Expect::AllOf(vec![e, e2]), f)
                }
            }
            // under the deviations the model cannot tell: do not shrink into it
            _ => ModelSays::Ambiguous,
        },
        other => other,
    }
}

/// Auxiliary data kept with a violation so that it can be shrunk at AST level.
#[derive(Debug, Clone)]
pub struct SqlAux {
    pub tables: Vec<TableDef>,
    pub views: Vec<(String, Query)>,
    pub query: Query,
    pub knobs: Knobs,
    pub chunk: usize,
    pub dev: Dev,
}

pub fn scenario_for(aux: &SqlAux, sim: &SimConfig, entropy: u64) -> (Scenario, usize) {
    let mut stmts = aux.knobs.set_stmts();
    stmts.extend(setup_sql(&aux.tables, aux.chunk).into_iter().map(Stmt::new));
    for (name, q) in &aux.views {
        stmts.push(Stmt::new(format!("CREATE TEMP VIEW {} AS {}", print::ident(name, false), print::query(q))));
    }
    let idx = stmts.len();
    stmts.push(Stmt::new(print::query(&aux.query)));
    let mut sc = Scenario::single(stmts);
    sc.sim = sim.clone();
    sc.entropy = entropy;
    (sc, idx)
}

pub fn db_of_aux(aux: &SqlAux) -> Db {
    let mut db = db_of(&aux.tables);
    for (n, q) in &aux.views {
        db.views.insert(n.clone(), q.clone());
    }
    db
}

/// AST-level shrink candidates for a model-vs-engine violation.
pub fn shrink_model_violation(v: &Violation) -> Vec<Violation> {
    let aux: SqlAux = match v.aux.as_ref().and_then(|a| a.downcast_ref::<SqlAux>()) {
        Some(a) => a.clone(),
        None => return vec![],
    };
    let aux = &aux;
    let mut out = Vec::new();
    let mut push = |aux2: SqlAux| {
        let db = db_of_aux(&aux2);
        if let ModelSays::Expect(e, _) = model_expect(&db, &aux2.query, &aux2.dev) {
            let (sc, idx) = scenario_for(&aux2, &v.scenario.sim, v.scenario.entropy);
            let mut c = v.clone();
            c.scenario = sc;
            c.stmt = idx;
            c.session = 0;
            c.expect = e;
            c.aux = Some(Arc::new(aux2));
            out.push(c);
        }
    };
    // fewer knobs first
    if aux.knobs != Knobs::reference() {
        let mut a = aux.clone();
        a.knobs = Knobs::reference();
        push(a);
        for k in 0..4 {
            let mut a = aux.clone();
            let r = Knobs::reference();
            match k {
                0 => a.knobs.partitions = r.partitions,
                1 => a.knobs.batch_size = r.batch_size,
                2 => a.knobs.optimizer = r.optimizer,
                _ => a.knobs.hash_joins = r.hash_joins,
            }
            if a.knobs != aux.knobs {
                push(a);
            }
        }
    }
    for q in crate::sql::shrink::candidates(&aux.query) {
        let mut a = aux.clone();
        a.query = q;
        push(a);
    }
    // tables: drop whole tables, halves, single rows
    for ti in 0..aux.tables.len() {
        if aux.tables.len() > 1 {
            let mut a = aux.clone();
            a.tables.remove(ti);
            push(a);
        }
        let n = aux.tables[ti].data.rows.len();
        if n > 1 {
            let mut a = aux.clone();
            a.tables[ti].data.rows.truncate(n / 2);
            push(a);
            let mut a = aux.clone();
            a.tables[ti].data.rows.drain(0..n / 2);
            push(a);
        }
        if n > 0 && n <= 12 {
            for ri in 0..n {
                let mut a = aux.clone();
                a.tables[ti].data.rows.remove(ri);
                push(a);
            }
        }
    }
    out
}

/// Classify one query outcome against the model; returns a violation if any.
#[allow(clippy::too_many_arguments)]
pub fn judge_against_model(
    property: &str,
    rep: &RunReport,
    sc: &Scenario,
    stmt: usize,
    db: &Db,
    q: &Query,
    allowed_dev: &Dev,
    stats: &mut Stats,
) -> Option<Violation> {
    let o = match rep.outcomes[0].get(stmt) {
        Some(o) => &o.outcome,
        None => return None,
    };
    let says = model_expect(db, q, &Dev::default());
    let mk = |class: String, detail: String, expect: Expect| Violation {
        property: property.to_string(),
        class,
        scenario: sc.clone(),
        choices: rep.choices.clone(),
        session: 0,
        stmt,
        expect,
        observed: observe(rep, 0, stmt),
        detail,
        trace: rep.trace,
        aux: None,
    };
    if let Outcome::Panic { msg } = o {
        stats.count("verdict.panic");
        return Some(mk("panic".into(), format!("panic on the client side: {msg}"), Expect::NoPanic));
    }
    match says {
        ModelSays::MayError(_) => {
            stats.count("verdict.model_may_error");
            None
        }
        ModelSays::Ambiguous => {
            stats.count("verdict.ambiguous");
            None
        }
        ModelSays::Skip(m) => {
            stats.count(&format!("verdict.skipped.{}", m.split(':').next().unwrap_or("")));
            None
        }
        ModelSays::Expect(e, _) => {
            if let Outcome::Error { msg, planned } = o {
                if is_unsupported(msg) {
                    stats.count("verdict.rejected_unsupported");
                    return None;
                }
                if !planned {
                    stats.count("verdict.rejected_plan_error");
                    let short: String = msg.lines().next().unwrap_or("").split(|c: char| c.is_ascii_digit()).next().unwrap_or("").chars().take(48).collect();
                    stats.count(&format!("plan_error.{short}"));
                    return None;
                }
            }
            match eval_expect(&e, rep, 0, stmt) {
                None => {
                    stats.count(if matches!(e, Expect::Slice { .. }) { "verdict.match_weak_slice" } else { "verdict.match" });
                    None
                }
                Some((class, detail)) => {
                    // explained by recorded deviations?
                    if *allowed_dev != Dev::default() {
                        match model_expect(db, q, allowed_dev) {
                            ModelSays::Expect(e2, fired) => {
                                if !fired.is_empty() && eval_expect(&e2, rep, 0, stmt).is_none() {
                                    for f in fired {
                                        stats.count(&format!("known_dev.{f}"));
                                    }
                                    return None;
                                }
                            }
                            _ => {
                                // with the recorded deviations on, the model can
                                // no longer tell (dialect-ambiguous / may error)
                                stats.count("verdict.ambiguous_under_deviations");
                                return None;
                            }
                        }
                    }
                    stats.count("verdict.violation");
                    let e_final = match model_expect_both(db, q, allowed_dev) {
                        ModelSays::Expect(e2, _) => e2,
                        _ => e,
                    };
                    Some(mk(class, detail, e_final))
                }
            }
        }
    }
}

pub type AuxArc = Arc<SqlAux>;
