//! Supervised case enumeration in child worker processes (C15, C19).
//!
//! A `CaseSource` splits its work into jobs, a job into cases. Workers run the
//! cases of one job in order and report each on a pipe; the supervisor turns a
//! dead or silent worker into a violation of the case in flight and restarts
//! the job behind it.

use std::collections::BTreeMap;
use std::io::{BufRead, BufReader, Write};
use std::process::{Command, Stdio};
use std::sync::Mutex;
use std::sync::atomic::{AtomicUsize, Ordering};
use std::time::{Duration, Instant};

use serde_json::json;

use crate::campaign::{KnownFinding, load_known};
use crate::replay::{Expect, ReplayFile, scenario_to_file, write_replay};
use crate::rng::{Digest, Rng};
use crate::script::{Outcome, Scenario, run_scenario};
use crate::sim::{Chooser, RunEnd};

pub trait Job {
    fn num_cases(&self) -> usize;
    /// (class or "ok", detail, outcome digest)
    fn run_case(&self, case: usize) -> (String, String, u64);
    fn scenario(&self, case: usize) -> Scenario;
    fn describe(&self, case: usize) -> String;
    fn sample(&self, total_cases: Option<usize>) -> serde_json::Value;
}

pub trait CaseSource: Sync {
    fn name(&self) -> &'static str;
    fn property(&self) -> &'static str;
    fn level(&self) -> &'static str;
    fn rule(&self) -> String;
    fn exhaustive(&self) -> bool;
    fn assumptions(&self) -> Vec<String>;
    fn extra_evidence(&self) -> serde_json::Value {
        json!({})
    }
    fn num_jobs(&self, seed: u64, thorough: bool) -> usize;
    /// a worker that reports nothing for this long is killed (hang)
    fn silence_limit_s(&self) -> u64 {
        40
    }
    fn job(&self, seed: u64, thorough: bool, idx: usize) -> Option<Box<dyn Job>>;
}

pub fn source_by_name(name: &str) -> Option<Box<dyn CaseSource>> {
    match name {
        "c19" => Some(Box::new(crate::check::c19::C19Source)),
        "c15" => Some(Box::new(crate::check::c15::C15Source)),
        _ => None,
    }
}

pub fn signature(class: &str, detail: &str) -> String {
    // digits are noise (lengths, indexes); the panic location stays
    let (msg, loc) = match detail.rfind(" @ ") {
        Some(i) => (&detail[..i], &detail[i + 3..]),
        None => (detail, ""),
    };
    let norm: String = msg.chars().map(|c| if c.is_ascii_digit() { '#' } else { c }).collect();
    let mut norm2 = String::new();
    let mut prev = ' ';
    for c in norm.chars() {
        if !(c == '#' && prev == '#') {
            norm2.push(c);
        }
        prev = c;
    }
    let loc = loc.replace("/repo/crates/", "");
    format!("{class}|{}|{}", norm2.chars().take(110).collect::<String>(), loc)
}

// ---------------------------------------------------------------------------
// Worker (child process)

/// `glaresim sup-worker <check> <seed> <tier> <job> <from_case>`
pub fn worker_main(args: &[String]) -> i32 {
    let src = match source_by_name(args.first().map(|s| s.as_str()).unwrap_or("")) {
        Some(s) => s,
        None => return 2,
    };
    let args = &args[1..];
    let seed: u64 = args.first().and_then(|s| s.parse().ok()).unwrap_or(1);
    let thorough = args.get(1).map(|s| s == "thorough").unwrap_or(false);
    let file_idx: usize = args.get(2).and_then(|s| s.parse().ok()).unwrap_or(0);
    let from: usize = args.get(3).and_then(|s| s.parse().ok()).unwrap_or(0);
    let only: Option<usize> = args.get(4).and_then(|s| s.parse().ok());
    // allocation without bound must fail inside the worker, not take the box down
    unsafe {
        let lim = libc::rlimit { rlim_cur: 6 << 30, rlim_max: 6 << 30 };
        libc::setrlimit(libc::RLIMIT_AS, &lim);
    }
    let job = match src.job(seed, thorough, file_idx) {
        Some(j) => j,
        None => return 2,
    };
    let out = std::io::stdout();
    let ncases = job.num_cases();
    {
        let mut o = out.lock();
        let _ = writeln!(o, "N {ncases}");
        let _ = o.flush();
    }
    for i in from..ncases {
        if let Some(o) = only {
            if i != o {
                continue;
            }
        }
        {
            let mut o = out.lock();
            let _ = writeln!(o, "C {i}");
            let _ = o.flush();
        }
        let (class, detail, digest) = job.run_case(i);
        let mut o = out.lock();
        let _ = writeln!(o, "R {i} {class} {digest:016x} {}", detail.replace('\n', " "));
        let _ = o.flush();
    }
    let mut o = out.lock();
    let _ = writeln!(o, "E");
    let _ = o.flush();
    0
}

// ---------------------------------------------------------------------------
// Supervisor

#[derive(Debug, Clone)]
struct Finding {
    class: String,
    detail: String,
    file: usize,
    case: usize,
    count: u64,
}

fn matches_known<'a>(known: &'a [KnownFinding], property: &str, class: &str, detail: &str) -> Option<&'a KnownFinding> {
    known.iter().find(|k| k.status == "open" && k.properties.iter().any(|p| p == property) && (k.class.is_empty() || k.class == class) && (!k.contains.is_empty() || !k.any_of.is_empty()) && k.contains.iter().all(|c| detail.contains(c.as_str())) && (k.any_of.is_empty() || k.any_of.iter().any(|c| detail.contains(c.as_str()))))
}

pub fn run(src: &dyn CaseSource, tier: &str) -> i32 {
    let start = Instant::now();
    let prop = src.property();
    let thorough = tier == "thorough";
    let seed: u64 = std::env::var("VERIF_SEED").ok().and_then(|s| s.parse().ok()).unwrap_or(1);
    let threads: usize = std::env::var("VERIF_THREADS").ok().and_then(|s| s.parse().ok()).unwrap_or(16);
    let root = std::env::var("VERIF_ROOT").unwrap_or_else(|_| "/verif".into());
    let njobs = src.num_jobs(seed, thorough);
    let nfiles = std::env::var("VERIF_RUNS").ok().and_then(|s| s.parse::<usize>().ok()).map(|n| n.min(njobs)).unwrap_or(njobs);
    let src_name = src.name();
    let exe = std::env::current_exe().expect("current exe");
    let next = AtomicUsize::new(0);
    let findings: Mutex<BTreeMap<String, Finding>> = Mutex::new(BTreeMap::new());
    let totals: Mutex<(u64, u64, BTreeMap<String, u64>, std::collections::BTreeSet<u64>, Vec<serde_json::Value>)> = Mutex::new((0, 0, BTreeMap::new(), Default::default(), Vec::new()));
    let case_timeout = Duration::from_secs(src.silence_limit_s());

    std::thread::scope(|s| {
        for _ in 0..threads {
            s.spawn(|| {
                loop {
                    let fi = next.fetch_add(1, Ordering::Relaxed);
                    if fi >= nfiles {
                        break;
                    }
                    let mut from = 0usize;
                    let mut total_cases: Option<usize> = None;
                    let mut clean_digest: Option<u64> = None;
                    // restart the worker after every death until the file is done
                    loop {
                        let mut child = match Command::new(&exe).arg("sup-worker").arg(src_name).arg(seed.to_string()).arg(tier).arg(fi.to_string()).arg(from.to_string()).stdout(Stdio::piped()).stderr(Stdio::null()).spawn() {
                            Ok(c) => c,
                            Err(e) => {
                                eprintln!("harness error: cannot spawn worker: {e}");
                                return;
                            }
                        };
                        let stdout = child.stdout.take().unwrap();
                        let (tx, rx) = std::sync::mpsc::channel::<String>();
                        let reader = std::thread::spawn(move || {
                            for line in BufReader::new(stdout).lines().map_while(Result::ok) {
                                if tx.send(line).is_err() {
                                    break;
                                }
                            }
                        });
                        let mut in_flight: Option<usize> = None;
                        let mut finished = false;
                        let mut timed_out = false;
                        loop {
                            match rx.recv_timeout(case_timeout) {
                                Ok(line) => {
                                    let mut it = line.splitn(5, ' ');
                                    match it.next() {
                                        Some("N") => total_cases = it.next().and_then(|x| x.parse().ok()),
                                        Some("C") => in_flight = it.next().and_then(|x| x.parse().ok()),
                                        Some("R") => {
                                            let case: usize = it.next().and_then(|x| x.parse().ok()).unwrap_or(0);
                                            let class = it.next().unwrap_or("").to_string();
                                            let digest = u64::from_str_radix(it.next().unwrap_or("0"), 16).unwrap_or(0);
                                            let detail = it.next().unwrap_or("").to_string();
                                            in_flight = None;
                                            from = case + 1;
                                            let mut t = totals.lock().unwrap();
                                            t.0 += 1;
                                            if case == 0 {
                                                clean_digest = Some(digest);
                                                if class != "ok" {
                                                    *t.2.entry("clean_file_not_ok".into()).or_insert(0) += 1;
                                                }
                                            }
                                            if class == "ok" {
                                                if Some(digest) != clean_digest {
                                                    let mut dd = Digest::new();
                                                    dd.u64(fi as u64);
                                                    dd.u64(digest);
                                                    t.3.insert(dd.0);
                                                }
                                                *t.2.entry("outcome.rows_or_error".into()).or_insert(0) += 1;
                                            } else {
                                                *t.2.entry(format!("outcome.{class}")).or_insert(0) += 1;
                                                drop(t);
                                                let sig = signature(&class, &detail);
                                                let mut fs = findings.lock().unwrap();
                                                let e = fs.entry(sig).or_insert(Finding { class, detail, file: fi, case, count: 0 });
                                                e.count += 1;
                                            }
                                        }
                                        Some("E") => {
                                            finished = true;
                                            break;
                                        }
                                        _ => {}
                                    }
                                }
                                Err(std::sync::mpsc::RecvTimeoutError::Timeout) => {
                                    timed_out = true;
                                    let _ = child.kill();
                                    break;
                                }
                                Err(std::sync::mpsc::RecvTimeoutError::Disconnected) => break,
                            }
                        }
                        let status = child.wait().ok();
                        let _ = reader.join();
                        if finished {
                            break;
                        }
                        // the worker died or went silent
                        let case = in_flight.unwrap_or(from);
                        let (class, detail) = if timed_out {
                            ("hang-cpu".to_string(), format!("worker silent for {}s while running the case (endless loop without I/O)", case_timeout.as_secs()))
                        } else {
                            use std::os::unix::process::ExitStatusExt;
                            let sig = status.and_then(|s| s.signal());
                            ("process-died".to_string(), format!("worker process died (signal {sig:?}, status {status:?}): abort, stack overflow or failed allocation"))
                        };
                        {
                            let mut t = totals.lock().unwrap();
                            t.0 += 1;
                            *t.2.entry(format!("outcome.{class}")).or_insert(0) += 1;
                        }
                        // the dead worker cannot say what it ran: ask the job
                        let detail = match src.job(seed, thorough, fi) {
                            Some(j) => format!("{detail} ;; {}", j.describe(case).chars().take(300).collect::<String>()),
                            None => detail,
                        };
                        let sig = signature(&class, &format!("{} job={}", detail.chars().take(150).collect::<String>(), fi));
                        let mut fs = findings.lock().unwrap();
                        let e = fs.entry(sig).or_insert(Finding { class, detail, file: fi, case, count: 0 });
                        e.count += 1;
                        drop(fs);
                        from = case + 1;
                        if let Some(n) = total_cases {
                            if from >= n {
                                break;
                            }
                        } else {
                            // died before announcing its cases: give up on this file
                            break;
                        }
                    }
                    let mut t = totals.lock().unwrap();
                    t.1 += 1;
                    if t.4.len() < 3 {
                        if let Some(j) = src.job(seed, thorough, fi) {
                            t.4.push(j.sample(total_cases));
                        }
                    }
                }
            });
        }
    });

    let known = load_known(&format!("{root}/known_findings.json"));
    let findings = findings.into_inner().unwrap();
    let (cases_run, files_done, counters, distinct, samples) = totals.into_inner().unwrap();
    let mut violations = 0u64;
    let mut known_hits = 0u64;
    let replay_dir = std::env::var("VERIF_REPLAY_DIR").unwrap_or_else(|_| format!("{root}/replays"));
    let mut known_lines: std::collections::BTreeSet<String> = Default::default();
    let mut reported = 0usize;
    let max_report: usize = std::env::var("VERIF_MAX_REPORT").ok().and_then(|s| s.parse().ok()).unwrap_or(8);
    for (sig, f) in &findings {
        if let Some(k) = matches_known(&known, prop, &f.class, &f.detail) {
            known_hits += f.count;
            known_lines.insert(format!("KNOWN-FINDING: property={prop} {} [{}]", k.what, k.id));
            continue;
        }
        violations += 1;
        if reported >= max_report {
            continue;
        }
        reported += 1;
        // replay file: the scenario of the case, self-contained
        let job = match src.job(seed, thorough, f.file) {
            Some(j) => j,
            None => continue,
        };
        let sc = job.scenario(f.case);
        let what = job.describe(f.case);
        let file = ReplayFile {
            format: 1,
            property: prop.into(),
            class: f.class.clone(),
            layer: "L1-child".into(),
            seed,
            run: (f.file * 1_000_000 + f.case) as u64,
            tier: tier.to_string(),
            scenario: scenario_to_file(&sc),
            choices: vec![],
            session: 0,
            stmt: 2,
            expect: Expect::Completes,
            observed: format!("{} x{} ({})", sig, f.count, what),
            detail: f.detail.clone(),
            trace_digest: String::new(),
        };
        let path = write_replay(&replay_dir, &file).unwrap_or_else(|e| format!("<write failed: {e}>"));
        println!("VIOLATION property={prop} replay={path}");
        println!("  class={} count={} job={} case={} {}", f.class, f.count, f.file, f.case, what.chars().take(600).collect::<String>());
        println!("  {}", f.detail.chars().take(400).collect::<String>());
    }
    for l in &known_lines {
        println!("{l}");
    }
    let wall = start.elapsed().as_secs_f64();
    let nontrivial = distinct.len() as u64 + findings.len() as u64;
    let mut coverage = json!({
        "evaluations": cases_run, "distinct_nontrivial": nontrivial,
        "rule": src.rule(), "samples": samples, "exhaustive": src.exhaustive(),
        "jobs": files_done, "outcomes": counters, "distinct_violation_signatures": findings.len(), "known_findings_hit": known_hits,
        "runs_per_hour": (cases_run as f64 / wall.max(1e-9) * 3600.0) as u64,
        "components_real": ["glaredb_parser", "glaredb_core", "glaredb_ext_csv", "glaredb_ext_parquet"],
        "components_stub": ["thread pool (L1 SimRuntime)", "filesystems (SimFs)", "wall clock"],
    });
    if let (Some(c), Some(e)) = (coverage.as_object_mut(), src.extra_evidence().as_object()) {
        for (k, v) in e {
            c.insert(k.clone(), v.clone());
        }
    }
    let ev = json!({
        "property_id": prop, "tier": if thorough { "thorough" } else { "quick" }, "seed": seed, "level": src.level(),
        "coverage": coverage,
        "assumptions": src.assumptions(),
        "wall_s": wall, "violations": violations,
    });
    let evp = std::env::var("VERIF_EVIDENCE").unwrap_or_else(|_| format!("{root}/evidence/{prop}.json"));
    if let Err(e) = std::fs::write(&evp, serde_json::to_string_pretty(&ev).unwrap()) {
        eprintln!("harness error: cannot write evidence: {e}");
        return 2;
    }
    println!("{prop} {tier}: jobs={files_done} cases={cases_run} distinct_nontrivial={nontrivial} violation_signatures={violations} known={known_hits} wall={wall:.1}s");
    if files_done < nfiles as u64 {
        println!("harness error: only {files_done} of {nfiles} jobs were completed");
        return 2;
    }
    if violations > 0 { 1 } else { 0 }
}

/// Replay of a supervised case: run the recorded scenario in a child process so that
/// a crash is observed rather than suffered.
pub fn replay_child(path: &str) -> i32 {
    let r = match crate::replay::read_replay(path) {
        Ok(r) => r,
        Err(e) => {
            eprintln!("harness error: {e}");
            return 2;
        }
    };
    unsafe {
        let lim = libc::rlimit { rlim_cur: 6 << 30, rlim_max: 6 << 30 };
        libc::setrlimit(libc::RLIMIT_AS, &lim);
    }
    let sc = crate::replay::scenario_from_file(&r.scenario);
    let rep = run_scenario(&sc, Chooser::generating(Rng::new((r.run % 1_000_000) as u64)), None);
    let bad = match &rep.end {
        RunEnd::Completed => rep.fs_budget_exceeded || rep.outcomes[0].iter().any(|o| matches!(o.outcome, Outcome::Panic { .. })),
        _ => true,
    };
    println!("child: end={:?} outcomes={:?}", rep.end, rep.outcomes[0].iter().map(|o| match &o.outcome { Outcome::Rows(t) => format!("rows:{}", t.rows.len()), Outcome::Error { msg, .. } => format!("error:{}", crate::check::expect::first_line(msg)), Outcome::Panic { msg } => format!("PANIC:{msg}"), Outcome::Dropped { .. } => "dropped".into() }).collect::<Vec<_>>());
    if bad { 1 } else { 0 }
}

pub fn replay(path: &str, prop: &str) -> i32 {
    let exe = std::env::current_exe().expect("exe");
    let mut child = match Command::new(exe).arg("sup-replay-child").arg(path).stdout(Stdio::inherit()).stderr(Stdio::null()).spawn() {
        Ok(c) => c,
        Err(e) => {
            eprintln!("harness error: {e}");
            return 2;
        }
    };
    let startt = Instant::now();
    loop {
        match child.try_wait() {
            Ok(Some(st)) => {
                if st.success() {
                    println!("replay of {path}: the recorded violation did not reproduce");
                    return 0;
                }
                println!("VIOLATION property={prop} replay={path}");
                println!("  child status: {st:?}");
                return 1;
            }
            Ok(None) => {
                if startt.elapsed() > Duration::from_secs(60) {
                    let _ = child.kill();
                    println!("VIOLATION property={prop} replay={path}");
                    println!("  child silent for 60 s (hang)");
                    return 1;
                }
                std::thread::sleep(Duration::from_millis(50));
            }
            Err(e) => {
                eprintln!("harness error: {e}");
                return 2;
            }
        }
    }
}
