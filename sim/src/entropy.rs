//! The process's only entropy source, owned by the simulator.
//!
//! std's `RandomState` (HashMap iteration order), `uuid::new_v4` and anything
//! else that asks the OS for randomness goes through `getrandom(2)`. This
//! binary defines the `getrandom` symbol itself, so both direct calls
//! (libc::getrandom from the `getrandom` crate) and std's weak-symbol lookup
//! resolve here. Bytes are a pure function of a per-thread seed that
//! `run_scenario` sets from the scenario before the world's thread does
//! anything else; every world runs on a fresh thread, so std's per-thread
//! hash keys are re-derived for every world.

use std::cell::Cell;

thread_local! {
    static ENTROPY: Cell<u64> = const { Cell::new(0x9e3779b97f4a7c15) };
}

pub fn set_entropy(seed: u64) {
    ENTROPY.with(|e| e.set(seed ^ 0x5851f42d4c957f2d));
}

fn next() -> u64 {
    ENTROPY.with(|e| {
        let s = e.get().wrapping_add(0x9e3779b97f4a7c15);
        e.set(s);
        let mut z = s;
        z = (z ^ (z >> 30)).wrapping_mul(0xbf58476d1ce4e5b9);
        z = (z ^ (z >> 27)).wrapping_mul(0x94d049bb133111eb);
        z ^ (z >> 31)
    })
}

/// # Safety
/// Same contract as getrandom(2): `buf` must be valid for `buflen` bytes.
#[cfg(not(miri))]
#[unsafe(no_mangle)]
pub unsafe extern "C" fn getrandom(buf: *mut libc::c_void, buflen: libc::size_t, _flags: libc::c_uint) -> libc::ssize_t {
    let out = unsafe { std::slice::from_raw_parts_mut(buf as *mut u8, buflen) };
    let mut i = 0;
    while i < out.len() {
        let v = next().to_le_bytes();
        let n = (out.len() - i).min(8);
        out[i..i + n].copy_from_slice(&v[..n]);
        i += n;
    }
    buflen as libc::ssize_t
}
