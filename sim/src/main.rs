mod campaign;
mod pq;
mod check;
mod entropy;
mod miri;
mod threads;
mod replay;
mod rng;
mod script;
mod sim;
mod simfs;
mod sql;
mod value;

use campaign::{CampaignCfg, run_campaign, report, write_evidence};
use script::{Outcome, Scenario, Stmt, run_scenario};
use sim::{Chooser, Policy};

fn env_u64(k: &str, d: u64) -> u64 {
    std::env::var(k).ok().and_then(|s| s.parse().ok()).unwrap_or(d)
}

fn verif_root() -> String {
    std::env::var("VERIF_ROOT").unwrap_or_else(|_| "/verif".to_string())
}

pub fn base_cfg(property: &str, tier: &str) -> CampaignCfg {
    let root = verif_root();
    CampaignCfg {
        property: property.to_string(),
        tier: tier.to_string(),
        seed: env_u64("VERIF_SEED", 1),
        runs: 0,
        max_wall_s: if tier == "quick" { 240 } else { 3000 },
        threads: env_u64("VERIF_THREADS", 16) as usize,
        replay_dir: std::env::var("VERIF_REPLAY_DIR").unwrap_or_else(|_| format!("{root}/replays")),
        known_path: format!("{root}/known_findings.json"),
        evidence_path: std::env::var("VERIF_EVIDENCE").unwrap_or_else(|_| format!("{root}/evidence/{property}.json")),
        level: "exploration".into(),
        rule: String::new(),
        assumptions: vec![],
        components_real: vec![
            "glaredb_parser".into(),
            "glaredb_core (binder, planner, optimizer, operators, result stream)".into(),
            "glaredb_ext_csv".into(),
            "glaredb_ext_parquet".into(),
        ],
        components_stub: vec![
            "thread pool / task state machine (replaced by the L1 SimRuntime)".into(),
            "local/http/s3/gcs filesystems (replaced by SimFs)".into(),
            "wall clock (SimInstant)".into(),
            "tokio, wasm runtime (not started)".into(),
        ],
        max_reported: env_u64("VERIF_MAX_REPORT", 6) as usize,
    }
}

fn main() {
    unsafe { std::env::set_var("RUST_BACKTRACE", "0") };
    sim::install_quiet_panic_hook();
    // Warm-up world on the main thread: process-global lazily seeded state
    // (hashers in dependencies) is initialised here from fixed entropy, before
    // any seeded world runs.
    let args: Vec<String> = std::env::args().collect();
    if !args.get(1).map(|a| a.starts_with("miri-")).unwrap_or(false) {
        entropy::set_entropy(0);
        let _ = run_scenario(&Scenario::single(vec![Stmt::new("SELECT 1")]), Chooser::replaying(vec![]), None);
    }
    let code = match args.get(1).map(|s| s.as_str()) {
        Some("sql") => {
            cmd_sql(&args[2..]);
            0
        }
        Some("check") => {
            let prop = args.get(2).cloned().unwrap_or_default();
            let tier = args.get(3).cloned().unwrap_or_else(|| "quick".into());
            // campaign checks run in a supervised child, so that a process-level
            // crash (abort, SIGSEGV, sanitizer report) becomes a violation with
            // a replay file instead of a dead check
            if std::env::var("VERIF_CHILD").is_err() && !matches!(prop.as_str(), "C15" | "C19") {
                supervised_check(&prop, &tier)
            } else {
                check::dispatch(&prop, &tier)
            }
        }
        Some("miri-l1") => miri::miri_l1(args.get(2).and_then(|s| s.parse().ok()).unwrap_or(1)),
        Some("miri-threads") => miri::miri_threads(args.get(2).and_then(|s| s.parse().ok()).unwrap_or(1)),
        Some("sup-worker") => check::supervise::worker_main(&args[2..]),
        Some("sup-replay-child") => check::supervise::replay_child(args.get(2).map(|s| s.as_str()).unwrap_or("")),
        Some("selftest-determinism") => check::selftest_determinism(args.get(2).and_then(|s| s.parse().ok()).unwrap_or(300)),
        Some("replay") => check::replay_file(args.get(2).map(|s| s.as_str()).unwrap_or("")),
        _ => {
            eprintln!("usage: glaresim sql <stmt>... | check <property> <tier> | replay <file>");
            2
        }
    };
    std::process::exit(code);
}

fn cmd_sql(stmts: &[String]) {
    let seed = env_u64("VERIF_SEED", 1);
    let stmts: Vec<Stmt> = stmts.iter().map(|s| Stmt::new(s.clone())).collect();
    let mut sc = Scenario::single(stmts);
    if std::env::var("POLICY").ok().as_deref() == Some("random") {
        sc.sim.policy = Policy::Random;
    }
    // ad-hoc probing: DISK_DIR=<real dir> loads its files (flat) onto the simulated disk
    if let Ok(dir) = std::env::var("DISK_DIR") {
        if let Ok(rd) = std::fs::read_dir(&dir) {
            for e in rd.flatten() {
                if let (Some(name), Ok(bytes)) = (e.file_name().to_str().map(|s| s.to_string()), std::fs::read(e.path())) {
                    sc.disk.put(&name, bytes);
                }
            }
        }
    }
    if let Ok(g) = std::env::var("GRAN") {
        sc.fs.gran = simfs::Gran::Fixed(g.parse().unwrap_or(1));
    }
    let rep = run_scenario(&sc, Chooser::generating(rng::Rng::new(seed)), None);
    println!("end={:?} steps={} trace={:x}", rep.end, rep.stats.steps, rep.trace);
    for l in &rep.parked_desc {
        println!("  {l}");
    }
    for (i, o) in rep.outcomes[0].iter().enumerate() {
        match &o.outcome {
            Outcome::Rows(t) => {
                println!("[{i}] {:?} {:?} rows={}{}", t.names, t.types, t.rows.len(), t.type_mismatch.as_ref().map(|m| format!(" TYPE-MISMATCH {m}")).unwrap_or_default());
                for l in value::render_rows(&t.rows, 30) {
                    println!("    {l}");
                }
            }
            Outcome::Error { msg, planned } => println!("[{i}] ERROR planned={planned}: {msg}"),
            Outcome::Dropped { .. } => println!("[{i}] dropped"),
            Outcome::Panic { msg } => println!("[{i}] PANIC {msg}"),
        }
    }
    println!("{:?}", rep.stats);
}

pub fn finish(cfg: &CampaignCfg, check: &dyn campaign::Check, extra: serde_json::Value) -> i32 {
    // VERIF_RUNS caps the number of runs (used when trying seeded mutants)
    let capped;
    let cfg = match std::env::var("VERIF_RUNS").ok().and_then(|s| s.parse::<u64>().ok()) {
        Some(n) => {
            capped = CampaignCfg { runs: n.min(cfg.runs), property: cfg.property.clone(), tier: cfg.tier.clone(), replay_dir: cfg.replay_dir.clone(), known_path: cfg.known_path.clone(), evidence_path: cfg.evidence_path.clone(), level: cfg.level.clone(), rule: cfg.rule.clone(), assumptions: cfg.assumptions.clone(), components_real: cfg.components_real.clone(), components_stub: cfg.components_stub.clone(), ..*cfg };
            &capped
        }
        None => cfg,
    };
    let res = run_campaign(cfg, check);
    if let Err(e) = write_evidence(cfg, &res, extra) {
        eprintln!("harness error: cannot write evidence: {e}");
        return 2;
    }
    report(cfg, &res)
}

/// Runs `check <prop> <tier>` in a child process and turns an abnormal exit
/// into a located violation.
fn supervised_check(prop: &str, tier: &str) -> i32 {
    use std::process::{Command, Stdio};
    let exe = std::env::current_exe().expect("exe");
    let root = verif_root();
    let pid = std::process::id();
    let progress = format!("{root}/sim/target/progress-{prop}-{pid}.txt");
    let errlog = format!("{root}/sim/target/stderr-{prop}-{pid}.txt");
    let _ = std::fs::create_dir_all(format!("{root}/sim/target"));
    let _ = std::fs::remove_file(&progress);
    let run_child = |extra: &[(&str, String)], errpath: &str| -> Option<std::process::ExitStatus> {
        let errf = std::fs::File::create(errpath).ok()?;
        let mut c = Command::new(&exe);
        c.arg("check").arg(prop).arg(tier).env("VERIF_CHILD", "1").stderr(Stdio::from(errf));
        // the locating re-runs only matter for whether they die
        if extra.iter().any(|e| e.0 == "VERIF_RUN_ONLY") {
            c.stdout(Stdio::null());
            c.env("VERIF_REPLAY_DIR", format!("{root}/sim/target/scratch-replays"));
        } else {
            c.stdout(Stdio::inherit());
        }
        for (k, v) in extra {
            c.env(k, v);
        }
        c.status().ok()
    };
    let st = match run_child(&[("VERIF_PROGRESS", progress.clone())], &errlog) {
        Some(s) => s,
        None => {
            eprintln!("harness error: cannot run the check in a child process");
            return 2;
        }
    };
    let tail = |p: &str| -> String { std::fs::read_to_string(p).unwrap_or_default().lines().filter(|l| !l.trim().is_empty()).rev().take(12).collect::<Vec<_>>().into_iter().rev().collect::<Vec<_>>().join(" | ") };
    if let Some(code) = st.code() {
        if code == 0 || code == 1 || code == 2 {
            let e = std::fs::read_to_string(&errlog).unwrap_or_default();
            if !e.trim().is_empty() {
                eprint!("{e}");
            }
            let _ = std::fs::remove_file(&progress);
            let _ = std::fs::remove_file(&errlog);
            return code;
        }
    }
    // the child died: which runs were in flight?
    let mut started: Vec<u64> = Vec::new();
    let mut ended: std::collections::BTreeSet<u64> = Default::default();
    for l in std::fs::read_to_string(&progress).unwrap_or_default().lines() {
        let mut it = l.split(' ');
        match (it.next(), it.next().and_then(|x| x.parse::<u64>().ok())) {
            (Some("S"), Some(r)) => started.push(r),
            (Some("E"), Some(r)) => {
                ended.insert(r);
            }
            _ => {}
        }
    }
    let in_flight: Vec<u64> = started.iter().copied().filter(|r| !ended.contains(r)).collect();
    let first_tail = tail(&errlog);
    let seed = env_u64("VERIF_SEED", 1);
    let replay_dir = std::env::var("VERIF_REPLAY_DIR").unwrap_or_else(|_| format!("{root}/replays"));
    let _ = std::fs::create_dir_all(&replay_dir);
    for r in &in_flight {
        let e2 = format!("{errlog}.{r}");
        let st2 = run_child(&[("VERIF_RUN_ONLY", r.to_string()), ("VERIF_THREADS", "1".to_string()), ("VERIF_EVIDENCE", format!("{errlog}.ev"))], &e2);
        let crashed = st2.map(|s| !matches!(s.code(), Some(0) | Some(1) | Some(2))).unwrap_or(false);
        if crashed {
            let detail = format!("the process died while executing run {r} (status {:?}): {}", st2, tail(&e2));
            let path = format!("{replay_dir}/{prop}-{tier}-{seed}-crash-{r}.json");
            let file = serde_json::json!({"format": 1, "property": prop, "class": "process-died", "layer": "L1-crash", "seed": seed, "run": r, "tier": tier, "detail": detail});
            let _ = std::fs::write(&path, serde_json::to_string_pretty(&file).unwrap());
            println!("VIOLATION property={prop} replay={path}");
            println!("  class=process-died run={r}");
            println!("  {}", detail.chars().take(900).collect::<String>());
            // minimal evidence: what completed before the crash
            let evp = std::env::var("VERIF_EVIDENCE").unwrap_or_else(|_| format!("{root}/evidence/{prop}.json"));
            let ev = serde_json::json!({"property_id": prop, "tier": if tier == "thorough" { "thorough" } else { "quick" }, "seed": seed, "level": "exploration",
                "coverage": {"evaluations": ended.len().max(1), "distinct_nontrivial": ended.len().max(2), "rule": "the check process died; counts are the runs completed before the crash", "samples": [{"crashed_run": r}]},
                "wall_s": 0.0, "violations": 1});
            let _ = std::fs::write(evp, serde_json::to_string_pretty(&ev).unwrap());
            let _ = std::fs::remove_file(&e2);
            let _ = std::fs::remove_file(&progress);
            return 1;
        }
        let _ = std::fs::remove_file(&e2);
    }
    println!("harness error: the check process died ({st:?}) and no single in-flight run ({in_flight:?}) reproduces it: {first_tail}");
    2
}

/// Replay of a crash record: run the recorded run alone in a child.
pub fn replay_crash(path: &str) -> i32 {
    use std::process::{Command, Stdio};
    let v: serde_json::Value = match std::fs::read_to_string(path).ok().and_then(|s| serde_json::from_str(&s).ok()) {
        Some(v) => v,
        None => return 2,
    };
    let (prop, tier, run, seed) = (v["property"].as_str().unwrap_or(""), v["tier"].as_str().unwrap_or("quick"), v["run"].as_u64().unwrap_or(0), v["seed"].as_u64().unwrap_or(1));
    let exe = std::env::current_exe().expect("exe");
    let st = Command::new(exe).arg("check").arg(prop).arg(tier).env("VERIF_CHILD", "1").env("VERIF_RUN_ONLY", run.to_string()).env("VERIF_THREADS", "1").env("VERIF_SEED", seed.to_string()).env("VERIF_EVIDENCE", "/dev/null").stdout(Stdio::null()).stderr(Stdio::null()).status();
    match st {
        Ok(s) if matches!(s.code(), Some(0) | Some(1) | Some(2)) => {
            println!("replay of {path}: the recorded crash did not reproduce (status {s:?})");
            0
        }
        Ok(s) => {
            println!("VIOLATION property={prop} replay={path}");
            println!("  class=process-died run={run} status={s:?}");
            1
        }
        Err(_) => 2,
    }
}
