mod campaign;
mod pq;
mod check;
mod entropy;
mod replay;
mod rng;
mod script;
mod sim;
mod simfs;
mod sql;
mod value;

use campaign::{CampaignCfg, run_campaign, report, write_evidence};
use script::{Outcome, Scenario, Stmt, run_scenario};
use sim::{Chooser, Policy};

fn env_u64(k: &str, d: u64) -> u64 {
    std::env::var(k).ok().and_then(|s| s.parse().ok()).unwrap_or(d)
}

fn verif_root() -> String {
    std::env::var("VERIF_ROOT").unwrap_or_else(|_| "/verif".to_string())
}

pub fn base_cfg(property: &str, tier: &str) -> CampaignCfg {
    let root = verif_root();
    CampaignCfg {
        property: property.to_string(),
        tier: tier.to_string(),
        seed: env_u64("VERIF_SEED", 1),
        runs: 0,
        max_wall_s: if tier == "quick" { 240 } else { 3000 },
        threads: env_u64("VERIF_THREADS", 16) as usize,
        replay_dir: std::env::var("VERIF_REPLAY_DIR").unwrap_or_else(|_| format!("{root}/replays")),
        known_path: format!("{root}/known_findings.json"),
        evidence_path: std::env::var("VERIF_EVIDENCE").unwrap_or_else(|_| format!("{root}/evidence/{property}.json")),
        level: "exploration".into(),
        rule: String::new(),
        assumptions: vec![],
        components_real: vec![
            "glaredb_parser".into(),
            "glaredb_core (binder, planner, optimizer, operators, result stream)".into(),
            "glaredb_ext_csv".into(),
            "glaredb_ext_parquet".into(),
        ],
        components_stub: vec![
            "thread pool / task state machine (replaced by the L1 SimRuntime)".into(),
            "local/http/s3/gcs filesystems (replaced by SimFs)".into(),
            "wall clock (SimInstant)".into(),
            "tokio, wasm runtime (not started)".into(),
        ],
        max_reported: env_u64("VERIF_MAX_REPORT", 6) as usize,
    }
}

fn main() {
    unsafe { std::env::set_var("RUST_BACKTRACE", "0") };
    sim::install_quiet_panic_hook();
    // Warm-up world on the main thread: process-global lazily seeded state
    // (hashers in dependencies) is initialised here from fixed entropy, before
    // any seeded world runs.
    entropy::set_entropy(0);
    let _ = run_scenario(&Scenario::single(vec![Stmt::new("SELECT 1")]), Chooser::replaying(vec![]), None);
    let args: Vec<String> = std::env::args().collect();
    let code = match args.get(1).map(|s| s.as_str()) {
        Some("sql") => {
            cmd_sql(&args[2..]);
            0
        }
        Some("check") => {
            let prop = args.get(2).cloned().unwrap_or_default();
            let tier = args.get(3).cloned().unwrap_or_else(|| "quick".into());
            check::dispatch(&prop, &tier)
        }
        Some("sup-worker") => check::supervise::worker_main(&args[2..]),
        Some("sup-replay-child") => check::supervise::replay_child(args.get(2).map(|s| s.as_str()).unwrap_or("")),
        Some("selftest-determinism") => check::selftest_determinism(args.get(2).and_then(|s| s.parse().ok()).unwrap_or(300)),
        Some("replay") => check::replay_file(args.get(2).map(|s| s.as_str()).unwrap_or("")),
        _ => {
            eprintln!("usage: glaresim sql <stmt>... | check <property> <tier> | replay <file>");
            2
        }
    };
    std::process::exit(code);
}

fn cmd_sql(stmts: &[String]) {
    let seed = env_u64("VERIF_SEED", 1);
    let stmts: Vec<Stmt> = stmts.iter().map(|s| Stmt::new(s.clone())).collect();
    let mut sc = Scenario::single(stmts);
    if std::env::var("POLICY").ok().as_deref() == Some("random") {
        sc.sim.policy = Policy::Random;
    }
    // ad-hoc probing: DISK_DIR=<real dir> loads its files (flat) onto the simulated disk
    if let Ok(dir) = std::env::var("DISK_DIR") {
        if let Ok(rd) = std::fs::read_dir(&dir) {
            for e in rd.flatten() {
                if let (Some(name), Ok(bytes)) = (e.file_name().to_str().map(|s| s.to_string()), std::fs::read(e.path())) {
                    sc.disk.put(&name, bytes);
                }
            }
        }
    }
    if let Ok(g) = std::env::var("GRAN") {
        sc.fs.gran = simfs::Gran::Fixed(g.parse().unwrap_or(1));
    }
    let rep = run_scenario(&sc, Chooser::generating(rng::Rng::new(seed)), None);
    println!("end={:?} steps={} trace={:x}", rep.end, rep.stats.steps, rep.trace);
    for l in &rep.parked_desc {
        println!("  {l}");
    }
    for (i, o) in rep.outcomes[0].iter().enumerate() {
        match &o.outcome {
            Outcome::Rows(t) => {
                println!("[{i}] {:?} {:?} rows={}{}", t.names, t.types, t.rows.len(), t.type_mismatch.as_ref().map(|m| format!(" TYPE-MISMATCH {m}")).unwrap_or_default());
                for l in value::render_rows(&t.rows, 30) {
                    println!("    {l}");
                }
            }
            Outcome::Error { msg, planned } => println!("[{i}] ERROR planned={planned}: {msg}"),
            Outcome::Dropped { .. } => println!("[{i}] dropped"),
            Outcome::Panic { msg } => println!("[{i}] PANIC {msg}"),
        }
    }
    println!("{:?}", rep.stats);
}

pub fn finish(cfg: &CampaignCfg, check: &dyn campaign::Check, extra: serde_json::Value) -> i32 {
    // VERIF_RUNS caps the number of runs (used when trying seeded mutants)
    let capped;
    let cfg = match std::env::var("VERIF_RUNS").ok().and_then(|s| s.parse::<u64>().ok()) {
        Some(n) => {
            capped = CampaignCfg { runs: n.min(cfg.runs), property: cfg.property.clone(), tier: cfg.tier.clone(), replay_dir: cfg.replay_dir.clone(), known_path: cfg.known_path.clone(), evidence_path: cfg.evidence_path.clone(), level: cfg.level.clone(), rule: cfg.rule.clone(), assumptions: cfg.assumptions.clone(), components_real: cfg.components_real.clone(), components_stub: cfg.components_stub.clone(), ..*cfg };
            &capped
        }
        None => cfg,
    };
    let res = run_campaign(cfg, check);
    if let Err(e) = write_evidence(cfg, &res, extra) {
        eprintln!("harness error: cannot write evidence: {e}");
        return 2;
    }
    report(cfg, &res)
}
