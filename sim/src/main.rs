mod rng;
mod script;
mod sim;
mod simfs;
mod value;

use script::{Scenario, Stmt, run_scenario, Outcome};
use sim::{Chooser, Policy};

fn main() {
    sim::install_quiet_panic_hook();
    let args: Vec<String> = std::env::args().collect();
    match args.get(1).map(|s| s.as_str()) {
        Some("sql") => {
            let seed: u64 = std::env::var("VERIF_SEED").ok().and_then(|s| s.parse().ok()).unwrap_or(1);
            let stmts: Vec<Stmt> = args[2..].iter().map(|s| Stmt::new(s.clone())).collect();
            let mut sc = Scenario::single(stmts);
            if std::env::var("POLICY").ok().as_deref() == Some("random") { sc.sim.policy = Policy::Random; }
            let rep = run_scenario(&sc, Chooser::generating(rng::Rng::new(seed)), None);
            println!("end={:?} steps={} trace={:x}", rep.end, rep.stats.steps, rep.trace);
            for (i, o) in rep.outcomes[0].iter().enumerate() {
                match &o.outcome {
                    Outcome::Rows(t) => {
                        println!("[{i}] {:?} {:?} rows={}", t.names, t.types, t.rows.len());
                        for l in value::render_rows(&t.rows, 30) { println!("    {l}"); }
                    }
                    Outcome::Error{msg, planned} => println!("[{i}] ERROR planned={planned}: {msg}"),
                    Outcome::Dropped{..} => println!("[{i}] dropped"),
                }
            }
            println!("{:?}", rep.stats);
        }
        _ => eprintln!("usage: glaresim sql <stmt>..."),
    }
}
