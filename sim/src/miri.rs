//! L3 scenarios for Miri (`cargo +nightly miri run -- miri-l1 <seed>` /
//! `miri-threads <seed>`): tiny scripts, checked against fixed expectations
//! where cheap; what is being decided is Miri's own verdict (undefined
//! behaviour, data races) - any such report makes the process fail.

use std::sync::Arc;

use glaredb_core::engine::Engine;
use glaredb_core::runtime::filesystem::dispatch::FileSystemDispatch;
use glaredb_core::runtime::system::SystemRuntime;

use crate::rng::Rng;
use crate::script::{Outcome, Scenario, Stmt, run_scenario};
use crate::sim::{Chooser, Policy};
use crate::threads::{ThreadRuntime, TickInstant, block_on};

fn script(seed: u64, partitions: u32) -> Vec<String> {
    let mut r = Rng::new(seed).fork("miri");
    let n = 6 + r.below(10);
    let batch = *r.pick(&[2u32, 3, 2048]);
    let mut s = vec![
        format!("SET partitions TO {partitions}"),
        format!("SET batch_size TO {batch}"),
        format!("CREATE TEMP TABLE t AS SELECT x, CASE WHEN x % 4 <> 0 THEN x % 3 END AS k, CASE WHEN x % 2 = 0 THEN 'twelve bytes' ELSE 'thirteen byte' || CAST(x AS TEXT) END AS s FROM generate_series(1, {n}) g(x)"),
    ];
    let qs = [
        "SELECT k, count(*), sum(x), min(s), bool_and(x > 2) FROM t GROUP BY k",
        "SELECT count(DISTINCT k), max(s) FROM t",
        "SELECT a.x, b.s FROM t a LEFT JOIN t b ON a.k = b.k AND a.x < b.x",
        "SELECT x FROM t WHERE k NOT IN (SELECT k FROM t WHERE x > 4 AND k IS NOT NULL)",
        "SELECT s, x FROM t ORDER BY s DESC, x LIMIT 5",
        "SELECT x FROM t UNION SELECT k FROM t",
        "INSERT INTO t SELECT x + 100, k, s FROM t WHERE x < 4",
        "SELECT min(CAST(x AS TINYINT)), sum(CAST(x AS BIGINT)), bool_or(x = 3) FROM t",
    ];
    for _ in 0..3 {
        s.push((*r.pick(&qs)).to_string());
    }
    s.push("SELECT count(*) FROM t".into());
    s
}

/// Single-threaded: the L1 simulator itself under Miri.
pub fn miri_l1(seed: u64) -> i32 {
    let stmts: Vec<Stmt> = script(seed, 2).into_iter().map(Stmt::new).collect();
    let mut sc = Scenario::single(stmts);
    sc.sim.policy = Policy::Random;
    sc.stack_mb = 16;
    let rep = run_scenario(&sc, Chooser::generating(Rng::new(seed)), None);
    let mut bad = false;
    for (i, o) in rep.outcomes[0].iter().enumerate() {
        match &o.outcome {
            Outcome::Rows(t) => println!("[{i}] rows={}", t.rows.len()),
            Outcome::Error { msg, .. } => println!("[{i}] error: {}", msg.lines().next().unwrap_or("")),
            Outcome::Panic { msg } => {
                println!("[{i}] PANIC {msg}");
                bad = true;
            }
            Outcome::Dropped { .. } => {}
        }
    }
    println!("miri-l1 seed={seed} end={:?}", rep.end);
    if bad || rep.end != crate::sim::RunEnd::Completed { 1 } else { 0 }
}

#[derive(Debug, Clone)]
struct NoFs {
    dispatch: Arc<FileSystemDispatch>,
}

impl SystemRuntime for NoFs {
    type Instant = TickInstant;
    fn filesystem_dispatch(&self) -> &FileSystemDispatch {
        &self.dispatch
    }
}

/// Real threads, one per partition pipeline: Miri's scheduler and data-race
/// detector see the lock-free phases (parallel hash insertion, match flags,
/// shared row collections, UnsafeSyncCell phase discipline).
pub fn miri_threads(seed: u64) -> i32 {
    let engine = Engine::new(ThreadRuntime { partitions: 2 }, NoFs { dispatch: Arc::new(FileSystemDispatch::empty()) }).expect("engine");
    let mut session = engine.new_session().expect("session");
    let mut rc = 0;
    for (i, sql) in script(seed, 2).into_iter().enumerate() {
        let out = block_on(async {
            let mut res = session.simple(&sql).await?;
            res.pop().unwrap().output.collect().await
        });
        match out {
            Ok(b) => println!("[{i}] rows={}", b.iter().map(|x| x.num_rows()).sum::<usize>()),
            Err(e) => {
                println!("[{i}] error: {}", format!("{e}").lines().next().unwrap_or(""));
                rc = 1;
            }
        }
    }
    println!("miri-threads seed={seed} done");
    rc
}
