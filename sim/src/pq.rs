//! R-PQ: the harness's own Parquet writer. It shares no code with the engine's
//! reader: own Thrift compact encoder, own PLAIN / RLE-bit-packed hybrid /
//! dictionary / DELTA_BINARY_PACKED / DELTA_LENGTH_BYTE_ARRAY /
//! DELTA_BYTE_ARRAY / BYTE_STREAM_SPLIT encoders, v1 and v2 data pages,
//! configurable page and row-group boundaries and statistics. Compression goes
//! through third-party codec crates. The rows handed to the writer are the
//! expected rows.

use crate::rng::Rng;
use crate::value::{Row, Value};

// ---------------------------------------------------------------------------
// Thrift compact protocol (writer)

const T_TRUE: u8 = 1;
const T_FALSE: u8 = 2;
const T_BYTE: u8 = 3;
const T_I32: u8 = 5;
const T_I64: u8 = 6;
const T_BINARY: u8 = 8;
const T_LIST: u8 = 9;
const T_STRUCT: u8 = 12;

#[derive(Default)]
pub struct TW {
    pub buf: Vec<u8>,
    stack: Vec<i16>,
    last: i16,
}

impl TW {
    pub fn new() -> TW {
        TW::default()
    }
    fn varint(&mut self, mut v: u64) {
        loop {
            let b = (v & 0x7f) as u8;
            v >>= 7;
            if v == 0 {
                self.buf.push(b);
                break;
            }
            self.buf.push(b | 0x80);
        }
    }
    fn zigzag(v: i64) -> u64 {
        ((v << 1) ^ (v >> 63)) as u64
    }
    fn header(&mut self, id: i16, ty: u8) {
        let delta = id - self.last;
        if delta > 0 && delta <= 15 {
            self.buf.push(((delta as u8) << 4) | ty);
        } else {
            self.buf.push(ty);
            self.varint(Self::zigzag(id as i64));
        }
        self.last = id;
    }
    pub fn i32(&mut self, id: i16, v: i32) {
        self.header(id, T_I32);
        self.varint(Self::zigzag(v as i64));
    }
    pub fn i64(&mut self, id: i16, v: i64) {
        self.header(id, T_I64);
        self.varint(Self::zigzag(v));
    }
    pub fn byte(&mut self, id: i16, v: i8) {
        self.header(id, T_BYTE);
        self.buf.push(v as u8);
    }
    pub fn bool(&mut self, id: i16, v: bool) {
        self.header(id, if v { T_TRUE } else { T_FALSE });
    }
    pub fn binary(&mut self, id: i16, v: &[u8]) {
        self.header(id, T_BINARY);
        self.varint(v.len() as u64);
        self.buf.extend_from_slice(v);
    }
    pub fn struct_begin(&mut self, id: i16) {
        self.header(id, T_STRUCT);
        self.stack.push(self.last);
        self.last = 0;
    }
    /// start a struct that is a list element or the top-level value
    pub fn elem_begin(&mut self) {
        self.stack.push(self.last);
        self.last = 0;
    }
    pub fn struct_end(&mut self) {
        self.buf.push(0);
        self.last = self.stack.pop().unwrap_or(0);
    }
    pub fn list_begin(&mut self, id: i16, elem: u8, n: usize) {
        self.header(id, T_LIST);
        if n < 15 {
            self.buf.push(((n as u8) << 4) | elem);
        } else {
            self.buf.push(0xf0 | elem);
            self.varint(n as u64);
        }
    }
    pub fn list_i32(&mut self, v: i32) {
        self.varint(Self::zigzag(v as i64));
    }
    pub fn list_binary(&mut self, v: &[u8]) {
        self.varint(v.len() as u64);
        self.buf.extend_from_slice(v);
    }
}

// ---------------------------------------------------------------------------
// Types and cells

#[derive(Clone, Copy, Debug, PartialEq)]
pub enum ColType {
    Bool,
    I8,
    I16,
    I32,
    I64,
    U8,
    U16,
    U32,
    U64,
    F16,
    F32,
    F64,
    Date32,
    /// decimal stored as INT32
    Dec32 { p: u8, s: u8 },
    /// decimal stored as INT64
    Dec64 { p: u8, s: u8 },
    TsMs,
    TsUs,
    TsNs,
    TsInt96,
    Utf8,
    Binary,
}

#[derive(Clone, Copy, Debug, PartialEq)]
pub enum Phys {
    Boolean = 0,
    Int32 = 1,
    Int64 = 2,
    Int96 = 3,
    Float = 4,
    Double = 5,
    ByteArray = 6,
    Flba = 7,
}

impl ColType {
    pub fn phys(&self) -> Phys {
        use ColType::*;
        match self {
            Bool => Phys::Boolean,
            I8 | I16 | I32 | U8 | U16 | U32 | Date32 | Dec32 { .. } => Phys::Int32,
            I64 | U64 | Dec64 { .. } | TsMs | TsUs | TsNs => Phys::Int64,
            TsInt96 => Phys::Int96,
            F32 => Phys::Float,
            F64 => Phys::Double,
            F16 => Phys::Flba,
            Utf8 | Binary => Phys::ByteArray,
        }
    }

    /// The engine-side type name (`DataType` rendering) this column must have.
    pub fn engine_type(&self) -> String {
        use ColType::*;
        match self {
            Bool => "Boolean".into(),
            I8 => "Int8".into(),
            I16 => "Int16".into(),
            I32 => "Int32".into(),
            I64 => "Int64".into(),
            U8 => "UInt8".into(),
            U16 => "UInt16".into(),
            U32 => "UInt32".into(),
            U64 => "UInt64".into(),
            F16 => "Float16".into(),
            F32 => "Float32".into(),
            F64 => "Float64".into(),
            Date32 => "Date32".into(),
            Dec32 { p, s } | Dec64 { p, s } => format!("Decimal64({p},{s})"),
            TsMs => "Timestamp(ms)".into(),
            TsUs => "Timestamp(μs)".into(),
            TsNs | TsInt96 => "Timestamp(ns)".into(),
            Utf8 => "Utf8".into(),
            Binary => "Binary".into(),
        }
    }
}

/// One stored (non-NULL) value in its physical form, or NULL.
#[derive(Clone, Debug, PartialEq)]
pub enum Cell {
    Null,
    Bool(bool),
    I32(i32),
    I64(i64),
    I96 { nanos: u64, julian: u32 },
    F32(f32),
    F64(f64),
    F16(u16),
    Bytes(Vec<u8>),
}

fn f16_to_f64(h: u16) -> f64 {
    let sign = if h & 0x8000 != 0 { -1.0 } else { 1.0 };
    let exp = ((h >> 10) & 0x1f) as i32;
    let frac = (h & 0x3ff) as f64;
    if exp == 0 {
        sign * frac * 2f64.powi(-24)
    } else if exp == 31 {
        if frac == 0.0 { sign * f64::INFINITY } else { f64::NAN }
    } else {
        sign * (1.0 + frac / 1024.0) * 2f64.powi(exp - 15)
    }
}

/// The logical value the engine must produce for this cell.
pub fn cell_value(t: ColType, c: &Cell) -> Value {
    use ColType::*;
    match (t, c) {
        (_, Cell::Null) => Value::Null,
        (Bool, Cell::Bool(b)) => Value::Bool(*b),
        (I8 | I16 | I32, Cell::I32(v)) => Value::Int(*v as i128),
        (U8 | U16 | U32, Cell::I32(v)) => Value::Int(*v as u32 as i128),
        (I64, Cell::I64(v)) => Value::Int(*v as i128),
        (U64, Cell::I64(v)) => Value::Int(*v as u64 as i128),
        (F32, Cell::F32(v)) => Value::Float(*v as f64),
        (F64, Cell::F64(v)) => Value::Float(*v),
        (F16, Cell::F16(h)) => Value::Float(f16_to_f64(*h)),
        (Date32, Cell::I32(v)) => Value::Other(format!("date32:{v}")),
        (Dec32 { p, s }, Cell::I32(v)) => Value::Other(format!("dec64:{v}:{p}:{s}")),
        (Dec64 { p, s }, Cell::I64(v)) => Value::Other(format!("dec64:{v}:{p}:{s}")),
        (TsMs, Cell::I64(v)) => Value::Other(format!("ts:Millisecond:{v}")),
        (TsUs, Cell::I64(v)) => Value::Other(format!("ts:Microsecond:{v}")),
        (TsNs, Cell::I64(v)) => Value::Other(format!("ts:Nanosecond:{v}")),
        (TsInt96, Cell::I96 { nanos, julian }) => {
            let days = *julian as i64 - 2_440_588;
            Value::Other(format!("ts:Nanosecond:{}", days * 86_400_000_000_000 + *nanos as i64))
        }
        (Utf8, Cell::Bytes(b)) => Value::Str(String::from_utf8_lossy(b).to_string()),
        (Binary, Cell::Bytes(b)) => Value::Other(format!("bin:{}", b.iter().map(|x| format!("{x:02x}")).collect::<String>())),
        (t, c) => panic!("pq: cell {c:?} does not fit {t:?}"),
    }
}

#[derive(Clone, Copy, Debug, PartialEq)]
pub enum Enc {
    Plain,
    /// dictionary page + index pages; `legacy` = PLAIN_DICTIONARY ids instead
    /// of RLE_DICTIONARY; after `fallback_after` data pages the writer falls
    /// back to PLAIN pages
    Dict { legacy: bool, fallback_after: Option<usize> },
    /// RLE for BOOLEAN
    Rle,
    DeltaBinaryPacked,
    DeltaLengthByteArray,
    DeltaByteArray,
    ByteStreamSplit,
}

#[derive(Clone, Copy, Debug, PartialEq)]
pub enum Codec {
    None = 0,
    Snappy = 1,
    Gzip = 2,
    Brotli = 4,
    Lz4Hadoop = 5,
    Zstd = 6,
    Lz4Raw = 7,
}

#[derive(Clone, Copy, Debug, PartialEq)]
pub enum StatsMode {
    Absent,
    /// min_value / max_value (+ deprecated min/max where the order is signed)
    Exact,
    /// only the deprecated min / max fields
    DeprecatedOnly,
    /// bounds widened and flagged inexact
    WidenedInexact,
    /// null_count only
    NullCountOnly,
}

#[derive(Clone, Debug)]
pub struct ColSpec {
    pub name: String,
    pub ty: ColType,
    /// 0 = logical type annotation only, 1 = converted type only, 2 = both
    pub style: u8,
    pub optional: bool,
    pub enc: Enc,
    /// values (rows) per data page
    pub page_rows: usize,
    pub v2: bool,
    pub stats: StatsMode,
    /// RLE-hybrid shaping: minimum run length that is written as an RLE run
    pub min_rle_run: usize,
    /// DELTA_BINARY_PACKED geometry
    pub dbp_block: usize,
    pub dbp_miniblocks: usize,
}

/// Metadata fields the writer can be told to lie about (C19). A lie replaces
/// the true value of every occurrence of the field.
#[derive(Clone, Copy, Debug, PartialEq)]
pub enum LieField {
    FileNumRows,
    RgNumRows,
    RgTotalByteSize,
    ColNumValues,
    ColTotalCompressed,
    ColTotalUncompressed,
    ColDataPageOffset,
    ColDictPageOffset,
    ColCodec,
    ColPhysType,
    SchemaPhysType,
    SchemaNumChildren,
    SchemaTypeLength,
    SchemaPrecision,
    SchemaScale,
    PageUncompressedSize,
    PageCompressedSize,
    PageNumValues,
    PageEncoding,
    PageDefLevelsLen,
    PageRepLevelsLen,
    PageNumNulls,
    DictNumValues,
    DictBitWidth,
    V1LevelLenPrefix,
    DbpBlockSize,
    DbpMiniblocks,
    DbpTotalValues,
    FooterLen,
    PageType,
}

pub const ALL_LIES: &[LieField] = &[
    LieField::FileNumRows,
    LieField::RgNumRows,
    LieField::RgTotalByteSize,
    LieField::ColNumValues,
    LieField::ColTotalCompressed,
    LieField::ColTotalUncompressed,
    LieField::ColDataPageOffset,
    LieField::ColDictPageOffset,
    LieField::ColCodec,
    LieField::ColPhysType,
    LieField::SchemaPhysType,
    LieField::SchemaNumChildren,
    LieField::SchemaTypeLength,
    LieField::SchemaPrecision,
    LieField::SchemaScale,
    LieField::PageUncompressedSize,
    LieField::PageCompressedSize,
    LieField::PageNumValues,
    LieField::PageEncoding,
    LieField::PageDefLevelsLen,
    LieField::PageRepLevelsLen,
    LieField::PageNumNulls,
    LieField::DictNumValues,
    LieField::DictBitWidth,
    LieField::V1LevelLenPrefix,
    LieField::DbpBlockSize,
    LieField::DbpMiniblocks,
    LieField::DbpTotalValues,
    LieField::FooterLen,
    LieField::PageType,
];

#[derive(Clone, Debug)]
pub struct FileSpec {
    /// (field, value): lies about metadata, empty for valid files
    pub lies: Vec<(LieField, i64)>,
    pub cols: Vec<ColSpec>,
    /// per column, all cells of the file
    pub data: Vec<Vec<Cell>>,
    /// rows per row group (sums to the number of rows)
    pub row_groups: Vec<usize>,
    pub codec: Codec,
    pub created_by: Option<String>,
    pub version: i32,
    /// v2 pages: write `is_compressed = false` and leave data uncompressed
    /// although the chunk names a codec
    pub v2_flag_uncompressed: bool,
    /// junk bytes between column chunks
    pub padding: usize,
    /// compress empty v2 data sections instead of writing zero bytes
    pub compress_empty: bool,
}

impl FileSpec {
    /// The value to write for `field`: the lie if one is set, else the truth.
    pub fn lie(&self, field: LieField, truth: i64) -> i64 {
        self.lies.iter().find(|l| l.0 == field).map(|l| l.1).unwrap_or(truth)
    }

    pub fn num_rows(&self) -> usize {
        self.row_groups.iter().sum()
    }

    pub fn expected_rows(&self) -> Vec<Row> {
        (0..self.num_rows()).map(|r| self.cols.iter().enumerate().map(|(c, s)| cell_value(s.ty, &self.data[c][r])).collect()).collect()
    }

    pub fn expected_types(&self) -> Vec<String> {
        self.cols.iter().map(|c| c.ty.engine_type()).collect()
    }
}

thread_local! {
    static LIES: std::cell::RefCell<Vec<(LieField, i64)>> = const { std::cell::RefCell::new(Vec::new()) };
}

/// The value to write for `field` in the file being written on this thread.
fn lie(field: LieField, truth: i64) -> i64 {
    LIES.with(|l| l.borrow().iter().find(|x| x.0 == field).map(|x| x.1).unwrap_or(truth))
}

// ---------------------------------------------------------------------------
// Encoders

fn bits_needed(v: u64) -> u8 {
    (64 - v.leading_zeros()) as u8
}

struct BitWriter {
    out: Vec<u8>,
    acc: u128,
    n: u32,
}

impl BitWriter {
    fn new() -> Self {
        BitWriter { out: Vec::new(), acc: 0, n: 0 }
    }
    fn put(&mut self, v: u64, width: u8) {
        if width == 0 {
            return;
        }
        let mask: u128 = if width >= 64 { u64::MAX as u128 } else { (1u128 << width) - 1 };
        self.acc |= ((v as u128) & mask) << self.n;
        self.n += width as u32;
        while self.n >= 8 {
            self.out.push((self.acc & 0xff) as u8);
            self.acc >>= 8;
            self.n -= 8;
        }
    }
    fn finish(mut self) -> Vec<u8> {
        if self.n > 0 {
            self.out.push((self.acc & 0xff) as u8);
        }
        self.out
    }
}

fn uleb(out: &mut Vec<u8>, mut v: u64) {
    loop {
        let b = (v & 0x7f) as u8;
        v >>= 7;
        if v == 0 {
            out.push(b);
            break;
        }
        out.push(b | 0x80);
    }
}

fn zz(v: i64) -> u64 {
    ((v << 1) ^ (v >> 63)) as u64
}

/// RLE / bit-packed hybrid. Runs of at least `min_run` equal values become RLE
/// runs (when the pending bit-packed group is complete); everything else is
/// bit-packed in groups of eight, the final group padded with zeros.
pub fn rle_hybrid(values: &[u32], width: u8, min_run: usize) -> Vec<u8> {
    let mut out = Vec::new();
    let mut pending: Vec<u32> = Vec::new();
    let flush = |pending: &mut Vec<u32>, out: &mut Vec<u8>| {
        if pending.is_empty() {
            return;
        }
        let groups = pending.len().div_ceil(8);
        uleb(out, ((groups as u64) << 1) | 1);
        let mut bw = BitWriter::new();
        for i in 0..groups * 8 {
            bw.put(*pending.get(i).unwrap_or(&0) as u64, width);
        }
        out.extend(bw.finish());
        pending.clear();
    };
    let vb = (width as usize).div_ceil(8);
    let mut i = 0;
    while i < values.len() {
        let mut r = 1;
        while i + r < values.len() && values[i + r] == values[i] {
            r += 1;
        }
        if r >= min_run.max(1) && pending.len() % 8 == 0 {
            flush(&mut pending, &mut out);
            uleb(&mut out, (r as u64) << 1);
            let v = values[i].to_le_bytes();
            out.extend_from_slice(&v[..vb]);
            i += r;
        } else {
            // top up the pending group (at most up to the next multiple of 8)
            let room = 8 - pending.len() % 8;
            let take = r.min(room);
            for _ in 0..take {
                pending.push(values[i]);
            }
            i += take;
        }
    }
    flush(&mut pending, &mut out);
    out
}

/// DELTA_BINARY_PACKED over i64 arithmetic truncated to `bits` (32 or 64).
pub fn delta_binary_packed(vals: &[i64], bits: u8, block: usize, minis: usize) -> Vec<u8> {
    let mut out = Vec::new();
    uleb(&mut out, lie(LieField::DbpBlockSize, block as i64) as u64);
    uleb(&mut out, lie(LieField::DbpMiniblocks, minis as i64) as u64);
    uleb(&mut out, lie(LieField::DbpTotalValues, vals.len() as i64) as u64);
    let first = vals.first().copied().unwrap_or(0);
    uleb(&mut out, zz(first));
    if vals.len() <= 1 {
        return out;
    }
    let wrap = |v: i64| -> i64 { if bits == 32 { v as i32 as i64 } else { v } };
    let deltas: Vec<i64> = vals.windows(2).map(|w| wrap(w[1].wrapping_sub(w[0]))).collect();
    let per_mini = block / minis;
    for blk in deltas.chunks(block) {
        let min = *blk.iter().min().unwrap();
        uleb(&mut out, zz(min));
        let adj: Vec<u64> = blk
            .iter()
            .map(|d| {
                let a = wrap(d.wrapping_sub(min));
                if bits == 32 { a as u32 as u64 } else { a as u64 }
            })
            .collect();
        let mut widths = vec![0u8; minis];
        for (m, ch) in adj.chunks(per_mini).enumerate() {
            widths[m] = bits_needed(ch.iter().copied().max().unwrap_or(0));
        }
        out.extend_from_slice(&widths);
        for (m, ch) in adj.chunks(per_mini).enumerate() {
            let mut bw = BitWriter::new();
            for i in 0..per_mini {
                bw.put(*ch.get(i).unwrap_or(&0), widths[m]);
            }
            out.extend(bw.finish());
        }
    }
    out
}

fn plain(phys: Phys, cells: &[&Cell]) -> Vec<u8> {
    let mut out = Vec::new();
    match phys {
        Phys::Boolean => {
            let mut bw = BitWriter::new();
            for c in cells {
                if let Cell::Bool(b) = c {
                    bw.put(*b as u64, 1);
                }
            }
            out = bw.finish();
        }
        _ => {
            for c in cells {
                match c {
                    Cell::I32(v) => out.extend_from_slice(&v.to_le_bytes()),
                    Cell::I64(v) => out.extend_from_slice(&v.to_le_bytes()),
                    Cell::F32(v) => out.extend_from_slice(&v.to_le_bytes()),
                    Cell::F64(v) => out.extend_from_slice(&v.to_le_bytes()),
                    Cell::F16(v) => out.extend_from_slice(&v.to_le_bytes()),
                    Cell::I96 { nanos, julian } => {
                        out.extend_from_slice(&nanos.to_le_bytes());
                        out.extend_from_slice(&julian.to_le_bytes());
                    }
                    Cell::Bytes(b) => {
                        out.extend_from_slice(&(b.len() as u32).to_le_bytes());
                        out.extend_from_slice(b);
                    }
                    Cell::Bool(_) | Cell::Null => unreachable!(),
                }
            }
        }
    }
    out
}

fn fixed_bytes(c: &Cell) -> Vec<u8> {
    match c {
        Cell::I32(v) => v.to_le_bytes().to_vec(),
        Cell::I64(v) => v.to_le_bytes().to_vec(),
        Cell::F32(v) => v.to_le_bytes().to_vec(),
        Cell::F64(v) => v.to_le_bytes().to_vec(),
        _ => unreachable!(),
    }
}

fn as_i64(c: &Cell) -> i64 {
    match c {
        Cell::I32(v) => *v as i64,
        Cell::I64(v) => *v,
        _ => unreachable!(),
    }
}

fn bytes_of(c: &Cell) -> &[u8] {
    match c {
        Cell::Bytes(b) => b,
        _ => unreachable!(),
    }
}

fn encode_values(col: &ColSpec, enc: Enc, cells: &[&Cell]) -> Vec<u8> {
    let phys = col.ty.phys();
    match enc {
        Enc::Plain | Enc::Dict { .. } => plain(phys, cells),
        Enc::Rle => {
            let vals: Vec<u32> = cells.iter().map(|c| matches!(c, Cell::Bool(true)) as u32).collect();
            let body = rle_hybrid(&vals, 1, col.min_rle_run);
            let mut out = (body.len() as u32).to_le_bytes().to_vec();
            out.extend(body);
            out
        }
        Enc::DeltaBinaryPacked => {
            let vals: Vec<i64> = cells.iter().map(|c| as_i64(c)).collect();
            delta_binary_packed(&vals, if phys == Phys::Int32 { 32 } else { 64 }, col.dbp_block, col.dbp_miniblocks)
        }
        Enc::DeltaLengthByteArray => {
            let lens: Vec<i64> = cells.iter().map(|c| bytes_of(c).len() as i64).collect();
            let mut out = delta_binary_packed(&lens, 32, col.dbp_block, col.dbp_miniblocks);
            for c in cells {
                out.extend_from_slice(bytes_of(c));
            }
            out
        }
        Enc::DeltaByteArray => {
            let mut prefix: Vec<i64> = Vec::new();
            let mut suffix: Vec<&[u8]> = Vec::new();
            let mut prev: &[u8] = &[];
            for c in cells {
                let b = bytes_of(c);
                let mut p = 0;
                while p < prev.len() && p < b.len() && prev[p] == b[p] {
                    p += 1;
                }
                // a prefix may not cut a UTF-8 sequence apart for readers that
                // validate suffixes on their own; keep prefixes on boundaries
                while p > 0 && p < b.len() && (b[p] & 0xc0) == 0x80 {
                    p -= 1;
                }
                prefix.push(p as i64);
                suffix.push(&b[p..]);
                prev = b;
            }
            let mut out = delta_binary_packed(&prefix, 32, col.dbp_block, col.dbp_miniblocks);
            let lens: Vec<i64> = suffix.iter().map(|s| s.len() as i64).collect();
            out.extend(delta_binary_packed(&lens, 32, col.dbp_block, col.dbp_miniblocks));
            for s in suffix {
                out.extend_from_slice(s);
            }
            out
        }
        Enc::ByteStreamSplit => {
            let k = if matches!(phys, Phys::Int32 | Phys::Float) { 4 } else { 8 };
            let n = cells.len();
            let mut out = vec![0u8; n * k];
            for (i, c) in cells.iter().enumerate() {
                let b = fixed_bytes(c);
                for j in 0..k {
                    out[j * n + i] = b[j];
                }
            }
            out
        }
    }
}

pub fn compress(codec: Codec, data: &[u8]) -> Vec<u8> {
    use std::io::Write;
    match codec {
        Codec::None => data.to_vec(),
        Codec::Snappy => snap::raw::Encoder::new().compress_vec(data).expect("snappy"),
        Codec::Gzip => {
            let mut e = flate2::write::GzEncoder::new(Vec::new(), flate2::Compression::new(3));
            e.write_all(data).unwrap();
            e.finish().unwrap()
        }
        Codec::Brotli => {
            let mut out = Vec::new();
            {
                let mut w = brotli::CompressorWriter::new(&mut out, 4096, 3, 20);
                w.write_all(data).unwrap();
            }
            out
        }
        Codec::Lz4Raw => lz4_flex::block::compress(data),
        Codec::Lz4Hadoop => {
            let body = lz4_flex::block::compress(data);
            let mut out = (data.len() as u32).to_be_bytes().to_vec();
            out.extend_from_slice(&(body.len() as u32).to_be_bytes());
            out.extend(body);
            out
        }
        Codec::Zstd => zstd::bulk::compress(data, 1).expect("zstd"),
    }
}

// ---------------------------------------------------------------------------
// Statistics

fn stat_bytes(t: ColType, c: &Cell) -> Vec<u8> {
    let _ = t;
    match c {
        Cell::Bool(b) => vec![*b as u8],
        Cell::I32(v) => v.to_le_bytes().to_vec(),
        Cell::I64(v) => v.to_le_bytes().to_vec(),
        Cell::F32(v) => v.to_le_bytes().to_vec(),
        Cell::F64(v) => v.to_le_bytes().to_vec(),
        Cell::F16(v) => v.to_le_bytes().to_vec(),
        Cell::Bytes(b) => b.clone(),
        Cell::I96 { .. } | Cell::Null => vec![],
    }
}

/// Logical ordering key of a cell for min/max (None = not orderable here).
fn order_key(t: ColType, c: &Cell) -> Option<i128> {
    use ColType::*;
    match (t, c) {
        (U8 | U16 | U32, Cell::I32(v)) => Some(*v as u32 as i128),
        (U64, Cell::I64(v)) => Some(*v as u64 as i128),
        (_, Cell::I32(v)) => Some(*v as i128),
        (_, Cell::I64(v)) => Some(*v as i128),
        (_, Cell::Bool(b)) => Some(*b as i128),
        _ => None,
    }
}

fn is_unsigned(t: ColType) -> bool {
    matches!(t, ColType::U8 | ColType::U16 | ColType::U32 | ColType::U64)
}

fn write_statistics(w: &mut TW, id: i16, col: &ColSpec, cells: &[Cell], salt: u64) {
    if col.stats == StatsMode::Absent {
        return;
    }
    let nulls = cells.iter().filter(|c| **c == Cell::Null).count() as i64;
    let mut min: Option<&Cell> = None;
    let mut max: Option<&Cell> = None;
    let mut orderable = true;
    for c in cells.iter().filter(|c| **c != Cell::Null) {
        match order_key(col.ty, c) {
            Some(k) => {
                if min.map(|m| k < order_key(col.ty, m).unwrap()).unwrap_or(true) {
                    min = Some(c);
                }
                if max.map(|m| k > order_key(col.ty, m).unwrap()).unwrap_or(true) {
                    max = Some(c);
                }
            }
            None => orderable = false,
        }
    }
    w.struct_begin(id);
    let have = orderable && min.is_some();
    match col.stats {
        StatsMode::NullCountOnly | StatsMode::Absent => {
            w.i64(3, nulls);
        }
        _ if !have => {
            // NULL-only chunk or a type without ordering here: null count only
            w.i64(3, nulls);
        }
        StatsMode::DeprecatedOnly => {
            if is_unsigned(col.ty) {
                // deprecated fields are only defined for signed order
                w.i64(3, nulls);
            } else {
                w.binary(1, &stat_bytes(col.ty, max.unwrap()));
                w.binary(2, &stat_bytes(col.ty, min.unwrap()));
                w.i64(3, nulls);
            }
        }
        StatsMode::Exact => {
            if !is_unsigned(col.ty) && salt % 2 == 0 {
                w.binary(1, &stat_bytes(col.ty, max.unwrap()));
                w.binary(2, &stat_bytes(col.ty, min.unwrap()));
            }
            w.i64(3, nulls);
            w.binary(5, &stat_bytes(col.ty, max.unwrap()));
            w.binary(6, &stat_bytes(col.ty, min.unwrap()));
            if salt % 3 == 0 {
                w.bool(7, true);
                w.bool(8, true);
            }
        }
        StatsMode::WidenedInexact => {
            let widen = |c: &Cell, up: bool| -> Cell {
                let d = 1 + (salt % 5) as i64;
                match c {
                    Cell::I32(v) => {
                        if is_unsigned(col.ty) {
                            let u = *v as u32;
                            Cell::I32((if up { u.saturating_add(d as u32) } else { u.saturating_sub(d as u32) }) as i32)
                        } else {
                            Cell::I32(if up { v.saturating_add(d as i32) } else { v.saturating_sub(d as i32) })
                        }
                    }
                    Cell::I64(v) => {
                        if is_unsigned(col.ty) {
                            let u = *v as u64;
                            Cell::I64((if up { u.saturating_add(d as u64) } else { u.saturating_sub(d as u64) }) as i64)
                        } else {
                            Cell::I64(if up { v.saturating_add(d) } else { v.saturating_sub(d) })
                        }
                    }
                    other => other.clone(),
                }
            };
            w.i64(3, nulls);
            w.binary(5, &stat_bytes(col.ty, &widen(max.unwrap(), true)));
            w.binary(6, &stat_bytes(col.ty, &widen(min.unwrap(), false)));
            w.bool(7, false);
            w.bool(8, false);
        }
    }
    w.struct_end();
}

// ---------------------------------------------------------------------------
// File assembly

/// Facts about the written file that the metadata table functions must report.
#[derive(Clone, Debug, Default)]
pub struct Footer {
    pub num_rows: i64,
    pub version: i32,
    pub created_by: Option<String>,
    /// per row group: (num_rows, total_byte_size, ordinal)
    pub row_groups: Vec<(i64, i64, i16)>,
    /// per row group, per column: (physical type name, max_def, file_offset,
    /// num_values, total_compressed, total_uncompressed, data_page_offset)
    pub columns: Vec<Vec<(String, i16, i64, i64, i64, i64, i64)>>,
    /// per column: where a batch boundary would fall inside a page, for probes
    pub pages_per_chunk_max: usize,
    /// byte ranges (start, len) of each column chunk
    pub chunk_ranges: Vec<(usize, usize)>,
    /// byte offset of the footer (FileMetaData) and its length
    pub footer_start: usize,
    pub footer_len: usize,
}

fn phys_name(p: Phys) -> &'static str {
    match p {
        Phys::Boolean => "BOOLEAN",
        Phys::Int32 => "INT32",
        Phys::Int64 => "INT64",
        Phys::Int96 => "INT96",
        Phys::Float => "FLOAT",
        Phys::Double => "DOUBLE",
        Phys::ByteArray => "BYTE_ARRAY",
        Phys::Flba => "FIXED_LEN_BYTE_ARRAY",
    }
}

fn enc_id(e: Enc) -> i32 {
    match e {
        Enc::Plain => 0,
        Enc::Dict { legacy: true, .. } => 2,
        Enc::Dict { legacy: false, .. } => 8,
        Enc::Rle => 3,
        Enc::DeltaBinaryPacked => 5,
        Enc::DeltaLengthByteArray => 6,
        Enc::DeltaByteArray => 7,
        Enc::ByteStreamSplit => 9,
    }
}

fn write_schema_element(w: &mut TW, col: &ColSpec) {
    use ColType::*;
    w.elem_begin();
    w.i32(1, lie(LieField::SchemaPhysType, col.ty.phys() as i64) as i32);
    if col.ty == F16 {
        w.i32(2, lie(LieField::SchemaTypeLength, 2) as i32);
    }
    w.i32(3, if col.optional { 1 } else { 0 });
    w.binary(4, col.name.as_bytes());
    // converted type (legacy annotation)
    let conv: Option<i32> = match col.ty {
        Utf8 => Some(0),
        Dec32 { .. } | Dec64 { .. } => Some(5),
        Date32 => Some(6),
        U8 => Some(11),
        U16 => Some(12),
        U32 => Some(13),
        U64 => Some(14),
        I8 => Some(15),
        I16 => Some(16),
        I32 => Some(17),
        I64 => Some(18),
        _ => None,
    };
    // types that only exist as logical types always carry the logical type
    let logical_only = matches!(col.ty, TsMs | TsUs | TsNs | F16);
    // plain INT32 / INT64 may carry no annotation at all
    let style = if logical_only { 0 } else { col.style };
    let bare = matches!(col.ty, I32 | I64) && style == 3;
    if !bare && style >= 1 {
        if let Some(c) = conv {
            w.i32(6, c);
        }
    }
    if let Dec32 { p, s } | Dec64 { p, s } = col.ty {
        w.i32(7, lie(LieField::SchemaScale, s as i64) as i32);
        w.i32(8, lie(LieField::SchemaPrecision, p as i64) as i32);
    }
    let need_logical = !bare && (style == 0 || style == 2) && !matches!(col.ty, Bool | F32 | F64 | TsInt96 | Binary);
    if need_logical {
        w.struct_begin(10);
        match col.ty {
            Utf8 => {
                w.struct_begin(1);
                w.struct_end();
            }
            Dec32 { p, s } | Dec64 { p, s } => {
                w.struct_begin(5);
                w.i32(1, s as i32);
                w.i32(2, p as i32);
                w.struct_end();
            }
            Date32 => {
                w.struct_begin(6);
                w.struct_end();
            }
            TsMs | TsUs | TsNs => {
                w.struct_begin(8);
                w.bool(1, true);
                w.struct_begin(2);
                w.struct_begin(match col.ty {
                    TsMs => 1,
                    TsUs => 2,
                    _ => 3,
                });
                w.struct_end();
                w.struct_end();
                w.struct_end();
            }
            I8 | I16 | I32 | I64 | U8 | U16 | U32 | U64 => {
                w.struct_begin(10);
                w.byte(
                    1,
                    match col.ty {
                        I8 | U8 => 8,
                        I16 | U16 => 16,
                        I32 | U32 => 32,
                        _ => 64,
                    },
                );
                w.bool(2, matches!(col.ty, I8 | I16 | I32 | I64));
                w.struct_end();
            }
            F16 => {
                w.struct_begin(15);
                w.struct_end();
            }
            _ => {}
        }
        w.struct_end();
    }
    w.struct_end();
}

struct Page {
    header: Vec<u8>,
    body: Vec<u8>,
    uncompressed: usize,
}

fn dict_of(cells: &[&Cell]) -> (Vec<Cell>, Vec<u32>) {
    let mut dict: Vec<Cell> = Vec::new();
    let mut idx = Vec::with_capacity(cells.len());
    for c in cells {
        // bit-exact identity (NaN payloads, -0.0)
        let pos = dict.iter().position(|d| match (d, *c) {
            (Cell::F32(a), Cell::F32(b)) => a.to_bits() == b.to_bits(),
            (Cell::F64(a), Cell::F64(b)) => a.to_bits() == b.to_bits(),
            (a, b) => a == b,
        });
        match pos {
            Some(p) => idx.push(p as u32),
            None => {
                dict.push((*c).clone());
                idx.push(dict.len() as u32 - 1);
            }
        }
    }
    (dict, idx)
}

fn page_header(kind: i32, uncompressed: usize, compressed: usize, f: impl FnOnce(&mut TW)) -> Vec<u8> {
    let mut w = TW::new();
    w.elem_begin();
    w.i32(1, lie(LieField::PageType, kind as i64) as i32);
    w.i32(2, lie(LieField::PageUncompressedSize, uncompressed as i64) as i32);
    w.i32(3, lie(LieField::PageCompressedSize, compressed as i64) as i32);
    f(&mut w);
    w.struct_end();
    w.buf
}

/// Build the pages of one column chunk.
fn build_chunk(spec: &FileSpec, col: &ColSpec, cells: &[Cell], salt: u64) -> (Vec<Page>, bool, Vec<i32>) {
    let codec = spec.codec;
    let mut pages = Vec::new();
    let non_null: Vec<&Cell> = cells.iter().filter(|c| **c != Cell::Null).collect();
    let mut encodings: Vec<i32> = Vec::new();
    let mut has_dict = false;
    let mut dict_idx: Vec<u32> = Vec::new();
    let mut dict_len = 0usize;
    if let Enc::Dict { .. } = col.enc {
        let (dict, idx) = dict_of(&non_null);
        dict_len = dict.len();
        dict_idx = idx;
        let refs: Vec<&Cell> = dict.iter().collect();
        let body = plain(col.ty.phys(), &refs);
        let comp = compress(codec, &body);
        let n = dict.len();
        let legacy = matches!(col.enc, Enc::Dict { legacy: true, .. });
        let header = page_header(2, body.len(), comp.len(), |w| {
            w.struct_begin(7);
            w.i32(1, lie(LieField::DictNumValues, n as i64) as i32);
            w.i32(2, if legacy { 2 } else { 0 });
            w.struct_end();
        });
        pages.push(Page { header, uncompressed: body.len(), body: comp });
        has_dict = true;
        encodings.push(if legacy { 2 } else { 0 });
    }
    let per = col.page_rows.max(1);
    let mut consumed_non_null = 0usize;
    let mut page_no = 0usize;
    let mut start = 0usize;
    // a chunk with zero rows still gets no data page; a chunk with rows gets >= 1
    while start < cells.len() {
        let end = (start + per).min(cells.len());
        let slice = &cells[start..end];
        let vals: Vec<&Cell> = slice.iter().filter(|c| **c != Cell::Null).collect();
        let nulls = slice.len() - vals.len();
        let enc = match col.enc {
            Enc::Dict { fallback_after: Some(k), .. } if page_no >= k => Enc::Plain,
            e => e,
        };
        let values_bytes = match enc {
            Enc::Dict { .. } => {
                let idx = &dict_idx[consumed_non_null..consumed_non_null + vals.len()];
                let width = bits_needed(dict_len.saturating_sub(1) as u64);
                let mut b = vec![lie(LieField::DictBitWidth, width as i64) as u8];
                b.extend(rle_hybrid(idx, width, col.min_rle_run));
                b
            }
            e => encode_values(col, e, &vals),
        };
        consumed_non_null += vals.len();
        let levels: Vec<u8> = if col.optional {
            let l: Vec<u32> = slice.iter().map(|c| (*c != Cell::Null) as u32).collect();
            rle_hybrid(&l, 1, col.min_rle_run)
        } else {
            Vec::new()
        };
        let eid = enc_id(enc);
        if !encodings.contains(&eid) {
            encodings.push(eid);
        }
        if col.v2 {
            let flag_uncompressed = spec.v2_flag_uncompressed && codec != Codec::None;
            let data_comp = if codec == Codec::None || flag_uncompressed {
                values_bytes.clone()
            } else if values_bytes.is_empty() && !spec.compress_empty {
                Vec::new()
            } else {
                compress(codec, &values_bytes)
            };
            let unc = levels.len() + values_bytes.len();
            let comp = levels.len() + data_comp.len();
            let (nv, nn, nr, ll) = (slice.len() as i32, nulls as i32, slice.len() as i32, levels.len() as i32);
            let header = page_header(3, unc, comp, |w| {
                w.struct_begin(8);
                w.i32(1, lie(LieField::PageNumValues, nv as i64) as i32);
                w.i32(2, lie(LieField::PageNumNulls, nn as i64) as i32);
                w.i32(3, nr);
                w.i32(4, lie(LieField::PageEncoding, eid as i64) as i32);
                w.i32(5, lie(LieField::PageDefLevelsLen, ll as i64) as i32);
                w.i32(6, lie(LieField::PageRepLevelsLen, 0) as i32);
                if flag_uncompressed {
                    w.bool(7, false);
                } else if salt % 2 == 0 {
                    w.bool(7, codec != Codec::None);
                }
                w.struct_end();
            });
            let mut body = levels.clone();
            body.extend(data_comp);
            pages.push(Page { header, uncompressed: unc, body });
        } else {
            let mut raw = Vec::new();
            if col.optional {
                raw.extend_from_slice(&(lie(LieField::V1LevelLenPrefix, levels.len() as i64) as u32).to_le_bytes());
                raw.extend_from_slice(&levels);
            }
            raw.extend_from_slice(&values_bytes);
            let comp = compress(codec, &raw);
            let nv = slice.len() as i32;
            let header = page_header(0, raw.len(), comp.len(), |w| {
                w.struct_begin(5);
                w.i32(1, lie(LieField::PageNumValues, nv as i64) as i32);
                w.i32(2, lie(LieField::PageEncoding, eid as i64) as i32);
                w.i32(3, 3);
                w.i32(4, 3);
                w.struct_end();
            });
            pages.push(Page { header, uncompressed: raw.len(), body: comp });
        }
        page_no += 1;
        start = end;
    }
    if col.optional && !encodings.contains(&3) {
        encodings.push(3);
    }
    (pages, has_dict, encodings)
}

pub fn write_file(spec: &FileSpec) -> (Vec<u8>, Footer) {
    LIES.with(|l| *l.borrow_mut() = spec.lies.clone());
    let r = write_file_inner(spec);
    LIES.with(|l| l.borrow_mut().clear());
    r
}

fn write_file_inner(spec: &FileSpec) -> (Vec<u8>, Footer) {
    let mut out: Vec<u8> = b"PAR1".to_vec();
    let mut footer = Footer { num_rows: spec.num_rows() as i64, version: spec.version, created_by: spec.created_by.clone(), ..Default::default() };
    // row group -> per column metadata bytes are written into the footer
    struct ChunkMeta {
        col: usize,
        encodings: Vec<i32>,
        num_values: i64,
        unc: i64,
        comp: i64,
        data_page_offset: i64,
        dict_page_offset: Option<i64>,
        cells: (usize, usize),
    }
    let mut rgs: Vec<(Vec<ChunkMeta>, i64, i64)> = Vec::new();
    let mut row0 = 0usize;
    for (gi, &n) in spec.row_groups.iter().enumerate() {
        let mut metas = Vec::new();
        let mut total_unc = 0i64;
        for (ci, col) in spec.cols.iter().enumerate() {
            let cells = &spec.data[ci][row0..row0 + n];
            let (pages, has_dict, encodings) = build_chunk(spec, col, cells, (gi * 31 + ci) as u64);
            for _ in 0..spec.padding {
                out.push(0xAB);
            }
            let chunk_start = out.len();
            let mut unc = 0i64;
            let mut comp = 0i64;
            let mut data_page_offset = None;
            for (pi, p) in pages.iter().enumerate() {
                if !(has_dict && pi == 0) && data_page_offset.is_none() {
                    data_page_offset = Some(out.len() as i64);
                }
                out.extend_from_slice(&p.header);
                out.extend_from_slice(&p.body);
                unc += (p.header.len() + p.uncompressed) as i64;
                comp += (p.header.len() + p.body.len()) as i64;
            }
            footer.pages_per_chunk_max = footer.pages_per_chunk_max.max(pages.len());
            footer.chunk_ranges.push((chunk_start, out.len() - chunk_start));
            total_unc += unc;
            metas.push(ChunkMeta { col: ci, encodings, num_values: n as i64, unc, comp, data_page_offset: data_page_offset.unwrap_or(chunk_start as i64), dict_page_offset: if has_dict { Some(chunk_start as i64) } else { None }, cells: (row0, row0 + n) });
        }
        rgs.push((metas, total_unc, n as i64));
        row0 += n;
    }
    // footer
    let mut w = TW::new();
    w.elem_begin();
    w.i32(1, spec.version);
    w.list_begin(2, T_STRUCT, spec.cols.len() + 1);
    {
        // root
        w.elem_begin();
        w.binary(4, b"schema");
        w.i32(5, lie(LieField::SchemaNumChildren, spec.cols.len() as i64) as i32);
        w.struct_end();
        for c in &spec.cols {
            write_schema_element(&mut w, c);
        }
    }
    w.i64(3, lie(LieField::FileNumRows, spec.num_rows() as i64));
    w.list_begin(4, T_STRUCT, rgs.len());
    for (gi, (metas, total_unc, n)) in rgs.iter().enumerate() {
        w.elem_begin();
        w.list_begin(1, T_STRUCT, metas.len());
        let mut cols_facts = Vec::new();
        for m in metas {
            let col = &spec.cols[m.col];
            w.elem_begin();
            let file_offset = m.dict_page_offset.unwrap_or(m.data_page_offset);
            w.i64(2, file_offset);
            w.struct_begin(3);
            w.i32(1, lie(LieField::ColPhysType, col.ty.phys() as i64) as i32);
            w.list_begin(2, T_I32, m.encodings.len());
            for e in &m.encodings {
                w.list_i32(*e);
            }
            w.list_begin(3, T_BINARY, 1);
            w.list_binary(col.name.as_bytes());
            w.i32(4, lie(LieField::ColCodec, spec.codec as i64) as i32);
            w.i64(5, lie(LieField::ColNumValues, m.num_values));
            w.i64(6, lie(LieField::ColTotalUncompressed, m.unc));
            w.i64(7, lie(LieField::ColTotalCompressed, m.comp));
            w.i64(9, lie(LieField::ColDataPageOffset, m.data_page_offset));
            if let Some(d) = m.dict_page_offset {
                w.i64(11, lie(LieField::ColDictPageOffset, d));
            }
            write_statistics(&mut w, 12, col, &spec.data[m.col][m.cells.0..m.cells.1], (gi * 7 + m.col) as u64);
            w.struct_end();
            w.struct_end();
            cols_facts.push((phys_name(col.ty.phys()).to_string(), col.optional as i16, file_offset, m.num_values, m.comp, m.unc, m.data_page_offset));
        }
        w.i64(2, lie(LieField::RgTotalByteSize, *total_unc));
        w.i64(3, lie(LieField::RgNumRows, *n));
        w.i16_field(7, gi as i16);
        w.struct_end();
        footer.row_groups.push((*n, *total_unc, gi as i16));
        footer.columns.push(cols_facts);
    }
    if let Some(c) = &spec.created_by {
        w.binary(6, c.as_bytes());
    }
    w.struct_end();
    footer.footer_start = out.len();
    footer.footer_len = w.buf.len();
    out.extend_from_slice(&w.buf);
    out.extend_from_slice(&(lie(LieField::FooterLen, w.buf.len() as i64) as u32).to_le_bytes());
    out.extend_from_slice(b"PAR1");
    (out, footer)
}

impl TW {
    pub fn i16_field(&mut self, id: i16, v: i16) {
        self.header(id, 4);
        self.varint(Self::zigzag(v as i64));
    }
}

// ---------------------------------------------------------------------------
// Generator

const PQ_WORDS: &[&str] = &["", "a", "bb", "alpha", "Bravo", "charlie delta", "écho", "東京都", "prefix-shared-0001", "prefix-shared-0002", "prefix-shared-0002-longer-than-twelve", "prefix-shaped", "zulu", "twelve-bytes", "thirteen-byte"];

fn gen_cell(t: ColType, rng: &mut Rng, narrow: bool) -> Cell {
    use ColType::*;
    match t {
        Bool => Cell::Bool(rng.chance(1, 2)),
        I8 => Cell::I32(rng.range(-128, 127) as i32),
        I16 => Cell::I32(rng.range(-32768, 32767) as i32),
        U8 => Cell::I32(rng.range(0, 255) as i32),
        U16 => Cell::I32(rng.range(0, 65535) as i32),
        I32 | Date32 => Cell::I32(if narrow {
            rng.range(-20, 20) as i32
        } else {
            match rng.below(8) {
                0 => i32::MAX,
                1 => i32::MIN,
                2 => 0,
                _ => rng.range(-1_000_000, 1_000_000) as i32,
            }
        }),
        U32 => Cell::I32(if narrow {
            rng.range(0, 40) as i32
        } else {
            match rng.below(6) {
                0 => u32::MAX as i32,
                1 => (1u32 << 31) as i32,
                2 => ((1u32 << 31) - 1) as i32,
                _ => rng.next_u64() as u32 as i32,
            }
        }),
        I64 | TsMs | TsUs | TsNs => Cell::I64(if narrow {
            rng.range(-20, 20)
        } else {
            match rng.below(8) {
                0 => i64::MAX,
                1 => i64::MIN,
                2 => 0,
                3 => rng.next_u64() as i64,
                _ => rng.range(-1_000_000_000, 1_000_000_000),
            }
        }),
        U64 => Cell::I64(if narrow {
            rng.range(0, 40)
        } else {
            match rng.below(6) {
                0 => u64::MAX as i64,
                1 => (1u64 << 63) as i64,
                2 => ((1u64 << 63) - 1) as i64,
                _ => rng.next_u64() as i64,
            }
        }),
        Dec32 { p, .. } => {
            let lim = 10i64.pow(p.min(9) as u32) - 1;
            Cell::I32(rng.range(-lim, lim) as i32)
        }
        Dec64 { p, .. } => {
            let lim = 10i64.pow(p.min(18) as u32) - 1;
            Cell::I64(rng.range(-lim, lim))
        }
        TsInt96 => Cell::I96 { nanos: rng.below(86_400_000_000_000), julian: (2_440_588 + rng.range(-20000, 20000)) as u32 },
        F32 => Cell::F32(match rng.below(10) {
            0 => f32::NAN,
            1 => f32::INFINITY,
            2 => -0.0,
            3 => f32::MIN_POSITIVE,
            _ => (rng.f64() * 2000.0 - 1000.0) as f32,
        }),
        F64 => Cell::F64(match rng.below(10) {
            0 => f64::NAN,
            1 => f64::NEG_INFINITY,
            2 => -0.0,
            3 => f64::MAX,
            _ => rng.f64() * 2e6 - 1e6,
        }),
        F16 => Cell::F16(match rng.below(8) {
            0 => 0x7c00,
            1 => 0x8000,
            2 => 0x0001,
            _ => (rng.below(0x7c00) as u16) | ((rng.below(2) as u16) << 15),
        }),
        Utf8 => {
            let mut s = (*rng.pick(PQ_WORDS)).to_string();
            if !narrow && rng.chance(1, 3) {
                s.push_str(&rng.below(1000).to_string());
            }
            Cell::Bytes(s.into_bytes())
        }
        Binary => {
            let n = if narrow { rng.usize_below(3) } else { rng.usize_below(20) };
            Cell::Bytes((0..n).map(|_| rng.below(256) as u8).collect())
        }
    }
}

pub fn valid_encodings(t: ColType) -> Vec<Enc> {
    use ColType::*;
    let dict = [Enc::Dict { legacy: false, fallback_after: None }, Enc::Dict { legacy: true, fallback_after: None }];
    let mut v = vec![Enc::Plain];
    match t.phys() {
        Phys::Boolean => v.push(Enc::Rle),
        Phys::Int32 | Phys::Int64 => {
            v.extend(dict);
            v.push(Enc::DeltaBinaryPacked);
            v.push(Enc::ByteStreamSplit);
        }
        Phys::Float | Phys::Double => {
            v.extend(dict);
            v.push(Enc::ByteStreamSplit);
        }
        Phys::ByteArray => {
            v.extend(dict);
            v.push(Enc::DeltaLengthByteArray);
            v.push(Enc::DeltaByteArray);
        }
        Phys::Int96 | Phys::Flba => v.extend(dict),
    }
    let _ = Bool;
    v
}

pub const ALL_TYPES: &[ColType] = &[
    ColType::Bool,
    ColType::I8,
    ColType::I16,
    ColType::I32,
    ColType::I64,
    ColType::U8,
    ColType::U16,
    ColType::U32,
    ColType::U64,
    ColType::F16,
    ColType::F32,
    ColType::F64,
    ColType::Date32,
    ColType::Dec32 { p: 7, s: 2 },
    ColType::Dec64 { p: 15, s: 4 },
    ColType::TsMs,
    ColType::TsUs,
    ColType::TsNs,
    ColType::TsInt96,
    ColType::Utf8,
    ColType::Binary,
];

pub fn gen_file(rng: &mut Rng, max_rows: usize, types: &[ColType]) -> FileSpec {
    let ncols = 1 + rng.usize_below(5);
    let nrows = match rng.below(10) {
        0 => 0,
        1 => 1,
        2 => 2,
        3 | 4 => 1 + rng.usize_below(20),
        _ => 1 + rng.usize_below(max_rows.max(1)),
    };
    let codec = *rng.pick(&[Codec::None, Codec::None, Codec::Snappy, Codec::Gzip, Codec::Brotli, Codec::Lz4Raw, Codec::Lz4Hadoop, Codec::Zstd]);
    let mut cols = Vec::new();
    let mut data = Vec::new();
    for i in 0..ncols {
        let mut ty = *rng.pick(types);
        if let ColType::Dec32 { .. } = ty {
            let p = 1 + rng.below(9) as u8;
            ty = ColType::Dec32 { p, s: rng.below(p as u64 + 1) as u8 };
        }
        if let ColType::Dec64 { .. } = ty {
            let p = 1 + rng.below(18) as u8;
            ty = ColType::Dec64 { p, s: rng.below(p as u64 + 1) as u8 };
        }
        let encs = valid_encodings(ty);
        let mut enc = *rng.pick(&encs);
        let page_rows = *rng.pick(&[1usize, 2, 3, 7, 8, 9, 16, 33, 100, 1000, 100_000]);
        if let Enc::Dict { legacy, .. } = enc {
            if rng.chance(1, 3) {
                enc = Enc::Dict { legacy, fallback_after: Some(rng.usize_below(3)) };
            }
        }
        let optional = rng.chance(2, 3);
        let narrow = rng.chance(1, 2);
        let null_16 = if optional { *rng.pick(&[0u64, 2, 8, 14, 16]) } else { 0 };
        let name = match rng.below(4) {
            0 => format!("c{i}"),
            1 => format!("Col{i}"),
            2 => format!("col_{i}_x"),
            _ => format!("k{i}"),
        };
        let blocks = [(128usize, 4usize), (128, 1), (256, 8), (128, 2), (384, 4)];
        let (dbp_block, dbp_miniblocks) = *rng.pick(&blocks);
        cols.push(ColSpec {
            name,
            ty,
            style: rng.below(4) as u8,
            optional,
            enc,
            page_rows,
            v2: rng.chance(1, 2),
            stats: *rng.pick(&[StatsMode::Absent, StatsMode::Exact, StatsMode::Exact, StatsMode::DeprecatedOnly, StatsMode::WidenedInexact, StatsMode::NullCountOnly]),
            min_rle_run: *rng.pick(&[1usize, 2, 4, 8, 9, 1000]),
            dbp_block,
            dbp_miniblocks,
        });
        // runs of equal values make RLE and dictionary paths interesting
        let mut cells = Vec::with_capacity(nrows);
        let runny = rng.chance(1, 3);
        let mut prev: Option<Cell> = None;
        for _ in 0..nrows {
            if rng.chance(null_16, 16) {
                cells.push(Cell::Null);
                continue;
            }
            let c = match (&prev, runny && rng.chance(3, 4)) {
                (Some(p), true) => p.clone(),
                _ => gen_cell(ty, rng, narrow),
            };
            prev = Some(c.clone());
            cells.push(c);
        }
        data.push(cells);
    }
    // row groups
    let mut row_groups = Vec::new();
    let mut left = nrows;
    let rg_target = *rng.pick(&[usize::MAX, usize::MAX, 1, 2, 5, 17, 64, 300]);
    while left > 0 {
        let n = left.min(rg_target);
        row_groups.push(n);
        left -= n;
    }
    if nrows == 0 && rng.chance(1, 2) {
        row_groups.push(0);
    }
    FileSpec {
        lies: Vec::new(),
        cols,
        data,
        row_groups,
        codec,
        created_by: if rng.chance(2, 3) { Some("glaresim R-PQ writer".into()) } else { None },
        version: *rng.pick(&[1, 2]),
        v2_flag_uncompressed: rng.chance(1, 12),
        padding: *rng.pick(&[0usize, 0, 0, 1, 7]),
        compress_empty: rng.chance(1, 2),
    }
}

#[cfg(test)]
mod tests {
    use super::*;

    #[test]
    fn hybrid_roundtrip_shape() {
        let v = vec![1u32, 1, 1, 1, 1, 1, 1, 1, 1, 0, 1, 0, 1];
        let b = rle_hybrid(&v, 1, 8);
        assert_eq!(b[0], 9 << 1); // RLE run of nine
        assert_eq!(b[1], 1);
        assert_eq!(b[2], (1 << 1) | 1); // one bit-packed group
    }
}
