//! Self-contained replay files: scenario (scripts, disk, knobs), the choice log
//! and the expectation that was violated. Replaying re-executes the scenario
//! from the file alone and re-applies the same comparison.

use std::collections::BTreeMap;

use serde::{Deserialize, Serialize};

use crate::script::{ClientMode, Outcome, RunReport, Scenario, Stmt};
use crate::sim::{Chooser, Policy, RunEnd, SimConfig};
use crate::simfs::{FsPlan, Gran, SimDisk};
use crate::value::{Row, Value};

#[derive(Debug, Clone, Serialize, Deserialize)]
pub struct StmtFile {
    pub sql: String,
    /// "normal" | "drop:N" | "cancel:N"
    pub mode: String,
}

#[derive(Debug, Clone, Serialize, Deserialize)]
pub struct FsPlanFile {
    pub gran: String,
    pub pending_16: u64,
    pub error_at: Option<u64>,
    pub max_calls: u64,
    pub shuffle_listing: bool,
    pub list_chunk: u64,
}

#[derive(Debug, Clone, Serialize, Deserialize)]
pub struct ScenarioFile {
    #[serde(default)]
    pub entropy: u64,
    #[serde(default)]
    pub table_dims: Option<(usize, usize)>,
    pub sessions: Vec<Vec<StmtFile>>,
    /// path -> hex bytes
    pub disk: BTreeMap<String, String>,
    pub fs: FsPlanFile,
    pub policy: String,
    pub noisy: bool,
    pub max_steps: u64,
    pub default_partitions: u64,
    #[serde(default)]
    pub stack_mb: Option<usize>,
}

/// What the failing statement (or the run) was expected to do.
#[derive(Debug, Clone, Serialize, Deserialize, PartialEq)]
pub enum Expect {
    /// rows equal this bag (float tolerance); `sorted_by` = [(col, desc, nulls)]
    Rows { rows: Vec<Vec<String>>, types: Option<Vec<String>>, sorted_by: Vec<(usize, bool, String)>, ordered_exact: bool },
    /// row count equals, and rows are a sub-bag of `superset`
    Slice { count: usize, superset: Vec<Vec<String>>, sorted_by: Vec<(usize, bool, String)> },
    /// statement must succeed (any rows)
    Success,
    /// statement must fail with an error (e.g. cancelled query)
    Failure,
    /// statement outcome is an error or rows, but never a panic
    NoPanic,
    /// the run must complete (no hang, no panic)
    Completes,
    /// schema check: produced arrays carry the announced types
    SchemaConsistent,
    /// free-form expectation evaluated by the owning check (`check` names it)
    Custom { check: String, data: String },
    /// violated only if every member is violated (used to require that a
    /// mismatch is explained neither by the strict model nor by the model with
    /// the recorded deviations switched on)
    AllOf(Vec<Expect>),
}

#[derive(Debug, Clone, Serialize, Deserialize)]
pub struct ReplayFile {
    pub format: u32,
    pub property: String,
    pub class: String,
    pub layer: String,
    pub seed: u64,
    pub run: u64,
    pub tier: String,
    pub scenario: ScenarioFile,
    pub choices: Vec<u32>,
    pub session: usize,
    pub stmt: usize,
    pub expect: Expect,
    pub observed: String,
    pub detail: String,
    pub trace_digest: String,
}

pub fn enc_value(v: &Value) -> String {
    match v {
        Value::Null => "N".into(),
        Value::Bool(b) => format!("B{}", *b as u8),
        Value::Int(i) => format!("I{i}"),
        Value::Float(f) => format!("F{:016x}", f.to_bits()),
        Value::Str(s) => format!("S{s}"),
        Value::Other(s) => format!("O{s}"),
    }
}

pub fn dec_value(s: &str) -> Value {
    let (tag, rest) = s.split_at(1);
    match tag {
        "N" => Value::Null,
        "B" => Value::Bool(rest == "1"),
        "I" => Value::Int(rest.parse().unwrap_or(0)),
        "F" => Value::Float(f64::from_bits(u64::from_str_radix(rest, 16).unwrap_or(0))),
        "S" => Value::Str(rest.to_string()),
        _ => Value::Other(rest.to_string()),
    }
}

pub fn enc_rows(rows: &[Row]) -> Vec<Vec<String>> {
    rows.iter().map(|r| r.iter().map(enc_value).collect()).collect()
}

pub fn dec_rows(rows: &[Vec<String>]) -> Vec<Row> {
    rows.iter().map(|r| r.iter().map(|s| dec_value(s)).collect()).collect()
}

fn hex(b: &[u8]) -> String {
    let mut s = String::with_capacity(b.len() * 2);
    for x in b {
        s.push_str(&format!("{x:02x}"));
    }
    s
}

fn unhex(s: &str) -> Vec<u8> {
    (0..s.len() / 2).map(|i| u8::from_str_radix(&s[2 * i..2 * i + 2], 16).unwrap_or(0)).collect()
}

pub fn policy_to_string(p: &Policy) -> String {
    match p {
        Policy::Canonical => "canonical".into(),
        Policy::Random => "random".into(),
        Policy::Pct { depth } => format!("pct:{depth}"),
        Policy::Starve { m, r } => format!("starve:{m}:{r}"),
        Policy::RoundRobin => "roundrobin".into(),
        Policy::ClientLast => "clientlast".into(),
        Policy::ClientEager => "clienteager".into(),
        Policy::Reverse => "reverse".into(),
    }
}

pub fn policy_from_string(s: &str) -> Policy {
    let parts: Vec<&str> = s.split(':').collect();
    match parts[0] {
        "random" => Policy::Random,
        "pct" => Policy::Pct { depth: parts.get(1).and_then(|x| x.parse().ok()).unwrap_or(1) },
        "starve" => Policy::Starve { m: parts.get(1).and_then(|x| x.parse().ok()).unwrap_or(2), r: parts.get(2).and_then(|x| x.parse().ok()).unwrap_or(0) },
        "roundrobin" => Policy::RoundRobin,
        "clientlast" => Policy::ClientLast,
        "clienteager" => Policy::ClientEager,
        "reverse" => Policy::Reverse,
        _ => Policy::Canonical,
    }
}

pub fn scenario_to_file(sc: &Scenario) -> ScenarioFile {
    ScenarioFile {
        entropy: sc.entropy,
        table_dims: sc.table_dims,
        sessions: sc
            .sessions
            .iter()
            .map(|s| {
                s.iter()
                    .map(|st| StmtFile {
                        sql: st.sql.clone(),
                        mode: match st.mode {
                            ClientMode::Normal => "normal".into(),
                            ClientMode::DropAfter(n) => format!("drop:{n}"),
                            ClientMode::CancelAfter(n) => format!("cancel:{n}"),
                        },
                    })
                    .collect()
            })
            .collect(),
        disk: sc.disk.files.iter().map(|(k, v)| (k.clone(), hex(v))).collect(),
        fs: FsPlanFile {
            gran: match sc.fs.gran {
                Gran::Whole => "whole".into(),
                Gran::Fixed(n) => format!("fixed:{n}"),
                Gran::Random(n) => format!("random:{n}"),
            },
            pending_16: sc.fs.pending_16,
            error_at: sc.fs.error_at,
            max_calls: sc.fs.max_calls,
            shuffle_listing: sc.fs.shuffle_listing,
            list_chunk: sc.fs.list_chunk.min(u32::MAX as usize) as u64,
        },
        policy: policy_to_string(&sc.sim.policy),
        noisy: sc.sim.noisy,
        max_steps: sc.sim.max_steps,
        default_partitions: sc.sim.default_partitions as u64,
        stack_mb: if sc.stack_mb == 256 { None } else { Some(sc.stack_mb) },
    }
}

pub fn scenario_from_file(f: &ScenarioFile) -> Scenario {
    let mut disk = SimDisk::default();
    for (k, v) in &f.disk {
        disk.put(k, unhex(v));
    }
    let gran = {
        let p: Vec<&str> = f.fs.gran.split(':').collect();
        match p[0] {
            "fixed" => Gran::Fixed(p.get(1).and_then(|x| x.parse().ok()).unwrap_or(1)),
            "random" => Gran::Random(p.get(1).and_then(|x| x.parse().ok()).unwrap_or(1)),
            _ => Gran::Whole,
        }
    };
    Scenario {
        entropy: f.entropy,
        table_dims: f.table_dims,
        sessions: f
            .sessions
            .iter()
            .map(|s| {
                s.iter()
                    .map(|st| {
                        let p: Vec<&str> = st.mode.split(':').collect();
                        let n = p.get(1).and_then(|x| x.parse().ok()).unwrap_or(0);
                        Stmt {
                            sql: st.sql.clone(),
                            mode: match p[0] {
                                "drop" => ClientMode::DropAfter(n),
                                "cancel" => ClientMode::CancelAfter(n),
                                _ => ClientMode::Normal,
                            },
                        }
                    })
                    .collect()
            })
            .collect(),
        disk,
        fs: FsPlan {
            gran,
            pending_16: f.fs.pending_16,
            error_at: f.fs.error_at,
            max_calls: f.fs.max_calls,
            shuffle_listing: f.fs.shuffle_listing,
            list_chunk: if f.fs.list_chunk >= u32::MAX as u64 { usize::MAX } else { f.fs.list_chunk as usize },
        },
        sim: SimConfig { policy: policy_from_string(&f.policy), noisy: f.noisy, max_steps: f.max_steps, default_partitions: f.default_partitions as usize, keep_events: 200 },
        stack_mb: f.stack_mb.unwrap_or(256),
    }
}

pub fn write_replay(dir: &str, r: &ReplayFile) -> std::io::Result<String> {
    std::fs::create_dir_all(dir)?;
    let path = format!("{dir}/{}-{}-{}-{}.json", r.property, r.tier, r.seed, r.run);
    let s = serde_json::to_string_pretty(r).unwrap();
    std::fs::write(&path, s)?;
    Ok(path)
}

pub fn read_replay(path: &str) -> Result<ReplayFile, String> {
    let s = std::fs::read_to_string(path).map_err(|e| format!("{path}: {e}"))?;
    serde_json::from_str(&s).map_err(|e| format!("{path}: {e}"))
}

/// Short description of what a run did at (session, stmt) for reports.
pub fn observe(rep: &RunReport, session: usize, stmt: usize) -> String {
    match &rep.end {
        RunEnd::Completed => {}
        other => return format!("run ended: {other:?}"),
    }
    match rep.outcomes.get(session).and_then(|s| s.get(stmt)) {
        None => "statement not reached".into(),
        Some(o) => match &o.outcome {
            Outcome::Rows(t) => format!("rows={} types={:?} first={:?}", t.rows.len(), t.types, crate::value::render_rows(&t.rows, 8)),
            Outcome::Error { msg, planned } => format!("error(planned={planned}): {}", msg.lines().next().unwrap_or("")),
            Outcome::Dropped { .. } => "dropped".into(),
            Outcome::Panic { msg } => format!("panic: {msg}"),
        },
    }
}

pub fn replay_chooser(r: &ReplayFile) -> Chooser {
    Chooser::replaying(r.choices.clone())
}
