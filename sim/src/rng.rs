//! One PRNG decides everything: SplitMix64 with labelled forks.
//!
//! Nothing in this module reads a clock or any other ambient state.

#[derive(Clone, Debug)]
pub struct Rng {
    s: u64,
}

fn mix(mut z: u64) -> u64 {
    z = (z ^ (z >> 30)).wrapping_mul(0xbf58476d1ce4e5b9);
    z = (z ^ (z >> 27)).wrapping_mul(0x94d049bb133111eb);
    z ^ (z >> 31)
}

pub fn hash_str(s: &str) -> u64 {
    let mut h: u64 = 0xcbf29ce484222325;
    for b in s.as_bytes() {
        h ^= *b as u64;
        h = h.wrapping_mul(0x100000001b3);
    }
    h
}

impl Rng {
    pub fn new(seed: u64) -> Self {
        Rng { s: mix(seed ^ 0x9e3779b97f4a7c15) }
    }

    /// Independent sub-stream for `label`; does not advance `self`.
    pub fn fork(&self, label: &str) -> Rng {
        Rng { s: mix(self.s ^ hash_str(label).rotate_left(17)) }
    }

    pub fn fork_idx(&self, label: &str, idx: u64) -> Rng {
        Rng { s: mix(mix(self.s ^ hash_str(label).rotate_left(17)) ^ idx.wrapping_mul(0x9e3779b97f4a7c15)) }
    }

    pub fn next_u64(&mut self) -> u64 {
        self.s = self.s.wrapping_add(0x9e3779b97f4a7c15);
        mix(self.s)
    }

    /// Uniform in 0..n (n > 0).
    pub fn below(&mut self, n: u64) -> u64 {
        debug_assert!(n > 0);
        // multiply-shift; bias is irrelevant here
        ((self.next_u64() as u128 * n as u128) >> 64) as u64
    }

    pub fn usize_below(&mut self, n: usize) -> usize {
        self.below(n as u64) as usize
    }

    /// Inclusive range.
    pub fn range(&mut self, lo: i64, hi: i64) -> i64 {
        debug_assert!(lo <= hi);
        lo + self.below((hi - lo) as u64 + 1) as i64
    }

    pub fn chance(&mut self, num: u64, den: u64) -> bool {
        self.below(den) < num
    }

    pub fn f64(&mut self) -> f64 {
        (self.next_u64() >> 11) as f64 / (1u64 << 53) as f64
    }

    pub fn pick<'a, T>(&mut self, xs: &'a [T]) -> &'a T {
        &xs[self.usize_below(xs.len())]
    }

    pub fn pick_weighted<'a, T>(&mut self, xs: &'a [(u32, T)]) -> &'a T {
        let total: u64 = xs.iter().map(|x| x.0 as u64).sum();
        let mut r = self.below(total.max(1));
        for (w, t) in xs {
            if r < *w as u64 {
                return t;
            }
            r -= *w as u64;
        }
        &xs[xs.len() - 1].1
    }

    pub fn shuffle<T>(&mut self, xs: &mut [T]) {
        for i in (1..xs.len()).rev() {
            let j = self.usize_below(i + 1);
            xs.swap(i, j);
        }
    }
}

/// FNV-1a style running digest for event traces.
#[derive(Clone, Copy, Debug)]
pub struct Digest(pub u64);

impl Digest {
    pub fn new() -> Self {
        Digest(0xcbf29ce484222325)
    }
    pub fn u64(&mut self, v: u64) {
        for i in 0..8 {
            self.0 ^= (v >> (i * 8)) & 0xff;
            self.0 = self.0.wrapping_mul(0x100000001b3);
        }
    }
    pub fn bytes(&mut self, b: &[u8]) {
        for x in b {
            self.0 ^= *x as u64;
            self.0 = self.0.wrapping_mul(0x100000001b3);
        }
        self.u64(b.len() as u64);
    }
    pub fn str(&mut self, s: &str) {
        self.bytes(s.as_bytes())
    }
}
