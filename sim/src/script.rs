//! Scenario = sessions with scripts + disk image + fs plan + sim config.
//! `run_scenario` executes one world and returns everything the oracles need.

use std::cell::RefCell;
use std::future::Future;
use std::pin::Pin;
use std::rc::Rc;
use std::sync::Arc;
use std::sync::atomic::Ordering;
use std::task::Poll;

use glaredb_core::engine::Engine;
use glaredb_core::engine::session::Session;
use glaredb_core::runtime::filesystem::dispatch::FileSystemDispatch;
use glaredb_ext_csv::extension::CsvExtension;
use glaredb_ext_parquet::extension::ParquetExtension;

use crate::sim::{Chooser, RunEnd, SimConfig, SimRuntime, SimStats, SimSystem, TaskId, World};
use crate::simfs::{FsPlan, SimDisk, SimFs};
use crate::value::{Table, append_batch};

#[derive(Debug, Clone, PartialEq)]
pub enum ClientMode {
    Normal,
    /// poll the result at most n times, then drop it and go on
    DropAfter(u32),
    /// poll the result n times, then cancel the query and keep pulling
    CancelAfter(u32),
}

#[derive(Debug, Clone)]
pub struct Stmt {
    pub sql: String,
    pub mode: ClientMode,
}

impl Stmt {
    pub fn new(sql: impl Into<String>) -> Stmt {
        Stmt { sql: sql.into(), mode: ClientMode::Normal }
    }
}

#[derive(Debug, Clone)]
pub struct Scenario {
    /// seed of the only entropy source the process has (see entropy.rs)
    pub entropy: u64,
    /// hook H3: (segment size in chunks, chunk capacity in rows) of tables
    /// created in this world; None = the engine's constants (16, 2048)
    pub table_dims: Option<(usize, usize)>,
    pub sessions: Vec<Vec<Stmt>>,
    pub disk: SimDisk,
    pub fs: FsPlan,
    pub sim: SimConfig,
    /// stack size of the world thread in MiB (planning recursion runs on it);
    /// 256 unless a check wants the 8 MiB of an ordinary main thread
    pub stack_mb: usize,
}

impl Scenario {
    pub fn single(script: Vec<Stmt>) -> Scenario {
        Scenario { entropy: 1, table_dims: None, sessions: vec![script], disk: SimDisk::default(), fs: FsPlan::default(), sim: SimConfig::default(), stack_mb: 256 }
    }
}

#[derive(Debug, Clone)]
pub enum Outcome {
    Rows(Table),
    /// error text; `planned` tells whether planning had succeeded
    Error { msg: String, planned: bool },
    /// client dropped the result early on purpose
    Dropped { rows_seen: usize },
    /// the engine panicked while this statement was being planned/pulled on the
    /// client side (a pipeline-task panic surfaces as `RunEnd::Panic` instead)
    Panic { msg: String },
}

impl Outcome {
    pub fn is_err(&self) -> bool {
        matches!(self, Outcome::Error { .. })
    }
    pub fn rows(&self) -> Option<&Table> {
        match self {
            Outcome::Rows(t) => Some(t),
            _ => None,
        }
    }
    pub fn err(&self) -> Option<&str> {
        match self {
            Outcome::Error { msg, .. } => Some(msg),
            _ => None,
        }
    }
}

#[derive(Debug, Clone)]
pub struct StmtOutcome {
    pub outcome: Outcome,
    /// simulator step count when the statement ended
    pub end_step: u64,
}

#[derive(Debug)]
pub struct RunReport {
    pub end: RunEnd,
    /// per session, per finished statement
    pub outcomes: Vec<Vec<StmtOutcome>>,
    /// per session: index of the statement in flight when the run ended
    pub in_flight: Vec<usize>,
    pub stats: SimStats,
    pub trace: u64,
    pub choices: Vec<u32>,
    pub io_stats: std::collections::BTreeMap<&'static str, u64>,
    pub fs_budget_exceeded: bool,
    pub fs_errors_fired: u64,
    pub fs_opens: Vec<String>,
    pub task_table: Vec<(TaskId, u64, &'static str, bool)>,
    pub parked_desc: Vec<String>,
    pub events: Vec<(u64, TaskId, u8)>,
}

struct ClientShared {
    outcomes: Vec<StmtOutcome>,
    current: usize,
    boundary: bool,
}

pub type SimEngine = Engine<SimRuntime, SimSystem>;
pub type SimSession = Session<SimRuntime, SimSystem>;

fn step_counter() -> u64 {
    crate::sim::sim_now()
}

async fn run_stmt(session: &mut SimSession, stmt: &Stmt) -> Outcome {
    let mut results = match session.simple(&stmt.sql).await {
        Ok(r) => r,
        Err(e) => return Outcome::Error { msg: format!("{e}"), planned: false },
    };
    if results.len() != 1 {
        return Outcome::Error { msg: format!("expected 1 statement result, got {}", results.len()), planned: false };
    }
    let mut qr = results.pop().unwrap();
    let mut table = Table {
        names: qr.output_schema.fields.iter().map(|f| f.name.clone()).collect(),
        types: qr.output_schema.fields.iter().map(|f| format!("{}", f.datatype)).collect(),
        ..Default::default()
    };
    let handle = qr.output.query_handle();
    let (limit, cancel) = match stmt.mode {
        ClientMode::Normal => (u32::MAX, false),
        ClientMode::DropAfter(n) => (n, false),
        ClientMode::CancelAfter(n) => (n, true),
    };
    let mut polls = 0u32;
    let mut cancelled = false;
    let res = {
        let mut fut: Pin<Box<dyn Future<Output = _>>> = Box::pin(qr.output.collect());
        std::future::poll_fn(|cx| {
            if polls >= limit {
                if cancel {
                    if !cancelled {
                        cancelled = true;
                        handle.cancel();
                        // make sure we get polled again even if nothing else wakes us
                        cx.waker().wake_by_ref();
                        return Poll::Pending;
                    }
                } else {
                    return Poll::Ready(None);
                }
            }
            polls += 1;
            fut.as_mut().poll(cx).map(Some)
        })
        .await
    };
    match res {
        None => Outcome::Dropped { rows_seen: 0 },
        Some(Err(e)) => Outcome::Error { msg: format!("{e}"), planned: true },
        Some(Ok(batches)) => {
            for b in &batches {
                if let Err(e) = append_batch(&mut table, b) {
                    return Outcome::Error { msg: format!("harness: {e}"), planned: true };
                }
            }
            Outcome::Rows(table)
        }
    }
}

pub fn build_engine(world: &World, disk: SimDisk, plan: FsPlan) -> Result<(SimEngine, SimFs), String> {
    let fs = SimFs::new(disk, plan, world.shared.clone());
    let mut dispatch = FileSystemDispatch::empty();
    dispatch.register_filesystem(fs.clone());
    let sys = SimSystem { dispatch: Arc::new(dispatch) };
    let engine = Engine::new(world.runtime(), sys).map_err(|e| format!("engine: {e}"))?;
    engine.register_extension(CsvExtension).map_err(|e| format!("csv ext: {e}"))?;
    engine.register_extension(ParquetExtension).map_err(|e| format!("parquet ext: {e}"))?;
    Ok((engine, fs))
}

/// Execute a scenario in a fresh world. `announce` is called (from inside the
/// client) with (session, stmt index) before each statement starts; used by
/// child-process workers to tell the supervisor what is in flight.
pub fn run_scenario(sc: &Scenario, chooser: Chooser, announce: Option<&(dyn Fn(usize, usize) + Sync)>) -> RunReport {
    // Every world runs on a fresh OS thread: std's per-thread hash keys and the
    // simulated clock start from a state that is a function of the scenario.
    std::thread::scope(|s| {
        std::thread::Builder::new()
            .stack_size(std::env::var("VERIF_STACK_MB").ok().and_then(|s| s.parse::<usize>().ok()).map(|m| m.min(sc.stack_mb)).unwrap_or(sc.stack_mb).max(1) << 20)
            .spawn_scoped(s, || {
                crate::entropy::set_entropy(sc.entropy);
                glaredb_core::verif::set_datatable_dims(sc.table_dims);
                run_scenario_here(sc, chooser, announce)
            })
            .expect("spawn world thread")
            .join()
            .expect("world thread")
    })
}

fn run_scenario_here(sc: &Scenario, chooser: Chooser, announce: Option<&(dyn Fn(usize, usize) + Sync)>) -> RunReport {
    let mut world = World::new(sc.sim.clone(), chooser);
    let (engine, fs) = match build_engine(&world, sc.disk.clone(), sc.fs.clone()) {
        Ok(x) => x,
        Err(e) => panic!("harness: cannot build engine: {e}"),
    };
    let engine = Rc::new(engine);

    let mut shareds: Vec<Rc<RefCell<ClientShared>>> = Vec::new();
    let mut client_ids: Vec<TaskId> = Vec::new();
    // `announce` must outlive the futures; erase the lifetime through a raw
    // pointer that is only dereferenced while `run_scenario` is on the stack.
    let announce_ptr: Option<*const (dyn Fn(usize, usize) + Sync)> = announce.map(|a| unsafe { std::mem::transmute::<&(dyn Fn(usize, usize) + Sync), *const (dyn Fn(usize, usize) + Sync)>(a) });

    for (si, script) in sc.sessions.iter().enumerate() {
        let cs = Rc::new(RefCell::new(ClientShared { outcomes: Vec::new(), current: 0, boundary: false }));
        shareds.push(cs.clone());
        let script = script.clone();
        let engine = engine.clone();
        let fut = async move {
            let mut session = match engine.new_session() {
                Ok(s) => s,
                Err(e) => {
                    cs.borrow_mut().outcomes.push(StmtOutcome { outcome: Outcome::Error { msg: format!("new_session: {e}"), planned: false }, end_step: 0 });
                    return;
                }
            };
            for (i, stmt) in script.iter().enumerate() {
                cs.borrow_mut().current = i;
                if let Some(p) = announce_ptr {
                    unsafe { (*p)(si, i) };
                }
                let outcome = {
                    let mut fut: Pin<Box<dyn Future<Output = Outcome> + '_>> = Box::pin(run_stmt(&mut session, stmt));
                    std::future::poll_fn(|cx| match std::panic::catch_unwind(std::panic::AssertUnwindSafe(|| fut.as_mut().poll(cx))) {
                        Ok(p) => p,
                        Err(_) => Poll::Ready(Outcome::Panic { msg: crate::sim::take_last_panic().unwrap_or_else(|| "<panic>".into()) }),
                    })
                    .await
                };
                let mut c = cs.borrow_mut();
                c.outcomes.push(StmtOutcome { outcome, end_step: step_counter() });
                c.boundary = true;
                c.current = i + 1;
            }
        };
        let id = world.add_client(Box::pin(fut));
        client_ids.push(id);
    }

    let boundary = |id: TaskId| -> bool {
        for (i, cid) in client_ids.iter().enumerate() {
            if *cid == id {
                let mut c = shareds[i].borrow_mut();
                let b = c.boundary;
                c.boundary = false;
                return b;
            }
        }
        false
    };
    let end = world.run(&boundary);
    let end_is_hang = matches!(end, RunEnd::LostWakeup { .. } | RunEnd::NoProgress);

    let outcomes: Vec<Vec<StmtOutcome>> = shareds.iter().map(|s| s.borrow().outcomes.clone()).collect();
    let in_flight: Vec<usize> = shareds.iter().map(|s| s.borrow().current).collect();
    let mut trace = world.trace;
    for (si, s) in outcomes.iter().enumerate() {
        for (i, o) in s.iter().enumerate() {
            trace.u64(si as u64);
            trace.u64(i as u64);
            match &o.outcome {
                Outcome::Rows(t) => {
                    trace.u64(t.rows.len() as u64);
                    trace.u64(t.batches as u64);
                }
                Outcome::Error { msg, .. } => trace.str(msg),
                Outcome::Dropped { .. } => trace.u64(0xdead),
                Outcome::Panic { msg } => trace.str(msg),
            }
        }
    }
    RunReport {
        end,
        outcomes,
        in_flight,
        stats: world.stats.clone(),
        trace: trace.0,
        choices: world.take_choices(),
        io_stats: world.shared.io_stats.lock().unwrap().clone(),
        fs_budget_exceeded: fs.core.budget_exceeded.load(Ordering::Relaxed),
        fs_errors_fired: fs.core.errors_fired.load(Ordering::Relaxed),
        fs_opens: fs.core.opens.lock().unwrap().clone(),
        task_table: world.task_table(),
        parked_desc: if matches!(end_is_hang, true) { world.describe_parked() } else { vec![] },
        events: std::mem::take(&mut world.events),
    }
}
