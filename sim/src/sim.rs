//! L1: poll-granularity discrete-event simulator.
//!
//! Owns the `PipelineRuntime`, `SystemRuntime` and `RuntimeInstant` seams.
//! A single OS thread runs one world; every decision (which task is polled
//! next, wake delivery, I/O readiness) is taken through a `Chooser`, which
//! either draws from the run's PRNG and logs the decision, or replays a log.

use std::cell::Cell;
use std::collections::BTreeMap;
use std::future::Future;
use std::panic::{AssertUnwindSafe, catch_unwind};
use std::pin::Pin;
use std::sync::atomic::{AtomicU64, Ordering};
use std::sync::{Arc, Mutex};
use std::task::{Context, Poll, Wake, Waker};
use std::time::Duration;

use glaredb_core::execution::partition_pipeline::ExecutablePartitionPipeline;
use glaredb_core::runtime::filesystem::dispatch::FileSystemDispatch;
use glaredb_core::runtime::pipeline::{ErrorSink, PipelineRuntime, QueryHandle};
use glaredb_core::runtime::profile_buffer::{ProfileBuffer, ProfileSink};
use glaredb_core::runtime::system::SystemRuntime;
use glaredb_core::runtime::time::RuntimeInstant;
use glaredb_error::DbError;

use crate::rng::{Digest, Rng};

pub type TaskId = usize;

// ---------------------------------------------------------------------------
// Simulated clock

thread_local! {
    static SIM_NOW: Cell<u64> = const { Cell::new(0) };
}

pub fn sim_now() -> u64 {
    SIM_NOW.with(|c| c.get())
}

fn set_sim_now(v: u64) {
    SIM_NOW.with(|c| c.set(v))
}

#[derive(Debug, Clone, Copy)]
pub struct SimInstant(u64);

impl RuntimeInstant for SimInstant {
    fn now() -> Self {
        SimInstant(sim_now())
    }
    fn duration_since(&self, earlier: Self) -> Duration {
        Duration::from_micros(self.0.saturating_sub(earlier.0))
    }
}

// ---------------------------------------------------------------------------
// Chooser: every run-time decision goes through here.

#[derive(Debug, Clone)]
pub struct Chooser {
    rng: Rng,
    replay: Option<Vec<u32>>,
    pos: usize,
    pub log: Vec<u32>,
}

impl Chooser {
    pub fn generating(rng: Rng) -> Self {
        Chooser { rng, replay: None, pos: 0, log: Vec::new() }
    }

    pub fn replaying(choices: Vec<u32>) -> Self {
        Chooser { rng: Rng::new(0), replay: Some(choices), pos: 0, log: Vec::new() }
    }

    pub fn is_replay(&self) -> bool {
        self.replay.is_some()
    }

    /// Decide a value in 0..n. In generating mode `f` computes it (it may use
    /// the rng and any policy state); in replay mode the logged value is used
    /// (0 past the end of the log).
    pub fn decide(&mut self, n: usize, f: impl FnOnce(&mut Rng) -> usize) -> usize {
        debug_assert!(n > 0);
        let v = match &self.replay {
            Some(r) => {
                let v = r.get(self.pos).copied().unwrap_or(0) as usize;
                self.pos += 1;
                v % n
            }
            None => {
                let v = f(&mut self.rng);
                debug_assert!(v < n);
                v
            }
        };
        self.log.push(v as u32);
        v
    }

    pub fn uniform(&mut self, n: usize) -> usize {
        self.decide(n, |r| r.usize_below(n))
    }

    /// true with probability num/den; logged as 0/1.
    pub fn chance(&mut self, num: u64, den: u64) -> bool {
        if num == 0 {
            return false;
        }
        self.decide(2, |r| r.chance(num, den) as usize) == 1
    }
}

// ---------------------------------------------------------------------------
// Shared state reachable from the engine side (must be Send + Sync).

struct SpawnReq {
    query: u64,
    pipelines: Vec<ExecutablePartitionPipeline>,
    errors: Arc<dyn ErrorSink>,
    sinks: Vec<ProfileSink>,
}

pub struct Shared {
    wakes: Mutex<Vec<TaskId>>,
    spawned: Mutex<Vec<SpawnReq>>,
    cancels: Mutex<Vec<u64>>,
    timers: Mutex<Vec<(u64, u64, Waker)>>,
    timer_seq: AtomicU64,
    next_query: AtomicU64,
    pub default_partitions: usize,
    pub chooser: Mutex<Chooser>,
    pub io_stats: Mutex<BTreeMap<&'static str, u64>>,
}

impl std::fmt::Debug for Shared {
    fn fmt(&self, f: &mut std::fmt::Formatter<'_>) -> std::fmt::Result {
        f.write_str("Shared")
    }
}

impl Shared {
    /// Register a waker to be woken `delay` ticks from now (I/O completion).
    pub fn wake_after(&self, delay: u64, waker: Waker) {
        let seq = self.timer_seq.fetch_add(1, Ordering::Relaxed);
        self.timers.lock().unwrap().push((sim_now() + delay, seq, waker));
    }

    pub fn count(&self, what: &'static str) {
        *self.io_stats.lock().unwrap().entry(what).or_insert(0) += 1;
    }
}

struct SimWaker {
    id: TaskId,
    shared: Arc<Shared>,
}

impl Wake for SimWaker {
    fn wake(self: Arc<Self>) {
        self.shared.wakes.lock().unwrap().push(self.id);
    }
    fn wake_by_ref(self: &Arc<Self>) {
        self.shared.wakes.lock().unwrap().push(self.id);
    }
}

#[derive(Debug, Clone)]
pub struct SimRuntime {
    pub shared: Arc<Shared>,
}

#[derive(Debug)]
pub struct SimQueryHandle {
    query: u64,
    shared: Arc<Shared>,
    profiles: ProfileBuffer,
}

impl QueryHandle for SimQueryHandle {
    fn cancel(&self) {
        self.shared.cancels.lock().unwrap().push(self.query);
    }
    fn get_profile_buffer(&self) -> &ProfileBuffer {
        &self.profiles
    }
}

impl PipelineRuntime for SimRuntime {
    fn default_partitions(&self) -> usize {
        self.shared.default_partitions
    }

    fn spawn_pipelines(
        &self,
        pipelines: Vec<ExecutablePartitionPipeline>,
        errors: Arc<dyn ErrorSink>,
    ) -> Arc<dyn QueryHandle> {
        let query = self.shared.next_query.fetch_add(1, Ordering::Relaxed);
        let (profiles, sinks) = ProfileBuffer::new(pipelines.len());
        let sinks: Vec<ProfileSink> = sinks.collect();
        self.shared.spawned.lock().unwrap().push(SpawnReq { query, pipelines, errors, sinks });
        Arc::new(SimQueryHandle { query, shared: self.shared.clone(), profiles })
    }
}

#[derive(Debug, Clone)]
pub struct SimSystem {
    pub dispatch: Arc<FileSystemDispatch>,
}

impl SystemRuntime for SimSystem {
    type Instant = SimInstant;
    fn filesystem_dispatch(&self) -> &FileSystemDispatch {
        &self.dispatch
    }
}

// ---------------------------------------------------------------------------
// Scheduling policies

#[derive(Debug, Clone, PartialEq)]
pub enum Policy {
    /// Lowest runnable id, clients first: defines the sequential reference run.
    Canonical,
    Random,
    /// PCT-style: fixed random priorities, `d` priority change points.
    Pct { depth: u32 },
    /// Tasks with id % m == r run only when nothing else can.
    Starve { m: usize, r: usize },
    RoundRobin,
    /// Clients run only when no pipeline task can (max back-pressure).
    ClientLast,
    /// Clients run whenever they can.
    ClientEager,
    /// Highest runnable id first (reverse of canonical).
    Reverse,
}

impl Policy {
    pub fn name(&self) -> String {
        match self {
            Policy::Canonical => "canonical".into(),
            Policy::Random => "random".into(),
            Policy::Pct { depth } => format!("pct{depth}"),
            Policy::Starve { m, r } => format!("starve{r}of{m}"),
            Policy::RoundRobin => "roundrobin".into(),
            Policy::ClientLast => "clientlast".into(),
            Policy::ClientEager => "clienteager".into(),
            Policy::Reverse => "reverse".into(),
        }
    }

    pub fn draw(rng: &mut Rng) -> Policy {
        match rng.below(12) {
            0..=3 => Policy::Random,
            4 | 5 => Policy::Pct { depth: 1 + rng.below(4) as u32 },
            6 | 7 => {
                let m = 2 + rng.usize_below(4);
                Policy::Starve { m, r: rng.usize_below(m) }
            }
            8 => Policy::RoundRobin,
            9 => Policy::ClientLast,
            10 => Policy::ClientEager,
            _ => Policy::Reverse,
        }
    }
}

#[derive(Debug, Clone)]
pub struct SimConfig {
    pub policy: Policy,
    /// Inject spurious polls / duplicate wakes / delayed wakes. Never combined
    /// with the lost-wake-up detector's claim (a spurious poll can mask one).
    pub noisy: bool,
    pub max_steps: u64,
    pub default_partitions: usize,
    /// keep the first N scheduling events for evidence samples
    pub keep_events: usize,
}

impl Default for SimConfig {
    fn default() -> Self {
        SimConfig {
            policy: Policy::Canonical,
            noisy: false,
            max_steps: 2_000_000,
            default_partitions: 4,
            keep_events: 0,
        }
    }
}

// ---------------------------------------------------------------------------
// World

#[derive(Debug, Clone, Copy, PartialEq, Eq)]
enum TState {
    Runnable,
    Parked,
    Done,
    Failed,
    Orphaned,
}

enum TKind {
    Client(Pin<Box<dyn Future<Output = ()>>>),
    Pipeline {
        p: Box<ExecutablePartitionPipeline>,
        errors: Arc<dyn ErrorSink>,
        sink: ProfileSink,
        query: u64,
    },
    Gone,
}

struct Task {
    kind: TKind,
    state: TState,
    /// wakes received while runnable/being polled -> at least one more poll
    extra_wake: bool,
    polls: u64,
    owner: TaskId,
    prio: u64,
    waker: Waker,
}

#[derive(Debug, Clone, PartialEq)]
pub enum RunEnd {
    /// All clients finished.
    Completed,
    /// No runnable task, no pending timer, a client is not finished.
    LostWakeup { parked: Vec<TaskId> },
    /// Step budget exhausted.
    NoProgress,
    /// A poll panicked.
    Panic { msg: String, task: TaskId },
}

#[derive(Debug, Default, Clone)]
pub struct SimStats {
    pub steps: u64,
    pub polls_pending: u64,
    pub polls_ready: u64,
    pub polls_err: u64,
    pub tasks_spawned: u64,
    pub queries: u64,
    pub wakes: u64,
    pub wakes_while_runnable: u64,
    pub spurious_polls: u64,
    pub dup_wakes: u64,
    pub delayed_wakes: u64,
    pub timer_jumps: u64,
    pub orphaned: u64,
    pub cancels: u64,
    pub dropped_wakes_done: u64,
    pub max_live_tasks: u64,
    /// number of scheduling decisions with more than one candidate
    pub real_choices: u64,
    /// steps at which >= 2 pipeline tasks of the same world were parked at once
    pub sim_time: u64,
}

pub struct World {
    pub shared: Arc<Shared>,
    tasks: Vec<Task>,
    clients: Vec<TaskId>,
    cfg: SimConfig,
    rr_cursor: usize,
    pct_change_steps: Vec<u64>,
    pub stats: SimStats,
    pub trace: Digest,
    pub events: Vec<(u64, TaskId, u8)>,
    current_client: TaskId,
}

thread_local! {
    static LAST_PANIC: std::cell::RefCell<Option<String>> = const { std::cell::RefCell::new(None) };
}

pub fn install_quiet_panic_hook() {
    let loud = std::env::var("VERIF_LOUD").is_ok();
    std::panic::set_hook(Box::new(move |info| {
        if loud {
            eprintln!("panic: {info}\n{}", std::backtrace::Backtrace::force_capture());
        }
        let msg = if let Some(s) = info.payload().downcast_ref::<&str>() {
            s.to_string()
        } else if let Some(s) = info.payload().downcast_ref::<String>() {
            s.clone()
        } else {
            "<non-string panic>".to_string()
        };
        let loc = info.location().map(|l| format!("{}:{}", l.file(), l.line())).unwrap_or_default();
        LAST_PANIC.with(|p| *p.borrow_mut() = Some(format!("{msg} @ {loc}")));
    }));
}

pub fn take_last_panic() -> Option<String> {
    LAST_PANIC.with(|p| p.borrow_mut().take())
}

impl World {
    pub fn new(cfg: SimConfig, chooser: Chooser) -> World {
        set_sim_now(0);
        let shared = Arc::new(Shared {
            wakes: Mutex::new(Vec::new()),
            spawned: Mutex::new(Vec::new()),
            cancels: Mutex::new(Vec::new()),
            timers: Mutex::new(Vec::new()),
            timer_seq: AtomicU64::new(0),
            next_query: AtomicU64::new(0),
            default_partitions: cfg.default_partitions,
            chooser: Mutex::new(chooser),
            io_stats: Mutex::new(BTreeMap::new()),
        });
        World {
            shared,
            tasks: Vec::new(),
            clients: Vec::new(),
            cfg,
            rr_cursor: 0,
            pct_change_steps: Vec::new(),
            stats: SimStats::default(),
            trace: Digest::new(),
            events: Vec::new(),
            current_client: 0,
        }
    }

    pub fn runtime(&self) -> SimRuntime {
        SimRuntime { shared: self.shared.clone() }
    }

    pub fn take_choices(&self) -> Vec<u32> {
        self.shared.chooser.lock().unwrap().log.clone()
    }

    fn new_task(&mut self, kind: TKind, owner: TaskId) -> TaskId {
        let id = self.tasks.len();
        let waker: Waker = Arc::new(SimWaker { id, shared: self.shared.clone() }).into();
        // priorities are a pure function of the id and a per-world salt drawn
        // lazily from the chooser (only under PCT).
        let prio = match self.cfg.policy {
            Policy::Pct { .. } => {
                let mut ch = self.shared.chooser.lock().unwrap();
                1000 + ch.uniform(1_000_000) as u64
            }
            _ => 0,
        };
        self.tasks.push(Task { kind, state: TState::Runnable, extra_wake: false, polls: 0, owner, prio, waker });
        id
    }

    pub fn add_client(&mut self, fut: Pin<Box<dyn Future<Output = ()>>>) -> TaskId {
        let id = self.new_task(TKind::Client(fut), usize::MAX);
        self.tasks[id].owner = id;
        self.clients.push(id);
        id
    }

    fn is_client(&self, id: TaskId) -> bool {
        matches!(self.tasks[id].kind, TKind::Client(_))
    }

    fn absorb_spawned(&mut self) {
        let reqs: Vec<SpawnReq> = std::mem::take(&mut *self.shared.spawned.lock().unwrap());
        for req in reqs {
            self.stats.queries += 1;
            let owner = self.current_client;
            for (p, sink) in req.pipelines.into_iter().zip(req.sinks) {
                self.stats.tasks_spawned += 1;
                self.new_task(
                    TKind::Pipeline { p: Box::new(p), errors: req.errors.clone(), sink, query: req.query },
                    owner,
                );
            }
        }
    }

    fn deliver_wake(&mut self, id: TaskId) {
        let t = &mut self.tasks[id];
        match t.state {
            TState::Parked => t.state = TState::Runnable,
            TState::Runnable => {
                t.extra_wake = true;
                self.stats.wakes_while_runnable += 1;
            }
            TState::Done | TState::Failed | TState::Orphaned => self.stats.dropped_wakes_done += 1,
        }
    }

    fn absorb_wakes(&mut self) {
        let wakes: Vec<TaskId> = std::mem::take(&mut *self.shared.wakes.lock().unwrap());
        for id in wakes {
            self.stats.wakes += 1;
            if self.cfg.noisy {
                let (dup, delay) = {
                    let mut ch = self.shared.chooser.lock().unwrap();
                    let dup = ch.chance(1, 8);
                    let delay = if ch.chance(1, 6) { 1 + ch.uniform(12) as u64 } else { 0 };
                    (dup, delay)
                };
                if delay > 0 {
                    self.stats.delayed_wakes += 1;
                    let w = self.tasks[id].waker.clone();
                    self.shared.wake_after(delay, w);
                    // the delayed delivery comes back through `wakes` once; to
                    // avoid re-delaying forever it is marked by the timer path
                    // calling deliver directly (see fire_timers).
                    continue;
                }
                self.deliver_wake(id);
                if dup {
                    self.stats.dup_wakes += 1;
                    self.deliver_wake(id);
                }
            } else {
                self.deliver_wake(id);
            }
        }
    }

    /// Fire all timers due at or before now. Wakers are collected first and
    /// invoked with no lock held.
    fn fire_timers(&mut self) {
        let now = sim_now();
        let mut due: Vec<(u64, u64, Waker)> = Vec::new();
        {
            let mut timers = self.shared.timers.lock().unwrap();
            let mut i = 0;
            while i < timers.len() {
                if timers[i].0 <= now {
                    due.push(timers.swap_remove(i));
                } else {
                    i += 1;
                }
            }
        }
        due.sort_by_key(|t| (t.0, t.1));
        for (_, _, w) in due {
            w.wake();
        }
        // Timer-delivered wakes are final: deliver without noise.
        let wakes: Vec<TaskId> = std::mem::take(&mut *self.shared.wakes.lock().unwrap());
        for id in wakes {
            self.stats.wakes += 1;
            self.deliver_wake(id);
        }
    }

    fn next_timer(&self) -> Option<u64> {
        self.shared.timers.lock().unwrap().iter().map(|t| t.0).min()
    }

    fn absorb_cancels(&mut self) {
        let cancels: Vec<u64> = std::mem::take(&mut *self.shared.cancels.lock().unwrap());
        for q in cancels {
            self.stats.cancels += 1;
            // Same observable contract as the native handle: every task of the
            // query that is not complete reports "Query canceled" when it is
            // next scheduled. At L1 the harness's handle is a stub, so this is
            // done here directly.
            let mut sink: Option<Arc<dyn ErrorSink>> = None;
            for t in self.tasks.iter_mut() {
                if let TKind::Pipeline { query, errors, .. } = &t.kind {
                    if *query == q && matches!(t.state, TState::Runnable | TState::Parked) {
                        sink = Some(errors.clone());
                        t.state = TState::Failed;
                    }
                }
            }
            if let Some(s) = sink {
                s.set_error(DbError::new("Query canceled"));
            }
        }
    }

    fn runnable(&self) -> Vec<TaskId> {
        self.tasks
            .iter()
            .enumerate()
            .filter(|(_, t)| t.state == TState::Runnable)
            .map(|(i, _)| i)
            .collect()
    }

    fn pick(&mut self, runnable: &[TaskId]) -> usize {
        let n = runnable.len();
        if n > 1 {
            self.stats.real_choices += 1;
        }
        let policy = self.cfg.policy.clone();
        let step = self.stats.steps;
        let is_client: Vec<bool> = runnable.iter().map(|&id| self.is_client(id)).collect();
        let prios: Vec<u64> = runnable.iter().map(|&id| self.tasks[id].prio).collect();
        let rr = self.rr_cursor;
        let mut demote = false;
        if let Policy::Pct { .. } = policy {
            if self.pct_change_steps.contains(&step) {
                demote = true;
            }
        }
        let idx = {
            let mut ch = self.shared.chooser.lock().unwrap();
            ch.decide(n, |rng| match &policy {
                Policy::Canonical => is_client.iter().position(|c| *c).unwrap_or(0),
                Policy::Random => rng.usize_below(n),
                Policy::Pct { .. } => {
                    let mut best = 0;
                    for i in 1..n {
                        if prios[i] > prios[best] {
                            best = i;
                        }
                    }
                    best
                }
                Policy::Starve { m, r } => {
                    let ok: Vec<usize> = (0..n).filter(|&i| is_client[i] || runnable[i] % m != *r).collect();
                    if ok.is_empty() { rng.usize_below(n) } else { ok[rng.usize_below(ok.len())] }
                }
                Policy::RoundRobin => (0..n).find(|&i| runnable[i] > rr).unwrap_or(0),
                Policy::ClientLast => {
                    let ok: Vec<usize> = (0..n).filter(|&i| !is_client[i]).collect();
                    if ok.is_empty() { rng.usize_below(n) } else { ok[rng.usize_below(ok.len())] }
                }
                Policy::ClientEager => match is_client.iter().position(|c| *c) {
                    Some(i) => i,
                    None => rng.usize_below(n),
                },
                Policy::Reverse => n - 1,
            })
        };
        if demote {
            // PCT change point: the task that just won drops below everyone.
            let id = runnable[idx];
            self.tasks[id].prio = self.tasks[id].prio % 997;
        }
        self.rr_cursor = runnable[idx];
        idx
    }

    fn poll_task(&mut self, id: TaskId) -> Result<u8, String> {
        let waker = self.tasks[id].waker.clone();
        let mut cx = Context::from_waker(&waker);
        self.tasks[id].polls += 1;
        self.tasks[id].extra_wake = false;
        // Parked unless woken during/after this poll.
        self.tasks[id].state = TState::Parked;
        if self.is_client(id) {
            self.current_client = id;
        }
        let task = &mut self.tasks[id];
        let res = catch_unwind(AssertUnwindSafe(|| match &mut task.kind {
            TKind::Client(fut) => match fut.as_mut().poll(&mut cx) {
                Poll::Ready(()) => 1u8,
                Poll::Pending => 0u8,
            },
            TKind::Pipeline { p, errors, sink, .. } => match p.poll_execute::<SimInstant>(&mut cx) {
                Poll::Ready(Ok(prof)) => {
                    sink.put(prof);
                    1
                }
                Poll::Ready(Err(e)) => {
                    errors.set_error(e);
                    2
                }
                Poll::Pending => 0,
            },
            TKind::Gone => 1,
        }));
        match res {
            Ok(code) => {
                match code {
                    0 => self.stats.polls_pending += 1,
                    1 => {
                        self.stats.polls_ready += 1;
                        self.tasks[id].state = TState::Done;
                        if !self.is_client(id) {
                            self.tasks[id].kind = TKind::Gone;
                        }
                    }
                    _ => {
                        self.stats.polls_err += 1;
                        self.tasks[id].state = TState::Failed;
                        self.tasks[id].kind = TKind::Gone;
                    }
                }
                Ok(code)
            }
            Err(_) => Err(take_last_panic().unwrap_or_else(|| "<panic>".into())),
        }
    }

    /// Called by the client driver (from inside a client poll, via the shared
    /// flag) when a statement has ended: remaining pipeline tasks owned by the
    /// client are orphaned. Implemented by scanning after each client poll.
    fn orphan_tasks_of(&mut self, client: TaskId) {
        for t in self.tasks.iter_mut() {
            if t.owner == client && !matches!(t.kind, TKind::Client(_)) && matches!(t.state, TState::Runnable | TState::Parked) {
                t.state = TState::Orphaned;
                t.kind = TKind::Gone;
                self.stats.orphaned += 1;
            }
        }
    }

    pub fn run(&mut self, stmt_boundary: &dyn Fn(TaskId) -> bool) -> RunEnd {
        if let Policy::Pct { depth } = self.cfg.policy {
            let mut ch = self.shared.chooser.lock().unwrap();
            for _ in 0..depth {
                let s = ch.uniform(4000) as u64;
                self.pct_change_steps.push(s);
            }
        }
        loop {
            self.absorb_spawned();
            self.absorb_cancels();
            self.absorb_wakes();
            self.fire_timers();

            if self.clients.iter().all(|&c| self.tasks[c].state == TState::Done) {
                self.stats.sim_time = sim_now();
                return RunEnd::Completed;
            }
            if self.stats.steps >= self.cfg.max_steps {
                self.stats.sim_time = sim_now();
                return RunEnd::NoProgress;
            }

            let mut runnable = self.runnable();
            if runnable.is_empty() {
                match self.next_timer() {
                    Some(t) => {
                        self.stats.timer_jumps += 1;
                        set_sim_now(t.max(sim_now()));
                        continue;
                    }
                    None => {
                        let parked: Vec<TaskId> = self
                            .tasks
                            .iter()
                            .enumerate()
                            .filter(|(_, t)| t.state == TState::Parked)
                            .map(|(i, _)| i)
                            .collect();
                        self.stats.sim_time = sim_now();
                        return RunEnd::LostWakeup { parked };
                    }
                }
            }

            // Noisy mode: sometimes poll a parked task that nobody woke.
            let mut id = usize::MAX;
            if self.cfg.noisy {
                let parked: Vec<TaskId> = self
                    .tasks
                    .iter()
                    .enumerate()
                    .filter(|(_, t)| t.state == TState::Parked && t.polls > 0)
                    .map(|(i, _)| i)
                    .collect();
                if !parked.is_empty() {
                    let mut ch = self.shared.chooser.lock().unwrap();
                    if ch.chance(1, 10) {
                        id = parked[ch.uniform(parked.len())];
                        drop(ch);
                        self.stats.spurious_polls += 1;
                    }
                }
            }
            if id == usize::MAX {
                runnable.sort_unstable();
                let idx = self.pick(&runnable);
                id = runnable[idx];
            }

            self.stats.steps += 1;
            set_sim_now(sim_now() + 1);
            let live = self.tasks.iter().filter(|t| matches!(t.state, TState::Runnable | TState::Parked)).count() as u64;
            self.stats.max_live_tasks = self.stats.max_live_tasks.max(live);

            let was_client = self.is_client(id);
            match self.poll_task(id) {
                Ok(code) => {
                    self.trace.u64(id as u64);
                    self.trace.u64(code as u64);
                    if self.events.len() < self.cfg.keep_events {
                        self.events.push((self.stats.steps, id, code));
                    }
                    if was_client && stmt_boundary(id) {
                        // spawned pipelines of the *new* statement are still in
                        // `spawned`; everything already in the table belongs to
                        // finished statements of this client.
                        self.orphan_tasks_of(id);
                    }
                }
                Err(msg) => {
                    self.stats.sim_time = sim_now();
                    return RunEnd::Panic { msg, task: id };
                }
            }
        }
    }

    /// For each parked pipeline task: the operator chain and the instruction it
    /// is parked at, recovered from the pipeline's `Debug` rendering (needs no
    /// hook in the repository).
    pub fn describe_parked(&self) -> Vec<String> {
        let mut out = Vec::new();
        for (i, t) in self.tasks.iter().enumerate() {
            if t.state != TState::Parked {
                continue;
            }
            if let TKind::Pipeline { p, query, .. } = &t.kind {
                let dbg = format!("{:?}", p);
                let mut names: Vec<String> = Vec::new();
                if let Some(pos) = dbg.rfind("operator_profiles: [") {
                    for part in dbg[pos..].split("operator_name: \"").skip(1) {
                        if let Some(end) = part.find('"') {
                            names.push(part[..end].to_string());
                        }
                    }
                }
                let instr = match dbg.find("instructions: [") {
                    Some(pos) => {
                        let rest = &dbg[pos + 15..];
                        let end = rest.find(']').unwrap_or(rest.len().min(200));
                        rest[..end].to_string()
                    }
                    None => String::new(),
                };
                let part = dbg.find("partition_idx: ").map(|pos| dbg[pos + 15..].chars().take_while(|c| c.is_ascii_digit()).collect::<String>()).unwrap_or_default();
                out.push(format!("task#{i} query{query} partition{part} polls={} ops=[{}] parked_at=[{}]", t.polls, names.join(">"), instr));
            }
        }
        out
    }

    /// (task id, polls, state name, is_client) for hang reports.
    pub fn task_table(&self) -> Vec<(TaskId, u64, &'static str, bool)> {
        self.tasks
            .iter()
            .enumerate()
            .map(|(i, t)| {
                (
                    i,
                    t.polls,
                    match t.state {
                        TState::Runnable => "runnable",
                        TState::Parked => "parked",
                        TState::Done => "done",
                        TState::Failed => "failed",
                        TState::Orphaned => "orphaned",
                    },
                    matches!(t.kind, TKind::Client(_)),
                )
            })
            .collect()
    }
}
