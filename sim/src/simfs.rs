//! SimFs: the only filesystem the engine sees in simulation.
//!
//! In-memory read-only disk image; seeded short reads, `Pending` I/O completed
//! later by the simulator's event queue, injected errors, shuffled and chunked
//! directory listings. Every decision goes through the world's `Chooser`.

use std::collections::BTreeMap;
use std::future::Future;
use std::io::SeekFrom;
use std::pin::Pin;
use std::sync::Arc;
use std::sync::atomic::{AtomicBool, AtomicU64, Ordering};
use std::task::{Context, Poll};

use glaredb_core::runtime::filesystem::directory::{DirEntry, ReadDirHandle};
use glaredb_core::runtime::filesystem::glob::{GlobSegments, is_glob};
use glaredb_core::runtime::filesystem::{FileHandle, FileOpenContext, FileStat, FileSystem, FileType, OpenFlags};
use glaredb_error::{DbError, Result};

use crate::sim::{Shared, sim_now};

#[derive(Debug, Clone, Default)]
pub struct SimDisk {
    pub files: BTreeMap<String, Arc<Vec<u8>>>,
}

impl SimDisk {
    pub fn put(&mut self, path: &str, bytes: Vec<u8>) {
        self.files.insert(path.to_string(), Arc::new(bytes));
    }

    fn is_dir(&self, path: &str) -> bool {
        let prefix = format!("{}/", path.trim_end_matches('/'));
        self.files.keys().any(|k| k.starts_with(&prefix))
    }

    /// Immediate children of `dir`: (full path, is_dir), sorted.
    fn children(&self, dir: &str) -> Vec<(String, bool)> {
        let dir = dir.trim_end_matches('/');
        let prefix = if dir == "." || dir.is_empty() { String::new() } else { format!("{dir}/") };
        let mut out: BTreeMap<String, bool> = BTreeMap::new();
        for k in self.files.keys() {
            if let Some(rest) = k.strip_prefix(&prefix) {
                match rest.find('/') {
                    Some(i) => {
                        out.insert(format!("{prefix}{}", &rest[..i]), true);
                    }
                    None => {
                        out.insert(k.clone(), false);
                    }
                }
            }
        }
        out.into_iter().collect()
    }
}

#[derive(Debug, Clone, PartialEq)]
pub enum Gran {
    /// as much as fits
    Whole,
    /// at most n bytes per read
    Fixed(usize),
    /// 1..=max bytes, drawn per read
    Random(usize),
}

#[derive(Debug, Clone)]
pub struct FsPlan {
    pub gran: Gran,
    /// probability (x/16) that a read/seek/open/list goes Pending first
    pub pending_16: u64,
    /// fail the n-th I/O call (0-based, counted over all handles) with an error
    pub error_at: Option<u64>,
    /// hard cap on I/O calls per world; exceeding it returns errors and sets
    /// `budget_exceeded` (an endless zero-length read loop is caught here)
    pub max_calls: u64,
    pub shuffle_listing: bool,
    pub list_chunk: usize,
}

impl Default for FsPlan {
    fn default() -> Self {
        FsPlan { gran: Gran::Whole, pending_16: 0, error_at: None, max_calls: 5_000_000, shuffle_listing: false, list_chunk: usize::MAX }
    }
}

#[derive(Debug)]
pub struct FsCore {
    pub disk: SimDisk,
    pub plan: FsPlan,
    pub shared: Arc<Shared>,
    pub calls: AtomicU64,
    pub budget_exceeded: AtomicBool,
    pub errors_fired: AtomicU64,
    pub opens: std::sync::Mutex<Vec<String>>,
}

impl FsCore {
    /// Common prologue of every I/O call: budget and injected error.
    fn enter(&self, what: &'static str) -> Result<()> {
        let n = self.calls.fetch_add(1, Ordering::Relaxed);
        self.shared.count(what);
        if n >= self.plan.max_calls {
            self.budget_exceeded.store(true, Ordering::Relaxed);
            return Err(DbError::new("simfs: I/O call budget exceeded"));
        }
        if self.plan.error_at == Some(n) {
            self.errors_fired.fetch_add(1, Ordering::Relaxed);
            self.shared.count("fault.io_error");
            return Err(DbError::new("simfs: injected I/O error"));
        }
        Ok(())
    }

    /// Decide whether this call goes Pending; if so returns the delay.
    fn decide_pending(&self) -> Option<u64> {
        if self.plan.pending_16 == 0 {
            return None;
        }
        let mut ch = self.shared.chooser.lock().unwrap();
        if ch.chance(self.plan.pending_16, 16) {
            Some(1 + ch.uniform(20) as u64)
        } else {
            None
        }
    }
}

#[derive(Debug, Clone)]
pub struct SimFs {
    pub core: Arc<FsCore>,
}

impl SimFs {
    pub fn new(disk: SimDisk, plan: FsPlan, shared: Arc<Shared>) -> Self {
        SimFs {
            core: Arc::new(FsCore {
                disk,
                plan,
                shared,
                calls: AtomicU64::new(0),
                budget_exceeded: AtomicBool::new(false),
                errors_fired: AtomicU64::new(0),
                opens: std::sync::Mutex::new(Vec::new()),
            }),
        }
    }
}

/// Resolves after an optional simulated delay.
struct Delay {
    core: Arc<FsCore>,
    until: Option<u64>,
    decided: bool,
}

impl Future for Delay {
    type Output = ();
    fn poll(mut self: Pin<&mut Self>, cx: &mut Context<'_>) -> Poll<()> {
        if !self.decided {
            self.decided = true;
            if let Some(d) = self.core.decide_pending() {
                self.core.shared.count("fault.pending_open_or_list");
                self.until = Some(sim_now() + d);
                self.core.shared.wake_after(d, cx.waker().clone());
                return Poll::Pending;
            }
        }
        match self.until {
            Some(t) if sim_now() < t => {
                self.core.shared.wake_after(t - sim_now(), cx.waker().clone());
                Poll::Pending
            }
            _ => Poll::Ready(()),
        }
    }
}

fn norm(path: &str) -> &str {
    path.strip_prefix("./").unwrap_or(path)
}

impl FileSystem for SimFs {
    const NAME: &str = "SimFs";

    type FileHandle = SimFile;
    type ReadDirHandle = SimDir;
    type State = ();

    async fn load_state(&self, _context: FileOpenContext<'_>) -> Result<()> {
        Ok(())
    }

    async fn open(&self, flags: OpenFlags, path: &str, _state: &()) -> Result<SimFile> {
        self.core.enter("open")?;
        if flags.is_write() || flags.is_create() {
            return Err(DbError::new("simfs: read-only"));
        }
        Delay { core: self.core.clone(), until: None, decided: false }.await;
        let p = norm(path);
        let bytes = self.core.disk.files.get(p).cloned().ok_or_else(|| DbError::new(format!("simfs: no such file '{path}'")))?;
        self.core.opens.lock().unwrap().push(p.to_string());
        Ok(SimFile { path: path.to_string(), bytes, pos: 0, core: self.core.clone(), pending_until: None, after_pending: false })
    }

    async fn stat(&self, path: &str, _state: &()) -> Result<Option<FileStat>> {
        self.core.enter("stat")?;
        let p = norm(path);
        if self.core.disk.files.contains_key(p) {
            Ok(Some(FileStat { file_type: FileType::File }))
        } else if self.core.disk.is_dir(p) {
            Ok(Some(FileStat { file_type: FileType::Directory }))
        } else {
            Ok(None)
        }
    }

    async fn read_dir(&self, dir: &str, _state: &()) -> Result<SimDir> {
        self.core.enter("read_dir")?;
        Delay { core: self.core.clone(), until: None, decided: false }.await;
        Ok(SimDir::new(self.core.clone(), norm(dir).to_string()))
    }

    fn glob_segments(glob: &str) -> Result<GlobSegments> {
        let mut segments: Vec<_> = glob.split('/').filter(|s| !s.is_empty()).collect();
        if segments.is_empty() {
            return Err(DbError::new("Missing segments for glob"));
        }
        let mut root_dir = Vec::new();
        while !segments.is_empty() && !is_glob(segments[0]) {
            root_dir.push(segments.remove(0));
        }
        let mut root_dir = root_dir.join("/");
        let segments = segments.into_iter().map(|s| s.to_string()).collect();
        if root_dir.is_empty() {
            root_dir = ".".to_string();
        }
        Ok(GlobSegments { root_dir, segments })
    }

    fn can_handle_path(&self, _path: &str) -> bool {
        true
    }
}

#[derive(Debug)]
pub struct SimFile {
    path: String,
    bytes: Arc<Vec<u8>>,
    pos: usize,
    core: Arc<FsCore>,
    pending_until: Option<u64>,
    /// the call right after a completed Pending always makes progress
    after_pending: bool,
}

impl SimFile {
    /// Returns true if the call must return Pending now.
    fn pending_gate(&mut self, cx: &mut Context, kind: &'static str) -> bool {
        if let Some(t) = self.pending_until {
            if sim_now() < t {
                self.core.shared.wake_after(t - sim_now(), cx.waker().clone());
                return true;
            }
            self.pending_until = None;
            self.after_pending = true;
        }
        if self.after_pending {
            self.after_pending = false;
            return false;
        }
        if let Some(d) = self.core.decide_pending() {
            self.core.shared.count(kind);
            self.pending_until = Some(sim_now() + d);
            self.core.shared.wake_after(d, cx.waker().clone());
            return true;
        }
        false
    }
}

impl FileHandle for SimFile {
    fn path(&self) -> &str {
        &self.path
    }

    fn size(&self) -> u64 {
        self.bytes.len() as u64
    }

    fn poll_read(&mut self, cx: &mut Context, buf: &mut [u8]) -> Poll<Result<usize>> {
        if let Err(e) = self.core.enter("read") {
            return Poll::Ready(Err(e));
        }
        if self.pending_gate(cx, "fault.pending_read") {
            return Poll::Pending;
        }
        let rem = self.bytes.len().saturating_sub(self.pos);
        if rem == 0 {
            // at or past the end of the file (seeking past the end is allowed)
            self.core.shared.count("read.eof_or_empty");
            return Poll::Ready(Ok(0));
        }
        let mut n = buf.len().min(rem);
        if n > 0 {
            let cap = match self.core.plan.gran {
                Gran::Whole => n,
                Gran::Fixed(k) => k.max(1),
                Gran::Random(max) => {
                    let mut ch = self.core.shared.chooser.lock().unwrap();
                    1 + ch.uniform(max.max(1))
                }
            };
            if cap < n {
                n = cap;
                self.core.shared.count("fault.short_read");
            }
        }
        buf[..n].copy_from_slice(&self.bytes[self.pos..self.pos + n]);
        self.pos += n;
        if n == 0 {
            self.core.shared.count("read.eof_or_empty");
        }
        Poll::Ready(Ok(n))
    }

    fn poll_write(&mut self, _cx: &mut Context, _buf: &[u8]) -> Poll<Result<usize>> {
        Poll::Ready(Err(DbError::new("simfs: read-only")))
    }

    fn poll_seek(&mut self, cx: &mut Context, seek: SeekFrom) -> Poll<Result<()>> {
        if let Err(e) = self.core.enter("seek") {
            return Poll::Ready(Err(e));
        }
        if self.pending_gate(cx, "fault.pending_seek") {
            return Poll::Pending;
        }
        let len = self.bytes.len() as i128;
        let new = match seek {
            SeekFrom::Start(p) => p as i128,
            SeekFrom::End(o) => len + o as i128,
            SeekFrom::Current(o) => self.pos as i128 + o as i128,
        };
        if new < 0 {
            return Poll::Ready(Err(DbError::new("simfs: seek before start of file")));
        }
        // Seeking past the end is allowed (as on a real file); reads then hit EOF.
        self.pos = new.min(i128::from(u64::MAX >> 1)) as usize;
        Poll::Ready(Ok(()))
    }

    fn poll_flush(&mut self, _cx: &mut Context) -> Poll<Result<()>> {
        Poll::Ready(Err(DbError::new("simfs: read-only")))
    }
}

#[derive(Debug)]
pub struct SimDir {
    core: Arc<FsCore>,
    path: String,
    entries: Option<Vec<(String, bool)>>,
    cursor: usize,
    pending_until: Option<u64>,
    after_pending: bool,
}

impl SimDir {
    fn new(core: Arc<FsCore>, path: String) -> Self {
        SimDir { core, path, entries: None, cursor: 0, pending_until: None, after_pending: false }
    }
}

impl ReadDirHandle for SimDir {
    fn poll_list(&mut self, cx: &mut Context, ents: &mut Vec<DirEntry>) -> Poll<Result<usize>> {
        if let Err(e) = self.core.enter("list") {
            return Poll::Ready(Err(e));
        }
        if let Some(t) = self.pending_until {
            if sim_now() < t {
                self.core.shared.wake_after(t - sim_now(), cx.waker().clone());
                return Poll::Pending;
            }
            self.pending_until = None;
            self.after_pending = true;
        }
        if !self.after_pending {
            if let Some(d) = self.core.decide_pending() {
                self.core.shared.count("fault.pending_list");
                self.pending_until = Some(sim_now() + d);
                self.core.shared.wake_after(d, cx.waker().clone());
                return Poll::Pending;
            }
        }
        self.after_pending = false;
        if self.entries.is_none() {
            let mut e = self.core.disk.children(&self.path);
            if self.core.plan.shuffle_listing && e.len() > 1 {
                let mut ch = self.core.shared.chooser.lock().unwrap();
                for i in (1..e.len()).rev() {
                    let j = ch.uniform(i + 1);
                    e.swap(i, j);
                }
                self.core.shared.count("fault.shuffled_listing");
            }
            self.entries = Some(e);
        }
        let e = self.entries.as_ref().unwrap();
        let end = (self.cursor.saturating_add(self.core.plan.list_chunk.max(1))).min(e.len());
        let mut n = 0;
        for (p, is_dir) in &e[self.cursor..end] {
            ents.push(if *is_dir { DirEntry::new_dir(p.clone()) } else { DirEntry::new_file(p.clone()) });
            n += 1;
        }
        if end < e.len() {
            self.core.shared.count("fault.chunked_listing");
        }
        self.cursor = end;
        Poll::Ready(Ok(n))
    }

    fn change_dir(&mut self, relative: impl Into<String>) -> Result<Self> {
        let rel: String = relative.into();
        let base = self.path.trim_end_matches('/');
        let p = if base == "." || base.is_empty() { rel } else { format!("{base}/{rel}") };
        Ok(SimDir::new(self.core.clone(), p))
    }
}
