//! Typed SQL AST shared by the generator, the printer and R-SQL.

use crate::value::Value;

#[derive(Debug, Clone, Copy, PartialEq, Eq, Hash, PartialOrd, Ord)]
pub enum Ty {
    Int,  // INT      -> Int32
    Big,  // BIGINT   -> Int64
    Bool, // BOOLEAN
    Text, // TEXT     -> Utf8
    Dbl,  // DOUBLE   -> Float64
}

impl Ty {
    pub fn sql(&self) -> &'static str {
        match self {
            Ty::Int => "INT",
            Ty::Big => "BIGINT",
            Ty::Bool => "BOOLEAN",
            Ty::Text => "TEXT",
            Ty::Dbl => "DOUBLE",
        }
    }
    /// `DataType` rendering used by the engine
    pub fn engine(&self) -> &'static str {
        match self {
            Ty::Int => "Int32",
            Ty::Big => "Int64",
            Ty::Bool => "Boolean",
            Ty::Text => "Utf8",
            Ty::Dbl => "Float64",
        }
    }
    pub fn is_num(&self) -> bool {
        matches!(self, Ty::Int | Ty::Big | Ty::Dbl)
    }
    pub fn is_intlike(&self) -> bool {
        matches!(self, Ty::Int | Ty::Big)
    }
    pub const ALL: [Ty; 5] = [Ty::Int, Ty::Big, Ty::Bool, Ty::Text, Ty::Dbl];
}

#[derive(Debug, Clone, Copy, PartialEq, Eq, Hash)]
pub enum BinOp {
    Add,
    Sub,
    Mul,
    Div,
    Rem,
    Eq,
    Ne,
    Lt,
    Le,
    Gt,
    Ge,
    And,
    Or,
    Concat,
}

impl BinOp {
    pub fn sql(&self) -> &'static str {
        match self {
            BinOp::Add => "+",
            BinOp::Sub => "-",
            BinOp::Mul => "*",
            BinOp::Div => "/",
            BinOp::Rem => "%",
            BinOp::Eq => "=",
            BinOp::Ne => "<>",
            BinOp::Lt => "<",
            BinOp::Le => "<=",
            BinOp::Gt => ">",
            BinOp::Ge => ">=",
            BinOp::And => "AND",
            BinOp::Or => "OR",
            BinOp::Concat => "||",
        }
    }
    pub fn is_cmp(&self) -> bool {
        matches!(self, BinOp::Eq | BinOp::Ne | BinOp::Lt | BinOp::Le | BinOp::Gt | BinOp::Ge)
    }
    pub fn is_arith(&self) -> bool {
        matches!(self, BinOp::Add | BinOp::Sub | BinOp::Mul | BinOp::Div | BinOp::Rem)
    }
}

#[derive(Debug, Clone, Copy, PartialEq, Eq, Hash)]
pub enum AggFn {
    CountStar,
    Count,
    Sum,
    Min,
    Max,
    Avg,
    BoolAnd,
    BoolOr,
    BitAnd,
    BitOr,
    StddevSamp,
}

impl AggFn {
    pub fn sql(&self) -> &'static str {
        match self {
            AggFn::CountStar | AggFn::Count => "count",
            AggFn::Sum => "sum",
            AggFn::Min => "min",
            AggFn::Max => "max",
            AggFn::Avg => "avg",
            AggFn::BoolAnd => "bool_and",
            AggFn::BoolOr => "bool_or",
            AggFn::BitAnd => "bit_and",
            AggFn::BitOr => "bit_or",
            AggFn::StddevSamp => "stddev_samp",
        }
    }
}

#[derive(Debug, Clone, Copy, PartialEq, Eq, Hash)]
pub enum Func {
    Coalesce,
    Length,
    Upper,
    Lower,
}

#[derive(Debug, Clone, Copy, PartialEq, Eq, Hash)]
pub enum ColStyle {
    Qualified,
    Bare,
    QuotedQualified,
    QuotedBare,
}

#[derive(Debug, Clone, PartialEq)]
pub enum SubqKind {
    Scalar,
    Exists { neg: bool },
    In { lhs: Box<Expr>, neg: bool },
    /// lhs op ANY/ALL (subquery)
    Quant { lhs: Box<Expr>, op: BinOp, all: bool },
}

#[derive(Debug, Clone, PartialEq)]
pub enum Expr {
    Col { rel: String, name: String, ty: Ty, style: ColStyle },
    /// reference to an earlier select-list alias (lateral alias reference)
    AliasRef { name: String, ty: Ty },
    Lit(Value, Ty),
    Bin(BinOp, Box<Expr>, Box<Expr>),
    Not(Box<Expr>),
    Neg(Box<Expr>),
    IsNull { e: Box<Expr>, neg: bool },
    IsDistinct { l: Box<Expr>, r: Box<Expr>, neg: bool },
    Between { e: Box<Expr>, lo: Box<Expr>, hi: Box<Expr>, neg: bool },
    InList { e: Box<Expr>, list: Vec<Expr>, neg: bool },
    Case { whens: Vec<(Expr, Expr)>, els: Option<Box<Expr>>, ty: Ty },
    Cast(Box<Expr>, Ty),
    Func(Func, Vec<Expr>),
    Agg { f: AggFn, arg: Option<Box<Expr>>, distinct: bool, filter: Option<Box<Expr>> },
    Grouping(Vec<Expr>),
    Subq { kind: SubqKind, q: Box<Query>, ty: Ty },
}

#[derive(Debug, Clone, PartialEq)]
pub struct SelectItem {
    pub expr: Expr,
    /// output column name (always explicit so names are predictable)
    pub alias: String,
    /// print `AS alias`; if false the expr is a bare column whose name == alias
    pub print_alias: bool,
}

#[derive(Debug, Clone, Copy, PartialEq, Eq, Hash)]
pub enum JoinKind {
    Cross,
    Inner,
    Left,
    Right,
    Semi,
}

#[derive(Debug, Clone, PartialEq)]
pub enum From {
    Table { name: String, alias: String, cols: Vec<(String, Ty)> },
    /// also used for CTE and view references (name looked up in ctes first)
    Subquery { q: Box<Query>, alias: String, cols: Vec<(String, Ty)>, lateral: bool },
    Values { rows: Vec<Vec<Expr>>, alias: String, cols: Vec<(String, Ty)> },
    Series { start: i64, stop: i64, step: i64, alias: String, col: String },
    Join { kind: JoinKind, left: Box<From>, right: Box<From>, on: Option<Expr> },
}

#[derive(Debug, Clone, PartialEq)]
pub enum GroupBy {
    None,
    Plain(Vec<Expr>),
    Rollup(Vec<Expr>),
    Cube(Vec<Expr>),
}

impl GroupBy {
    pub fn exprs(&self) -> &[Expr] {
        match self {
            GroupBy::None => &[],
            GroupBy::Plain(v) | GroupBy::Rollup(v) | GroupBy::Cube(v) => v,
        }
    }
}

#[derive(Debug, Clone, PartialEq)]
pub struct Select {
    pub distinct: bool,
    pub items: Vec<SelectItem>,
    pub from: Option<From>,
    pub where_: Option<Expr>,
    pub group_by: GroupBy,
    pub having: Option<Expr>,
}

#[derive(Debug, Clone, PartialEq)]
pub enum SetExpr {
    Select(Box<Select>),
    Union { all: bool, left: Box<SetExpr>, right: Box<SetExpr> },
}

#[derive(Debug, Clone, Copy, PartialEq, Eq)]
pub enum NullsOrder {
    Default,
    First,
    Last,
}

#[derive(Debug, Clone, PartialEq)]
pub struct OrderItem {
    /// 0-based output column index; printed either as 1-based position or as
    /// the output column's alias
    pub col: usize,
    pub by_alias: bool,
    pub desc: bool,
    pub nulls: NullsOrder,
}

#[derive(Debug, Clone, PartialEq)]
pub struct Cte {
    pub name: String,
    pub q: Box<Query>,
    pub materialized: bool,
    /// optional column aliases `name(a, b)`
    pub col_aliases: Option<Vec<String>>,
}

#[derive(Debug, Clone, PartialEq)]
pub struct Query {
    pub ctes: Vec<Cte>,
    pub body: SetExpr,
    pub order_by: Vec<OrderItem>,
    pub limit: Option<u64>,
    pub offset: Option<u64>,
    /// output schema (names after aliasing, types)
    pub out: Vec<(String, Ty)>,
}

impl Expr {
    pub fn ty(&self) -> Ty {
        match self {
            Expr::Col { ty, .. } | Expr::AliasRef { ty, .. } => *ty,
            Expr::Lit(_, t) => *t,
            Expr::Bin(op, l, r) => {
                if op.is_cmp() || matches!(op, BinOp::And | BinOp::Or) {
                    Ty::Bool
                } else if *op == BinOp::Concat {
                    Ty::Text
                } else {
                    arith_ty(l.ty(), r.ty())
                }
            }
            Expr::Not(_) | Expr::IsNull { .. } | Expr::IsDistinct { .. } | Expr::Between { .. } | Expr::InList { .. } => Ty::Bool,
            Expr::Neg(e) => e.ty(),
            Expr::Case { ty, .. } => *ty,
            Expr::Cast(_, t) => *t,
            Expr::Func(f, args) => match f {
                Func::Coalesce => args[0].ty(),
                Func::Length => Ty::Big,
                Func::Upper | Func::Lower => Ty::Text,
            },
            Expr::Agg { f, arg, .. } => match f {
                AggFn::CountStar | AggFn::Count => Ty::Big,
                AggFn::Sum => match arg.as_ref().unwrap().ty() {
                    Ty::Dbl => Ty::Dbl,
                    _ => Ty::Big,
                },
                AggFn::Min | AggFn::Max | AggFn::BitAnd | AggFn::BitOr => arg.as_ref().unwrap().ty(),
                AggFn::Avg | AggFn::StddevSamp => Ty::Dbl,
                AggFn::BoolAnd | AggFn::BoolOr => Ty::Bool,
            },
            Expr::Grouping(_) => Ty::Big,
            Expr::Subq { ty, .. } => *ty,
        }
    }

    pub fn contains_agg(&self) -> bool {
        let mut found = false;
        self.walk(&mut |e| {
            if matches!(e, Expr::Agg { .. } | Expr::Grouping(_)) {
                found = true;
            }
        });
        found
    }

    /// Pre-order walk over this expression (not descending into subqueries).
    pub fn walk(&self, f: &mut dyn FnMut(&Expr)) {
        f(self);
        match self {
            Expr::Col { .. } | Expr::AliasRef { .. } | Expr::Lit(..) => {}
            Expr::Bin(_, l, r) => {
                l.walk(f);
                r.walk(f);
            }
            Expr::Not(e) | Expr::Neg(e) | Expr::Cast(e, _) => e.walk(f),
            Expr::IsNull { e, .. } => e.walk(f),
            Expr::IsDistinct { l, r, .. } => {
                l.walk(f);
                r.walk(f);
            }
            Expr::Between { e, lo, hi, .. } => {
                e.walk(f);
                lo.walk(f);
                hi.walk(f);
            }
            Expr::InList { e, list, .. } => {
                e.walk(f);
                for x in list {
                    x.walk(f);
                }
            }
            Expr::Case { whens, els, .. } => {
                for (c, v) in whens {
                    c.walk(f);
                    v.walk(f);
                }
                if let Some(e) = els {
                    e.walk(f);
                }
            }
            Expr::Func(_, args) | Expr::Grouping(args) => {
                for a in args {
                    a.walk(f);
                }
            }
            Expr::Agg { arg, filter, .. } => {
                if let Some(a) = arg {
                    a.walk(f);
                }
                if let Some(a) = filter {
                    a.walk(f);
                }
            }
            Expr::Subq { kind, .. } => match kind {
                SubqKind::In { lhs, .. } | SubqKind::Quant { lhs, .. } => lhs.walk(f),
                _ => {}
            },
        }
    }
}

pub fn arith_ty(l: Ty, r: Ty) -> Ty {
    if l == Ty::Dbl || r == Ty::Dbl {
        Ty::Dbl
    } else if l == Ty::Big || r == Ty::Big {
        Ty::Big
    } else {
        Ty::Int
    }
}

impl From {
    pub fn aliases(&self, out: &mut Vec<String>) {
        match self {
            From::Table { alias, .. } | From::Subquery { alias, .. } | From::Values { alias, .. } | From::Series { alias, .. } => out.push(alias.clone()),
            From::Join { left, right, kind, .. } => {
                left.aliases(out);
                if *kind != JoinKind::Semi {
                    right.aliases(out);
                }
            }
        }
    }
}

impl SetExpr {
    pub fn first_select(&self) -> &Select {
        match self {
            SetExpr::Select(s) => s,
            SetExpr::Union { left, .. } => left.first_select(),
        }
    }
}
