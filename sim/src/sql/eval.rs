//! R-SQL: a deliberately naive relational evaluator over `Vec<Row>`.
//!
//! Nested loops for every join and subquery (a correlated subquery is
//! re-evaluated per outer row), grouping by linear search, stable sort with the
//! documented key order, three-valued logic, bag semantics.

use std::cmp::Ordering;
use std::collections::{BTreeMap, BTreeSet};
use std::rc::Rc;

use super::ast::*;
use crate::value::{Row, Value, float_cmp, row_cmp};

#[derive(Debug, Clone, PartialEq)]
pub struct ColInfo {
    pub rel: String,
    pub name: String,
    pub ty: Ty,
}

#[derive(Debug, Clone, Default)]
pub struct Rel {
    pub cols: Vec<ColInfo>,
    pub rows: Vec<Row>,
}

#[derive(Debug, Clone, Default)]
pub struct TableData {
    pub cols: Vec<(String, Ty)>,
    pub rows: Vec<Row>,
}

#[derive(Debug, Clone, Default)]
pub struct Db {
    pub tables: BTreeMap<String, TableData>,
    pub views: BTreeMap<String, Query>,
}

#[derive(Debug, Clone, PartialEq)]
pub enum EvalErr {
    /// a run-time evaluation error the engine may also raise (overflow, /0, ..)
    Runtime(String),
    /// evaluation too expensive for the naive model; the case is skipped
    Budget,
    /// the model does not cover this construct (generator bug if it happens)
    Unsupported(String),
}

/// Deviation switches: each one makes R-SQL reproduce one *recorded* defect of
/// the engine. They are used only to classify a mismatch (see DESIGN 2.5).
#[derive(Debug, Clone, Default, PartialEq)]
pub struct Dev {
    /// AND/OR return NULL whenever any operand is NULL
    pub strict_and_or: bool,
    /// aggregate FILTER (WHERE ..) clause is ignored
    pub filter_ignored: bool,
    /// a correlated scalar subquery whose aggregate runs over an empty set
    /// yields NULL (also for count)
    pub corr_agg_empty_null: bool,
    /// IN / NOT IN / ANY / ALL subqueries treat NULL as a plain non-matching value
    pub quant_two_valued: bool,
    /// a correlated subquery behaves as if it returned no rows (scalar: NULL)
    /// for an outer row in which a correlated column is NULL
    pub corr_null_outer: bool,
}

pub struct Eval<'a> {
    pub db: &'a Db,
    pub dev: Dev,
    /// set when the model's result is one of several legal results (LIMIT
    /// cutting through ties, LIMIT without ORDER BY in a subquery, ...)
    pub ambiguous: bool,
    /// the documentation is silent about the construct's result (not compared)
    pub dialect_ambiguous: bool,
    /// deviation switches that actually changed a value during evaluation
    pub dev_fired: BTreeSet<&'static str>,
    pub ops: u64,
    pub max_ops: u64,
    /// per subquery node: the outer column references (rel, name) it contains
    outer_refs: std::collections::HashMap<usize, Rc<Vec<(String, String)>>>,
}

pub struct Env<'a> {
    pub cols: &'a [ColInfo],
    pub row: &'a [Value],
    pub parent: Option<&'a Env<'a>>,
}

pub struct Ctes<'a> {
    name: &'a str,
    rel: Rc<Rel>,
    parent: Option<&'a Ctes<'a>>,
}

struct GroupCtx<'a> {
    keys: &'a [Expr],
    in_set: &'a [bool],
    key_vals: &'a [Value],
    rows: &'a [&'a Row],
    cols: &'a [ColInfo],
}

type R<T> = Result<T, EvalErr>;

fn lookup<'a>(env: Option<&'a Env<'a>>, rel: &str, name: &str) -> Option<&'a Value> {
    let mut e = env;
    while let Some(f) = e {
        for (i, c) in f.cols.iter().enumerate() {
            if c.name == name && c.rel == rel {
                return Some(&f.row[i]);
            }
        }
        e = f.parent;
    }
    None
}

/// SQL comparison; None if either side is NULL.
pub fn sql_cmp(a: &Value, b: &Value) -> Option<Ordering> {
    use Value::*;
    match (a, b) {
        (Null, _) | (_, Null) => None,
        (Bool(x), Bool(y)) => Some(x.cmp(y)),
        (Int(x), Int(y)) => Some(x.cmp(y)),
        (Float(x), Float(y)) => Some(float_cmp(*x, *y)),
        (Int(x), Float(y)) => Some(float_cmp(*x as f64, *y)),
        (Float(x), Int(y)) => Some(float_cmp(*x, *y as f64)),
        (Str(x), Str(y)) => Some(x.as_bytes().cmp(y.as_bytes())),
        _ => Some(a.total_cmp(b)),
    }
}

/// Equality used by DISTINCT / GROUP BY / UNION: NULLs are equal to each other.
pub fn group_eq(a: &Value, b: &Value) -> bool {
    match (a.is_null(), b.is_null()) {
        (true, true) => true,
        (false, false) => sql_cmp(a, b) == Some(Ordering::Equal),
        _ => false,
    }
}

pub fn rows_group_eq(a: &[Value], b: &[Value]) -> bool {
    a.len() == b.len() && a.iter().zip(b).all(|(x, y)| group_eq(x, y))
}

/// ORDER BY comparator for one key: NULLs are largest by default.
pub fn order_cmp(a: &Value, b: &Value, desc: bool, nulls: NullsOrder) -> Ordering {
    let nulls_first = match nulls {
        NullsOrder::First => true,
        NullsOrder::Last => false,
        NullsOrder::Default => desc,
    };
    match (a.is_null(), b.is_null()) {
        (true, true) => Ordering::Equal,
        (true, false) => {
            if nulls_first { Ordering::Less } else { Ordering::Greater }
        }
        (false, true) => {
            if nulls_first { Ordering::Greater } else { Ordering::Less }
        }
        _ => {
            let c = sql_cmp(a, b).unwrap();
            if desc { c.reverse() } else { c }
        }
    }
}

pub fn order_rows_cmp(a: &[Value], b: &[Value], keys: &[OrderItem]) -> Ordering {
    for k in keys {
        let c = order_cmp(&a[k.col], &b[k.col], k.desc, k.nulls);
        if c != Ordering::Equal {
            return c;
        }
    }
    Ordering::Equal
}

fn int_range(ty: Ty) -> (i128, i128) {
    match ty {
        Ty::Int => (i32::MIN as i128, i32::MAX as i128),
        _ => (i64::MIN as i128, i64::MAX as i128),
    }
}

fn to_f64(v: &Value) -> f64 {
    match v {
        Value::Int(i) => *i as f64,
        Value::Float(f) => *f,
        _ => f64::NAN,
    }
}

fn tri_not(v: Value) -> Value {
    match v {
        Value::Bool(b) => Value::Bool(!b),
        _ => Value::Null,
    }
}

impl<'a> Eval<'a> {
    pub fn new(db: &'a Db, dev: Dev) -> Self {
        Eval { db, dev, ambiguous: false, dialect_ambiguous: false, dev_fired: BTreeSet::new(), ops: 0, max_ops: 3_000_000, outer_refs: Default::default() }
    }

    fn tick(&mut self, n: u64) -> R<()> {
        self.ops += n;
        if self.ops > self.max_ops { Err(EvalErr::Budget) } else { Ok(()) }
    }

    fn and(&mut self, a: &Value, b: &Value) -> Value {
        let sql = match (a, b) {
            (Value::Bool(false), _) | (_, Value::Bool(false)) => Value::Bool(false),
            (Value::Bool(true), Value::Bool(true)) => Value::Bool(true),
            _ => Value::Null,
        };
        if self.dev.strict_and_or && (a.is_null() || b.is_null()) {
            if !sql.is_null() {
                self.dev_fired.insert("strict_and_or");
            }
            return Value::Null;
        }
        sql
    }

    fn or(&mut self, a: &Value, b: &Value) -> Value {
        let sql = match (a, b) {
            (Value::Bool(true), _) | (_, Value::Bool(true)) => Value::Bool(true),
            (Value::Bool(false), Value::Bool(false)) => Value::Bool(false),
            _ => Value::Null,
        };
        if self.dev.strict_and_or && (a.is_null() || b.is_null()) {
            if !sql.is_null() {
                self.dev_fired.insert("strict_and_or");
            }
            return Value::Null;
        }
        sql
    }

    fn cmp_op(&self, op: BinOp, a: &Value, b: &Value) -> Value {
        match sql_cmp(a, b) {
            None => Value::Null,
            Some(o) => Value::Bool(match op {
                BinOp::Eq => o == Ordering::Equal,
                BinOp::Ne => o != Ordering::Equal,
                BinOp::Lt => o == Ordering::Less,
                BinOp::Le => o != Ordering::Greater,
                BinOp::Gt => o == Ordering::Greater,
                BinOp::Ge => o != Ordering::Less,
                _ => unreachable!(),
            }),
        }
    }

    fn arith(&self, op: BinOp, a: &Value, b: &Value, ty: Ty) -> R<Value> {
        if a.is_null() || b.is_null() {
            return Ok(Value::Null);
        }
        if ty == Ty::Dbl {
            let (x, y) = (to_f64(a), to_f64(b));
            let r = match op {
                BinOp::Add => x + y,
                BinOp::Sub => x - y,
                BinOp::Mul => x * y,
                BinOp::Div => {
                    if y == 0.0 {
                        return Err(EvalErr::Runtime("float division by zero".into()));
                    }
                    x / y
                }
                BinOp::Rem => {
                    if y == 0.0 {
                        return Err(EvalErr::Runtime("float remainder by zero".into()));
                    }
                    x % y
                }
                _ => unreachable!(),
            };
            return Ok(Value::Float(r));
        }
        let (x, y) = match (a, b) {
            (Value::Int(x), Value::Int(y)) => (*x, *y),
            _ => return Err(EvalErr::Unsupported(format!("arith on {a:?} {b:?}"))),
        };
        let r = match op {
            BinOp::Add => x + y,
            BinOp::Sub => x - y,
            BinOp::Mul => x * y,
            BinOp::Div => {
                if y == 0 {
                    return Err(EvalErr::Runtime("division by zero".into()));
                }
                x / y
            }
            BinOp::Rem => {
                if y == 0 {
                    return Err(EvalErr::Runtime("remainder by zero".into()));
                }
                x % y
            }
            _ => unreachable!(),
        };
        let (lo, hi) = int_range(ty);
        if r < lo || r > hi {
            return Err(EvalErr::Runtime("integer overflow".into()));
        }
        Ok(Value::Int(r))
    }

    fn cast(&self, v: Value, from: Ty, to: Ty) -> R<Value> {
        if v.is_null() {
            return Ok(Value::Null);
        }
        Ok(match (from, to) {
            (a, b) if a == b => v,
            (Ty::Int, Ty::Big) => v,
            (Ty::Big, Ty::Int) => match v {
                Value::Int(i) if i >= i32::MIN as i128 && i <= i32::MAX as i128 => Value::Int(i),
                _ => return Err(EvalErr::Runtime("cast out of range".into())),
            },
            (Ty::Int | Ty::Big, Ty::Dbl) => Value::Float(to_f64(&v)),
            (Ty::Dbl, Ty::Int | Ty::Big) => {
                let f = to_f64(&v);
                if !f.is_finite() {
                    return Err(EvalErr::Runtime("cast of non-finite float".into()));
                }
                let t = f.trunc();
                let (lo, hi) = int_range(to);
                if t < lo as f64 || t > hi as f64 {
                    return Err(EvalErr::Runtime("cast out of range".into()));
                }
                Value::Int(t as i128)
            }
            (Ty::Int | Ty::Big, Ty::Text) => match v {
                Value::Int(i) => Value::Str(i.to_string()),
                _ => return Err(EvalErr::Unsupported("cast".into())),
            },
            (Ty::Bool, Ty::Text) => match v {
                Value::Bool(b) => Value::Str(b.to_string()),
                _ => return Err(EvalErr::Unsupported("cast".into())),
            },
            (Ty::Text, Ty::Int | Ty::Big) => match &v {
                Value::Str(s) => match s.trim().parse::<i128>() {
                    Ok(i) => {
                        let (lo, hi) = int_range(to);
                        if i < lo || i > hi {
                            return Err(EvalErr::Runtime("cast out of range".into()));
                        }
                        Value::Int(i)
                    }
                    Err(_) => return Err(EvalErr::Runtime("cannot parse integer".into())),
                },
                _ => return Err(EvalErr::Unsupported("cast".into())),
            },
            (a, b) => return Err(EvalErr::Unsupported(format!("cast {a:?}->{b:?}"))),
        })
    }

    fn truth(v: &Value) -> bool {
        matches!(v, Value::Bool(true))
    }

    fn expr(&mut self, e: &Expr, env: Option<&Env>, ctes: Option<&Ctes>, grp: Option<&GroupCtx>, aliases: &[(String, Value)]) -> R<Value> {
        if let Some(g) = grp {
            for (i, k) in g.keys.iter().enumerate() {
                if k == e {
                    return Ok(if g.in_set[i] { g.key_vals[i].clone() } else { Value::Null });
                }
            }
        }
        match e {
            Expr::Col { rel, name, .. } => {
                if grp.is_some() {
                    // not a group key: must come from an outer query
                    let outer = env.and_then(|f| f.parent);
                    return lookup(outer, rel, name).cloned().ok_or_else(|| EvalErr::Unsupported(format!("column {rel}.{name} not grouped")));
                }
                lookup(env, rel, name).cloned().ok_or_else(|| EvalErr::Unsupported(format!("unknown column {rel}.{name}")))
            }
            Expr::AliasRef { name, .. } => aliases.iter().find(|a| &a.0 == name).map(|a| a.1.clone()).ok_or_else(|| EvalErr::Unsupported(format!("alias {name}"))),
            Expr::Lit(v, _) => Ok(v.clone()),
            Expr::Bin(op, l, r) => {
                let a = self.expr(l, env, ctes, grp, aliases)?;
                let b = self.expr(r, env, ctes, grp, aliases)?;
                match op {
                    BinOp::And => Ok(self.and(&a, &b)),
                    BinOp::Or => Ok(self.or(&a, &b)),
                    BinOp::Concat => Ok(match (&a, &b) {
                        (Value::Str(x), Value::Str(y)) => Value::Str(format!("{x}{y}")),
                        _ => Value::Null,
                    }),
                    o if o.is_cmp() => Ok(self.cmp_op(*o, &a, &b)),
                    o => self.arith(*o, &a, &b, e.ty()),
                }
            }
            Expr::Not(x) => Ok(tri_not(self.expr(x, env, ctes, grp, aliases)?)),
            Expr::Neg(x) => {
                let v = self.expr(x, env, ctes, grp, aliases)?;
                Ok(match v {
                    Value::Int(i) => {
                        let (lo, hi) = int_range(x.ty());
                        if -i < lo || -i > hi {
                            return Err(EvalErr::Runtime("integer overflow".into()));
                        }
                        Value::Int(-i)
                    }
                    Value::Float(f) => Value::Float(-f),
                    _ => Value::Null,
                })
            }
            Expr::IsNull { e, neg } => {
                let v = self.expr(e, env, ctes, grp, aliases)?;
                Ok(Value::Bool(v.is_null() != *neg))
            }
            Expr::IsDistinct { l, r, neg } => {
                let a = self.expr(l, env, ctes, grp, aliases)?;
                let b = self.expr(r, env, ctes, grp, aliases)?;
                let distinct = !group_eq(&a, &b);
                Ok(Value::Bool(distinct != *neg))
            }
            Expr::Between { e, lo, hi, neg } => {
                let v = self.expr(e, env, ctes, grp, aliases)?;
                let l = self.expr(lo, env, ctes, grp, aliases)?;
                let h = self.expr(hi, env, ctes, grp, aliases)?;
                let a = self.cmp_op(BinOp::Ge, &v, &l);
                let b = self.cmp_op(BinOp::Le, &v, &h);
                let r = self.and(&a, &b);
                Ok(if *neg { tri_not(r) } else { r })
            }
            Expr::InList { e, list, neg } => {
                let v = self.expr(e, env, ctes, grp, aliases)?;
                let mut acc = Value::Bool(false);
                for x in list {
                    let y = self.expr(x, env, ctes, grp, aliases)?;
                    let c = self.cmp_op(BinOp::Eq, &v, &y);
                    acc = self.or(&acc, &c);
                }
                Ok(if *neg { tri_not(acc) } else { acc })
            }
            Expr::Case { whens, els, .. } => {
                for (c, v) in whens {
                    let cv = self.expr(c, env, ctes, grp, aliases)?;
                    if Self::truth(&cv) {
                        return self.expr(v, env, ctes, grp, aliases);
                    }
                }
                match els {
                    Some(x) => self.expr(x, env, ctes, grp, aliases),
                    None => Ok(Value::Null),
                }
            }
            Expr::Cast(x, to) => {
                let v = self.expr(x, env, ctes, grp, aliases)?;
                self.cast(v, x.ty(), *to)
            }
            Expr::Func(f, args) => {
                let mut vals = Vec::with_capacity(args.len());
                for a in args {
                    vals.push(self.expr(a, env, ctes, grp, aliases)?);
                }
                Ok(match f {
                    Func::Coalesce => vals.into_iter().find(|v| !v.is_null()).unwrap_or(Value::Null),
                    Func::Length => match &vals[0] {
                        Value::Str(s) => Value::Int(s.chars().count() as i128),
                        _ => Value::Null,
                    },
                    Func::Upper => match &vals[0] {
                        Value::Str(s) => Value::Str(s.to_uppercase()),
                        _ => Value::Null,
                    },
                    Func::Lower => match &vals[0] {
                        Value::Str(s) => Value::Str(s.to_lowercase()),
                        _ => Value::Null,
                    },
                })
            }
            Expr::Agg { f, arg, distinct, filter } => {
                let g = grp.ok_or_else(|| EvalErr::Unsupported("aggregate outside group context".into()))?;
                self.aggregate(*f, arg.as_deref(), *distinct, filter.as_deref(), g, env, ctes)
            }
            Expr::Grouping(args) => {
                let g = grp.ok_or_else(|| EvalErr::Unsupported("GROUPING outside group context".into()))?;
                let mut mask: i128 = 0;
                for a in args {
                    mask <<= 1;
                    let idx = g.keys.iter().position(|k| k == a).ok_or_else(|| EvalErr::Unsupported("GROUPING arg not a key".into()))?;
                    if !g.in_set[idx] {
                        mask |= 1;
                    }
                }
                Ok(Value::Int(mask))
            }
            Expr::Subq { kind, q, .. } => {
                // in a group context the current input row is not visible
                let env2 = if grp.is_some() { env.and_then(|f| f.parent) } else { env };
                // recorded deviation: NULL in a correlated column => "no rows"
                let mut as_empty = false;
                let correlated;
                {
                    let refs = self.outer_refs_of(q);
                    correlated = !refs.is_empty();
                    if self.dev.corr_null_outer {
                        for (rel, name) in refs.iter() {
                            if let Some(v) = lookup(env2, rel, name) {
                                if v.is_null() {
                                    as_empty = true;
                                }
                            }
                        }
                    }
                }
                if as_empty {
                    self.dev_fired.insert("corr_null_outer");
                    return Ok(match kind {
                        SubqKind::Scalar => Value::Null,
                        SubqKind::Exists { neg } => Value::Bool(*neg),
                        SubqKind::In { neg, .. } => Value::Bool(*neg),
                        SubqKind::Quant { all, .. } => Value::Bool(*all),
                    });
                }
                // recorded deviation: a correlated ungrouped aggregate over an
                // empty input yields no row at all
                if self.dev.corr_agg_empty_null && correlated {
                    if let Some(probe) = count_probe(q) {
                        let rel = self.query(&probe, env2, ctes)?;
                        if rel.rows.len() == 1 && matches!(rel.rows[0][0], Value::Int(0)) {
                            self.dev_fired.insert("corr_agg_empty_null");
                            return Ok(match kind {
                                SubqKind::Scalar => Value::Null,
                                SubqKind::Exists { neg } => Value::Bool(*neg),
                                SubqKind::In { neg, .. } => Value::Bool(*neg),
                                SubqKind::Quant { all, .. } => Value::Bool(*all),
                            });
                        }
                    }
                }
                match kind {
                    SubqKind::Scalar => {
                        let rel = self.query(q, env2, ctes)?;
                        match rel.rows.len() {
                            0 => Ok(Value::Null),
                            1 => Ok(rel.rows[0][0].clone()),
                            _ => Err(EvalErr::Runtime("scalar subquery returned more than one row".into())),
                        }
                    }
                    SubqKind::Exists { neg } => {
                        let rel = self.query(q, env2, ctes)?;
                        Ok(Value::Bool(rel.rows.is_empty() == *neg))
                    }
                    SubqKind::In { lhs, neg } => {
                        let v = self.expr(lhs, env, ctes, grp, aliases)?;
                        let rel = self.query(q, env2, ctes)?;
                        let r = self.quantified(&v, BinOp::Eq, false, &rel);
                        Ok(if *neg { tri_not(r) } else { r })
                    }
                    SubqKind::Quant { lhs, op, all } => {
                        let v = self.expr(lhs, env, ctes, grp, aliases)?;
                        let rel = self.query(q, env2, ctes)?;
                        Ok(self.quantified(&v, *op, *all, &rel))
                    }
                }
            }
        }
    }

    fn outer_refs_of(&mut self, q: &Query) -> Rc<Vec<(String, String)>> {
        let key = q as *const Query as usize;
        if let Some(r) = self.outer_refs.get(&key) {
            return r.clone();
        }
        let mut defined: Vec<String> = Vec::new();
        let mut refs: Vec<(String, String)> = Vec::new();
        {
            let d = std::cell::RefCell::new(&mut defined);
            let r = std::cell::RefCell::new(&mut refs);
            let mut c = q.clone();
            crate::sql::shrink::visit_query_mut(
                &mut c,
                &mut |e| {
                    if let Expr::Col { rel, name, .. } = e {
                        r.borrow_mut().push((rel.clone(), name.clone()));
                    }
                },
                &mut |qq| {
                    fn froms(f: &From, out: &mut Vec<String>) {
                        match f {
                            From::Join { left, right, .. } => {
                                froms(left, out);
                                froms(right, out);
                            }
                            From::Table { alias, .. } | From::Subquery { alias, .. } | From::Values { alias, .. } | From::Series { alias, .. } => out.push(alias.clone()),
                        }
                    }
                    fn sets(s: &SetExpr, out: &mut Vec<String>) {
                        match s {
                            SetExpr::Select(sel) => {
                                if let Some(f) = &sel.from {
                                    froms(f, out);
                                }
                            }
                            SetExpr::Union { left, right, .. } => {
                                sets(left, out);
                                sets(right, out);
                            }
                        }
                    }
                    sets(&qq.body, &mut d.borrow_mut());
                },
            );
        }
        refs.retain(|(rel, _)| !defined.contains(rel));
        refs.sort();
        refs.dedup();
        let rc = Rc::new(refs);
        self.outer_refs.insert(key, rc.clone());
        rc
    }

    fn quantified(&mut self, v: &Value, op: BinOp, all: bool, rel: &Rel) -> Value {
        // 3VL fold, independent of the AND/OR deviation (the engine compiles
        // these to mark joins, not to scalar AND/OR)
        let mut saw_null = false;
        for r in &rel.rows {
            match self.cmp_op(op, v, &r[0]) {
                Value::Bool(true) => {
                    if !all {
                        return Value::Bool(true);
                    }
                }
                Value::Bool(false) => {
                    if all {
                        return Value::Bool(false);
                    }
                }
                _ => saw_null = true,
            }
        }
        if saw_null {
            if self.dev.quant_two_valued {
                self.dev_fired.insert("quant_two_valued");
                return Value::Bool(all);
            }
            return Value::Null;
        }
        Value::Bool(all)
    }

    #[allow(clippy::too_many_arguments)]
    fn aggregate(&mut self, f: AggFn, arg: Option<&Expr>, distinct: bool, filter: Option<&Expr>, g: &GroupCtx, env: Option<&Env>, ctes: Option<&Ctes>) -> R<Value> {
        let parent = env.and_then(|e| e.parent);
        let mut vals: Vec<Value> = Vec::new();
        let mut count_star: i128 = 0;
        for row in g.rows {
            self.tick(1)?;
            let renv = Env { cols: g.cols, row, parent };
            if let Some(p) = filter {
                let pv = self.expr(p, Some(&renv), ctes, None, &[])?;
                if !Self::truth(&pv) {
                    if self.dev.filter_ignored {
                        self.dev_fired.insert("filter_ignored");
                    } else {
                        continue;
                    }
                }
            }
            count_star += 1;
            if let Some(a) = arg {
                let v = self.expr(a, Some(&renv), ctes, None, &[])?;
                if !v.is_null() {
                    vals.push(v);
                }
            }
        }
        if distinct {
            let mut d: Vec<Value> = Vec::new();
            for v in vals {
                if !d.iter().any(|x| group_eq(x, &v)) {
                    d.push(v);
                }
            }
            vals = d;
        }
        let arg_ty = arg.map(|a| a.ty());
        Ok(match f {
            AggFn::CountStar => Value::Int(count_star),
            AggFn::Count => Value::Int(vals.len() as i128),
            AggFn::Sum => {
                if vals.is_empty() {
                    Value::Null
                } else if arg_ty == Some(Ty::Dbl) {
                    Value::Float(vals.iter().map(to_f64).sum())
                } else {
                    let s: i128 = vals.iter().map(|v| if let Value::Int(i) = v { *i } else { 0 }).sum();
                    if s < i64::MIN as i128 || s > i64::MAX as i128 {
                        return Err(EvalErr::Runtime("sum overflow".into()));
                    }
                    Value::Int(s)
                }
            }
            AggFn::Min | AggFn::Max => {
                let mut best: Option<Value> = None;
                for v in vals {
                    best = Some(match best {
                        None => v,
                        Some(b) => {
                            let c = sql_cmp(&v, &b).unwrap();
                            if (f == AggFn::Min && c == Ordering::Less) || (f == AggFn::Max && c == Ordering::Greater) { v } else { b }
                        }
                    });
                }
                best.unwrap_or(Value::Null)
            }
            AggFn::Avg => {
                if vals.is_empty() {
                    Value::Null
                } else {
                    let s: f64 = vals.iter().map(to_f64).sum();
                    Value::Float(s / vals.len() as f64)
                }
            }
            AggFn::StddevSamp => {
                if vals.len() < 2 {
                    Value::Null
                } else {
                    let n = vals.len() as f64;
                    let mean = vals.iter().map(to_f64).sum::<f64>() / n;
                    let ss: f64 = vals.iter().map(|v| (to_f64(v) - mean).powi(2)).sum();
                    Value::Float((ss / (n - 1.0)).sqrt())
                }
            }
            AggFn::BoolAnd => {
                if vals.is_empty() { Value::Null } else { Value::Bool(vals.iter().all(|v| matches!(v, Value::Bool(true)))) }
            }
            AggFn::BoolOr => {
                if vals.is_empty() { Value::Null } else { Value::Bool(vals.iter().any(|v| matches!(v, Value::Bool(true)))) }
            }
            AggFn::BitAnd | AggFn::BitOr => {
                if vals.is_empty() {
                    Value::Null
                } else {
                    let mut acc: i64 = if f == AggFn::BitAnd { -1 } else { 0 };
                    for v in &vals {
                        if let Value::Int(i) = v {
                            let x = *i as i64;
                            if f == AggFn::BitAnd {
                                acc &= x
                            } else {
                                acc |= x
                            }
                        }
                    }
                    Value::Int(acc as i128)
                }
            }
        })
    }

    fn from(&mut self, f: &From, env: Option<&Env>, ctes: Option<&Ctes>) -> R<Rel> {
        match f {
            From::Table { name, alias, cols } => {
                // CTE, then view, then table
                let mut c = ctes;
                while let Some(x) = c {
                    if x.name == name {
                        let rel = &x.rel;
                        let cols2: Vec<ColInfo> = cols.iter().map(|(n, t)| ColInfo { rel: alias.clone(), name: n.clone(), ty: *t }).collect();
                        if cols2.len() != rel.cols.len() {
                            return Err(EvalErr::Unsupported(format!("cte {name} arity")));
                        }
                        self.tick(rel.rows.len() as u64)?;
                        return Ok(Rel { cols: cols2, rows: rel.rows.clone() });
                    }
                    c = x.parent;
                }
                if let Some(vq) = self.db.views.get(name) {
                    let rel = self.query(vq, None, None)?;
                    let cols2: Vec<ColInfo> = cols.iter().map(|(n, t)| ColInfo { rel: alias.clone(), name: n.clone(), ty: *t }).collect();
                    return Ok(Rel { cols: cols2, rows: rel.rows });
                }
                let t = self.db.tables.get(name).ok_or_else(|| EvalErr::Unsupported(format!("unknown table {name}")))?;
                self.tick(t.rows.len() as u64)?;
                Ok(Rel { cols: t.cols.iter().map(|(n, ty)| ColInfo { rel: alias.clone(), name: n.clone(), ty: *ty }).collect(), rows: t.rows.clone() })
            }
            From::Subquery { q, alias, cols, .. } => {
                let rel = self.query(q, env, ctes)?;
                Ok(Rel { cols: cols.iter().map(|(n, t)| ColInfo { rel: alias.clone(), name: n.clone(), ty: *t }).collect(), rows: rel.rows })
            }
            From::Values { rows, alias, cols } => {
                let mut out = Vec::new();
                for r in rows {
                    let mut row = Vec::new();
                    for e in r {
                        row.push(self.expr(e, env, ctes, None, &[])?);
                    }
                    out.push(row);
                }
                Ok(Rel { cols: cols.iter().map(|(n, t)| ColInfo { rel: alias.clone(), name: n.clone(), ty: *t }).collect(), rows: out })
            }
            From::Series { start, stop, step, alias, col } => {
                let mut rows = Vec::new();
                if *step == 0 {
                    return Err(EvalErr::Runtime("generate_series step 0".into()));
                }
                let mut x = *start;
                while (*step > 0 && x <= *stop) || (*step < 0 && x >= *stop) {
                    rows.push(vec![Value::Int(x as i128)]);
                    x += step;
                    self.tick(1)?;
                }
                Ok(Rel { cols: vec![ColInfo { rel: alias.clone(), name: col.clone(), ty: Ty::Big }], rows })
            }
            From::Join { kind, left, right, on } => {
                let l = self.from(left, env, ctes)?;
                let lateral = matches!(**right, From::Subquery { lateral: true, .. });
                let r_fixed = if lateral { None } else { Some(self.from(right, env, ctes)?) };
                let mut out_rows: Vec<Row> = Vec::new();
                let mut cols = l.cols.clone();
                let mut rcols: Option<Vec<ColInfo>> = r_fixed.as_ref().map(|r| r.cols.clone());
                let mut right_matched: Vec<bool> = r_fixed.as_ref().map(|r| vec![false; r.rows.len()]).unwrap_or_default();
                for lrow in &l.rows {
                    let lenv = Env { cols: &l.cols, row: lrow, parent: env };
                    let r_owned;
                    let r: &Rel = match &r_fixed {
                        Some(r) => r,
                        None => {
                            // recorded deviation: a NULL in a column the lateral
                            // subquery is correlated on => no rows
                            let mut null_corr = false;
                            if self.dev.corr_null_outer {
                                if let From::Subquery { q, .. } = &**right {
                                    let refs = self.outer_refs_of(q);
                                    for (rel, name) in refs.iter() {
                                        if let Some(v) = lookup(Some(&lenv), rel, name) {
                                            if v.is_null() {
                                                null_corr = true;
                                            }
                                        }
                                    }
                                }
                            }
                            let mut agg_empty = false;
                            if !null_corr && self.dev.corr_agg_empty_null {
                                if let From::Subquery { q, .. } = &**right {
                                    if !self.outer_refs_of(q).is_empty() {
                                        if let Some(probe) = count_probe(q) {
                                            let rel = self.query(&probe, Some(&lenv), ctes)?;
                                            if rel.rows.len() == 1 && matches!(rel.rows[0][0], Value::Int(0)) {
                                                agg_empty = true;
                                            }
                                        }
                                    }
                                }
                            }
                            r_owned = if null_corr {
                                self.dev_fired.insert("corr_null_outer");
                                Rel { cols: from_cols(right), rows: vec![] }
                            } else if agg_empty {
                                self.dev_fired.insert("corr_agg_empty_null");
                                Rel { cols: from_cols(right), rows: vec![] }
                            } else {
                                self.from(right, Some(&lenv), ctes)?
                            };
                            if rcols.is_none() {
                                rcols = Some(r_owned.cols.clone());
                            }
                            &r_owned
                        }
                    };
                    let mut matched = false;
                    for (ri, rrow) in r.rows.iter().enumerate() {
                        self.tick(1)?;
                        let ok = match on {
                            None => true,
                            Some(p) => {
                                let mut all_cols = l.cols.clone();
                                all_cols.extend(r.cols.iter().cloned());
                                let mut all_row = lrow.clone();
                                all_row.extend(rrow.iter().cloned());
                                let jenv = Env { cols: &all_cols, row: &all_row, parent: env };
                                let v = self.expr(p, Some(&jenv), ctes, None, &[])?;
                                Self::truth(&v)
                            }
                        };
                        if ok {
                            matched = true;
                            if !lateral {
                                right_matched[ri] = true;
                            }
                            if *kind == JoinKind::Semi {
                                break;
                            }
                            let mut row = lrow.clone();
                            row.extend(rrow.iter().cloned());
                            out_rows.push(row);
                        }
                    }
                    if *kind == JoinKind::Semi {
                        if matched {
                            out_rows.push(lrow.clone());
                        }
                    } else if *kind == JoinKind::Left && !matched {
                        let mut row = lrow.clone();
                        let n = match (&rcols, &r_fixed) {
                            (Some(c), _) => c.len(),
                            _ => from_width(right),
                        };
                        row.extend(std::iter::repeat_n(Value::Null, n));
                        out_rows.push(row);
                    }
                }
                if *kind == JoinKind::Right {
                    let r = r_fixed.as_ref().ok_or_else(|| EvalErr::Unsupported("lateral right join".into()))?;
                    for (ri, rrow) in r.rows.iter().enumerate() {
                        if !right_matched[ri] {
                            let mut row: Row = std::iter::repeat_n(Value::Null, l.cols.len()).collect();
                            row.extend(rrow.iter().cloned());
                            out_rows.push(row);
                        }
                    }
                }
                if *kind != JoinKind::Semi {
                    match rcols {
                        Some(c) => cols.extend(c),
                        None => cols.extend(from_cols(right)),
                    }
                }
                Ok(Rel { cols, rows: out_rows })
            }
        }
    }

    fn select(&mut self, s: &Select, env: Option<&Env>, ctes: Option<&Ctes>) -> R<Vec<Row>> {
        let input = match &s.from {
            Some(f) => self.from(f, env, ctes)?,
            None => Rel { cols: vec![], rows: vec![vec![]] },
        };
        // WHERE
        let mut rows: Vec<&Row> = Vec::new();
        for r in &input.rows {
            self.tick(1)?;
            let keep = match &s.where_ {
                None => true,
                Some(p) => {
                    let renv = Env { cols: &input.cols, row: r, parent: env };
                    let v = self.expr(p, Some(&renv), ctes, None, &[])?;
                    Self::truth(&v)
                }
            };
            if keep {
                rows.push(r);
            }
        }
        let has_agg = s.items.iter().any(|i| i.expr.contains_agg()) || s.having.as_ref().is_some_and(|h| h.contains_agg());
        let mut out: Vec<Row> = Vec::new();
        if has_agg || s.group_by != GroupBy::None {
            let keys = s.group_by.exprs();
            let sets: Vec<Vec<bool>> = match &s.group_by {
                GroupBy::None => vec![vec![]],
                GroupBy::Plain(k) => vec![vec![true; k.len()]],
                GroupBy::Rollup(k) => (0..=k.len()).rev().map(|n| (0..k.len()).map(|i| i < n).collect()).collect(),
                GroupBy::Cube(k) => (0..(1usize << k.len())).map(|m| (0..k.len()).map(|i| m & (1 << i) == 0).collect()).collect(),
            };
            // evaluate key values per row once
            let mut key_rows: Vec<Vec<Value>> = Vec::with_capacity(rows.len());
            for r in &rows {
                let renv = Env { cols: &input.cols, row: r, parent: env };
                let mut kv = Vec::with_capacity(keys.len());
                for k in keys {
                    kv.push(self.expr(k, Some(&renv), ctes, None, &[])?);
                }
                key_rows.push(kv);
            }
            for set in &sets {
                // groups: linear search
                let mut groups: Vec<(Vec<Value>, Vec<&Row>)> = Vec::new();
                for (ri, r) in rows.iter().enumerate() {
                    self.tick(1)?;
                    let kv: Vec<Value> = key_rows[ri].iter().enumerate().map(|(i, v)| if set[i] { v.clone() } else { Value::Null }).collect();
                    match groups.iter_mut().find(|g| rows_group_eq(&g.0, &kv)) {
                        Some(g) => g.1.push(r),
                        None => groups.push((kv, vec![r])),
                    }
                }
                if groups.is_empty() && set.iter().all(|b| !*b) {
                    // empty grouping set over empty input yields one row
                    groups.push((vec![Value::Null; keys.len()], vec![]));
                    if !keys.is_empty() {
                        // ... for a plain aggregate. For ROLLUP/CUBE the docs are
                        // silent on whether the grand-total row appears for
                        // empty input; not compared.
                        self.dialect_ambiguous = true;
                    }
                }
                for (kv, grows) in &groups {
                    let dummy: Row = vec![];
                    let first: &Row = grows.first().copied().unwrap_or(&dummy);
                    // env whose current frame is a representative row (only
                    // used so that `parent` is reachable)
                    let genv = Env { cols: if grows.is_empty() { &[] } else { &input.cols }, row: first, parent: env };
                    let g = GroupCtx { keys, in_set: set, key_vals: kv, rows: grows, cols: &input.cols };
                    if let Some(h) = &s.having {
                        let v = self.expr(h, Some(&genv), ctes, Some(&g), &[])?;
                        if !Self::truth(&v) {
                            continue;
                        }
                    }
                    let mut row = Vec::with_capacity(s.items.len());
                    for it in &s.items {
                        row.push(self.expr(&it.expr, Some(&genv), ctes, Some(&g), &[])?);
                    }
                    out.push(row);
                }
            }
        } else {
            for r in rows {
                let renv = Env { cols: &input.cols, row: r, parent: env };
                let mut aliases: Vec<(String, Value)> = Vec::new();
                let mut row = Vec::with_capacity(s.items.len());
                for it in &s.items {
                    let v = self.expr(&it.expr, Some(&renv), ctes, None, &aliases)?;
                    aliases.push((it.alias.clone(), v.clone()));
                    row.push(v);
                }
                out.push(row);
            }
        }
        if s.distinct {
            out = dedup(out);
        }
        Ok(out)
    }

    fn set_expr(&mut self, s: &SetExpr, env: Option<&Env>, ctes: Option<&Ctes>) -> R<Vec<Row>> {
        match s {
            SetExpr::Select(sel) => self.select(sel, env, ctes),
            SetExpr::Union { all, left, right } => {
                let mut l = self.set_expr(left, env, ctes)?;
                let r = self.set_expr(right, env, ctes)?;
                l.extend(r);
                self.tick(l.len() as u64)?;
                Ok(if *all { l } else { dedup(l) })
            }
        }
    }

    /// Evaluate a query; returns the rows *before* and *after* LIMIT/OFFSET.
    pub fn query_full(&mut self, q: &Query, env: Option<&Env>, ctes: Option<&Ctes>) -> R<(Vec<Row>, Vec<Row>)> {
        self.with_ctes(q, 0, env, ctes)
    }

    fn with_ctes(&mut self, q: &Query, idx: usize, env: Option<&Env>, ctes: Option<&Ctes>) -> R<(Vec<Row>, Vec<Row>)> {
        if idx < q.ctes.len() {
            let c = &q.ctes[idx];
            let rel = self.query(&c.q, env, ctes)?;
            let link = Ctes { name: &c.name, rel: Rc::new(rel), parent: ctes };
            return self.with_ctes(q, idx + 1, env, Some(&link));
        }
        let mut rows = self.set_expr(&q.body, env, ctes)?;
        if !q.order_by.is_empty() {
            self.tick(rows.len() as u64 * 4)?;
            rows.sort_by(|a, b| order_rows_cmp(a, b, &q.order_by));
        }
        let full = rows.clone();
        let n = rows.len();
        let off = q.offset.unwrap_or(0).min(n as u64) as usize;
        let end = match q.limit {
            Some(l) => (off as u64 + l).min(n as u64) as usize,
            None => n,
        };
        if off > 0 || end < n {
            // Is the slice uniquely determined? At each cut position the tie
            // group (rows with equal sort keys) spanning the cut must consist
            // of identical rows; without ORDER BY all rows form one group.
            let ambiguous_cut = |i: usize| -> bool {
                if i == 0 || i >= n {
                    return false;
                }
                let same_key = |a: &Row, b: &Row| q.order_by.is_empty() || order_rows_cmp(a, b, &q.order_by) == Ordering::Equal;
                if !same_key(&rows[i - 1], &rows[i]) {
                    return false;
                }
                let mut lo = i - 1;
                while lo > 0 && same_key(&rows[lo - 1], &rows[i]) {
                    lo -= 1;
                }
                let mut hi = i + 1;
                while hi < n && same_key(&rows[hi], &rows[i]) {
                    hi += 1;
                }
                rows[lo..hi].windows(2).any(|w| row_cmp(&w[0], &w[1]) != Ordering::Equal)
            };
            if ambiguous_cut(off) || ambiguous_cut(end) {
                self.ambiguous = true;
            }
        }
        let sliced = rows[off..end].to_vec();
        Ok((full, sliced))
    }

    pub fn query(&mut self, q: &Query, env: Option<&Env>, ctes: Option<&Ctes>) -> R<Rel> {
        let (_, rows) = self.query_full(q, env, ctes)?;
        Ok(Rel { cols: q.out.iter().map(|(n, t)| ColInfo { rel: String::new(), name: n.clone(), ty: *t }).collect(), rows })
    }

}

/// For a scalar subquery that is a single ungrouped aggregate SELECT: the same
/// query with `count(*)` as its only item (tells whether the input is empty).
fn count_probe(q: &Query) -> Option<Query> {
    if let SetExpr::Select(sel) = &q.body {
        if sel.group_by == GroupBy::None && !sel.items.is_empty() && sel.items.iter().all(|i| i.expr.contains_agg() || matches!(i.expr, Expr::Lit(..))) && sel.items.iter().any(|i| i.expr.contains_agg()) && q.limit.is_none() && q.offset.is_none() {
            let mut p = q.clone();
            if let SetExpr::Select(s2) = &mut p.body {
                s2.items.truncate(1);
                s2.items[0].expr = Expr::Agg { f: AggFn::CountStar, arg: None, distinct: false, filter: None };
                s2.having = None;
                s2.distinct = false;
            }
            p.order_by.clear();
            p.out = vec![("c0".into(), Ty::Big)];
            return Some(p);
        }
    }
    None
}

fn dedup(rows: Vec<Row>) -> Vec<Row> {
    let mut out: Vec<Row> = Vec::new();
    for r in rows {
        if !out.iter().any(|x| rows_group_eq(x, &r)) {
            out.push(r);
        }
    }
    out
}

fn from_cols(f: &From) -> Vec<ColInfo> {
    match f {
        From::Table { alias, cols, .. } | From::Subquery { alias, cols, .. } | From::Values { alias, cols, .. } => {
            cols.iter().map(|(n, t)| ColInfo { rel: alias.clone(), name: n.clone(), ty: *t }).collect()
        }
        From::Series { alias, col, .. } => vec![ColInfo { rel: alias.clone(), name: col.clone(), ty: Ty::Big }],
        From::Join { kind, left, right, .. } => {
            let mut c = from_cols(left);
            if *kind != JoinKind::Semi {
                c.extend(from_cols(right));
            }
            c
        }
    }
}

fn from_width(f: &From) -> usize {
    from_cols(f).len()
}
