pub mod ast;
pub mod eval;
pub mod qgen;
pub mod print;
pub mod shrink;
