//! AST -> SQL text.

use super::ast::*;
use crate::value::Value;

pub fn ident(s: &str, force_quote: bool) -> String {
    let plain = !s.is_empty()
        && s.chars().all(|c| c.is_ascii_lowercase() || c.is_ascii_digit() || c == '_')
        && !s.chars().next().unwrap().is_ascii_digit();
    if plain && !force_quote {
        s.to_string()
    } else {
        format!("\"{}\"", s.replace('"', "\"\""))
    }
}

pub fn lit(v: &Value, ty: Ty) -> String {
    match v {
        Value::Null => format!("CAST(NULL AS {})", ty.sql()),
        Value::Bool(b) => b.to_string(),
        Value::Int(i) => match ty {
            Ty::Big => format!("CAST({i} AS BIGINT)"),
            Ty::Dbl => format!("CAST({i} AS DOUBLE)"),
            _ => {
                if *i < 0 {
                    format!("({i})")
                } else {
                    i.to_string()
                }
            }
        },
        Value::Float(f) => {
            let two = format!("{:.2}", f);
            if two.parse::<f64>().map(|x| x == *f).unwrap_or(false) {
                // quarters and integers print exactly with two decimals
                format!("CAST({} AS DOUBLE)", fmt_dyadic(*f))
            } else {
                // anything else goes through the text cast: the shortest
                // round-trip rendering parses back to exactly this double
                format!("CAST('{f:?}' AS DOUBLE)")
            }
        }
        Value::Str(s) => format!("'{}'", s.replace('\'', "''")),
        Value::Other(s) => s.clone(),
    }
}

pub fn fmt_dyadic(f: f64) -> String {
    // values are k/4 (or integers): at most 2 decimals
    let s = format!("{:.2}", f);
    debug_assert!((s.parse::<f64>().unwrap() - f).abs() < 1e-12, "non-dyadic float {f}");
    if f < 0.0 { format!("({s})") } else { s }
}

pub fn expr(e: &Expr) -> String {
    match e {
        Expr::Col { rel, name, style, .. } => match style {
            ColStyle::Qualified => format!("{}.{}", ident(rel, false), ident(name, false)),
            ColStyle::Bare => ident(name, false),
            ColStyle::QuotedQualified => format!("{}.{}", ident(rel, true), ident(name, true)),
            ColStyle::QuotedBare => ident(name, true),
        },
        Expr::AliasRef { name, .. } => ident(name, false),
        Expr::Lit(v, t) => lit(v, *t),
        Expr::Bin(op, l, r) => format!("({} {} {})", expr(l), op.sql(), expr(r)),
        Expr::Not(x) => format!("(NOT {})", expr(x)),
        Expr::Neg(x) => format!("(-{})", expr(x)),
        Expr::IsNull { e, neg } => format!("({} IS {}NULL)", expr(e), if *neg { "NOT " } else { "" }),
        Expr::IsDistinct { l, r, neg } => format!("({} IS {}DISTINCT FROM {})", expr(l), if *neg { "NOT " } else { "" }, expr(r)),
        Expr::Between { e, lo, hi, neg } => format!("({} {}BETWEEN {} AND {})", expr(e), if *neg { "NOT " } else { "" }, expr(lo), expr(hi)),
        Expr::InList { e, list, neg } => {
            let items: Vec<String> = list.iter().map(expr).collect();
            format!("({} {}IN ({}))", expr(e), if *neg { "NOT " } else { "" }, items.join(", "))
        }
        Expr::Case { whens, els, .. } => {
            let mut s = String::from("(CASE");
            for (c, v) in whens {
                s.push_str(&format!(" WHEN {} THEN {}", expr(c), expr(v)));
            }
            if let Some(e) = els {
                s.push_str(&format!(" ELSE {}", expr(e)));
            }
            s.push_str(" END)");
            s
        }
        Expr::Cast(x, t) => format!("CAST({} AS {})", expr(x), t.sql()),
        Expr::Func(f, args) => {
            let name = match f {
                Func::Coalesce => "coalesce",
                Func::Length => "length",
                Func::Upper => "upper",
                Func::Lower => "lower",
            };
            let a: Vec<String> = args.iter().map(expr).collect();
            format!("{name}({})", a.join(", "))
        }
        Expr::Agg { f, arg, distinct, filter } => {
            let inner = match (f, arg) {
                (AggFn::CountStar, _) => "*".to_string(),
                (_, Some(a)) => format!("{}{}", if *distinct { "DISTINCT " } else { "" }, expr(a)),
                _ => "*".to_string(),
            };
            let mut s = format!("{}({inner})", f.sql());
            if let Some(p) = filter {
                s.push_str(&format!(" FILTER (WHERE {})", expr(p)));
            }
            s
        }
        Expr::Grouping(args) => {
            let a: Vec<String> = args.iter().map(expr).collect();
            format!("GROUPING({})", a.join(", "))
        }
        Expr::Subq { kind, q, .. } => match kind {
            SubqKind::Scalar => format!("({})", query(q)),
            SubqKind::Exists { neg } => format!("({}EXISTS ({}))", if *neg { "NOT " } else { "" }, query(q)),
            SubqKind::In { lhs, neg } => format!("({} {}IN ({}))", expr(lhs), if *neg { "NOT " } else { "" }, query(q)),
            SubqKind::Quant { lhs, op, all } => format!("({} {} {} ({}))", expr(lhs), op.sql(), if *all { "ALL" } else { "ANY" }, query(q)),
        },
    }
}

fn col_alias_list(cols: &[(String, Ty)]) -> String {
    let v: Vec<String> = cols.iter().map(|c| ident(&c.0, false)).collect();
    v.join(", ")
}

pub fn from(f: &From) -> String {
    match f {
        From::Table { name, alias, .. } => {
            if name == alias {
                ident_path(name)
            } else {
                format!("{} AS {}", ident_path(name), ident(alias, false))
            }
        }
        From::Subquery { q, alias, cols, lateral } => {
            format!("{}({}) AS {}({})", if *lateral { "LATERAL " } else { "" }, query(q), ident(alias, false), col_alias_list(cols))
        }
        From::Values { rows, alias, cols } => {
            let rs: Vec<String> = rows
                .iter()
                .map(|r| {
                    let v: Vec<String> = r.iter().map(expr).collect();
                    format!("({})", v.join(", "))
                })
                .collect();
            format!("(VALUES {}) AS {}({})", rs.join(", "), ident(alias, false), col_alias_list(cols))
        }
        From::Series { start, stop, step, alias, col } => {
            format!("generate_series({start}, {stop}, {step}) AS {}({})", ident(alias, false), ident(col, false))
        }
        From::Join { kind, left, right, on } => {
            let l = from(left);
            let r = match **right {
                From::Join { .. } => format!("({})", from(right)),
                _ => from(right),
            };
            match kind {
                JoinKind::Cross => format!("{l} CROSS JOIN {r}"),
                JoinKind::Inner => format!("{l} INNER JOIN {r} ON {}", expr(on.as_ref().unwrap())),
                JoinKind::Left => format!("{l} LEFT JOIN {r} ON {}", expr(on.as_ref().unwrap())),
                JoinKind::Right => format!("{l} RIGHT JOIN {r} ON {}", expr(on.as_ref().unwrap())),
                JoinKind::Semi => format!("{l} SEMI JOIN {r} ON {}", expr(on.as_ref().unwrap())),
            }
        }
    }
}

/// `schema.table` paths are stored with a '.' separator.
pub fn ident_path(name: &str) -> String {
    let parts: Vec<String> = name.split('.').map(|p| ident(p, false)).collect();
    parts.join(".")
}

pub fn select(s: &Select) -> String {
    let mut out = String::from("SELECT ");
    if s.distinct {
        out.push_str("DISTINCT ");
    }
    let items: Vec<String> = s
        .items
        .iter()
        .map(|it| if it.print_alias { format!("{} AS {}", expr(&it.expr), ident(&it.alias, false)) } else { expr(&it.expr) })
        .collect();
    out.push_str(&items.join(", "));
    if let Some(f) = &s.from {
        out.push_str(" FROM ");
        out.push_str(&from(f));
    }
    if let Some(w) = &s.where_ {
        out.push_str(" WHERE ");
        out.push_str(&expr(w));
    }
    match &s.group_by {
        GroupBy::None => {}
        GroupBy::Plain(v) => {
            let e: Vec<String> = v.iter().map(expr).collect();
            out.push_str(&format!(" GROUP BY {}", e.join(", ")));
        }
        GroupBy::Rollup(v) => {
            let e: Vec<String> = v.iter().map(expr).collect();
            out.push_str(&format!(" GROUP BY ROLLUP ({})", e.join(", ")));
        }
        GroupBy::Cube(v) => {
            let e: Vec<String> = v.iter().map(expr).collect();
            out.push_str(&format!(" GROUP BY CUBE ({})", e.join(", ")));
        }
    }
    if let Some(h) = &s.having {
        out.push_str(" HAVING ");
        out.push_str(&expr(h));
    }
    out
}

pub fn set_expr(s: &SetExpr) -> String {
    match s {
        SetExpr::Select(sel) => select(sel),
        SetExpr::Union { all, left, right } => {
            let r = match **right {
                SetExpr::Union { .. } => format!("({})", set_expr(right)),
                _ => set_expr(right),
            };
            format!("{} UNION {}{}", set_expr(left), if *all { "ALL " } else { "" }, r)
        }
    }
}

pub fn query(q: &Query) -> String {
    let mut out = String::new();
    if !q.ctes.is_empty() {
        out.push_str("WITH ");
        let parts: Vec<String> = q
            .ctes
            .iter()
            .map(|c| {
                let cols = match &c.col_aliases {
                    Some(a) => format!("({})", a.iter().map(|x| ident(x, false)).collect::<Vec<_>>().join(", ")),
                    None => String::new(),
                };
                format!("{}{} AS {}({})", ident(&c.name, false), cols, if c.materialized { "MATERIALIZED " } else { "" }, query(&c.q))
            })
            .collect();
        out.push_str(&parts.join(", "));
        out.push(' ');
    }
    let needs_wrap = matches!(q.body, SetExpr::Union { .. }) && (!q.order_by.is_empty() || q.limit.is_some() || q.offset.is_some());
    if needs_wrap {
        // ORDER BY / LIMIT directly on a set operation is not supported by the
        // engine; wrap it.
        out.push_str(&format!("SELECT * FROM ({}) AS u_", set_expr(&q.body)));
    } else {
        out.push_str(&set_expr(&q.body));
    }
    if !q.order_by.is_empty() {
        let items: Vec<String> = q
            .order_by
            .iter()
            .map(|o| {
                let key = if o.by_alias { ident(&q.out[o.col].0, false) } else { (o.col + 1).to_string() };
                format!(
                    "{key}{}{}",
                    if o.desc { " DESC" } else { " ASC" },
                    match o.nulls {
                        NullsOrder::Default => "",
                        NullsOrder::First => " NULLS FIRST",
                        NullsOrder::Last => " NULLS LAST",
                    }
                )
            })
            .collect();
        out.push_str(&format!(" ORDER BY {}", items.join(", ")));
    }
    if let Some(l) = q.limit {
        out.push_str(&format!(" LIMIT {l}"));
    }
    if let Some(o) = q.offset {
        out.push_str(&format!(" OFFSET {o}"));
    }
    out
}
