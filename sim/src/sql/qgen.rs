//! Typed query generator (swarm style): well-typed by construction.

use super::ast::*;
use super::eval::TableData;
use crate::rng::Rng;
use crate::value::{Row, Value};

#[derive(Debug, Clone)]
pub struct Features {
    pub joins: bool,
    pub outer_joins: bool,
    pub semi_join: bool,
    pub lateral: bool,
    pub non_equi_join: bool,
    pub subq_scalar: bool,
    pub subq_exists: bool,
    pub subq_in: bool,
    pub subq_quant: bool,
    pub correlated: bool,
    pub derived: bool,
    pub cte: bool,
    pub union: bool,
    pub distinct: bool,
    pub group_by: bool,
    pub rollup_cube: bool,
    pub agg_distinct: bool,
    pub agg_filter: bool,
    pub having: bool,
    pub order_by: bool,
    pub limit: bool,
    pub values: bool,
    pub series: bool,
    pub case: bool,
    pub cast: bool,
    pub arith: bool,
    pub and_or: bool,
    pub between_in: bool,
    pub funcs: bool,
    pub alias_ref: bool,
    pub ident_styles: bool,
    pub float_aggs: bool,
    /// LIMIT/OFFSET above outer/semi/mark joins (hangs with >1 partition on the
    /// pinned tree: KF-limit-over-drain-join); off unless a check wants it
    pub limit_over_drain_joins: bool,
}

impl Features {
    pub fn all() -> Features {
        Features {
            joins: true,
            outer_joins: true,
            semi_join: true,
            lateral: true,
            non_equi_join: true,
            subq_scalar: true,
            subq_exists: true,
            subq_in: true,
            subq_quant: true,
            correlated: true,
            derived: true,
            cte: true,
            union: true,
            distinct: true,
            group_by: true,
            rollup_cube: true,
            agg_distinct: true,
            agg_filter: true,
            having: true,
            order_by: true,
            limit: true,
            values: true,
            series: true,
            case: true,
            cast: true,
            arith: true,
            and_or: true,
            between_in: true,
            funcs: true,
            alias_ref: true,
            ident_styles: true,
            float_aggs: true,
            limit_over_drain_joins: false,
        }
    }

    /// Swarm mask: each feature is switched off with probability ~1/4.
    pub fn swarm(rng: &mut Rng) -> Features {
        let mut f = Features::all();
        let mut off = |b: &mut bool| {
            if rng.chance(1, 4) {
                *b = false
            }
        };
        off(&mut f.joins);
        off(&mut f.outer_joins);
        off(&mut f.semi_join);
        off(&mut f.lateral);
        off(&mut f.non_equi_join);
        off(&mut f.subq_scalar);
        off(&mut f.subq_exists);
        off(&mut f.subq_in);
        off(&mut f.subq_quant);
        off(&mut f.correlated);
        off(&mut f.derived);
        off(&mut f.cte);
        off(&mut f.union);
        off(&mut f.distinct);
        off(&mut f.group_by);
        off(&mut f.rollup_cube);
        off(&mut f.agg_distinct);
        off(&mut f.agg_filter);
        off(&mut f.having);
        off(&mut f.order_by);
        off(&mut f.limit);
        off(&mut f.values);
        off(&mut f.series);
        off(&mut f.case);
        off(&mut f.cast);
        off(&mut f.arith);
        off(&mut f.and_or);
        off(&mut f.between_in);
        off(&mut f.funcs);
        off(&mut f.alias_ref);
        off(&mut f.ident_styles);
        off(&mut f.float_aggs);
        f
    }
}

#[derive(Debug, Clone)]
pub struct TableDef {
    pub name: String,
    pub data: TableData,
}

#[derive(Debug, Clone)]
struct RelInfo {
    alias: String,
    cols: Vec<(String, Ty)>,
}

struct Scope<'a> {
    rels: Vec<RelInfo>,
    parent: Option<&'a Scope<'a>>,
}

#[derive(Debug, Clone)]
struct CteInfo {
    name: String,
    cols: Vec<(String, Ty)>,
    est: u64,
}

pub struct Gen<'t> {
    pub rng: Rng,
    pub tables: &'t [TableDef],
    /// views visible to FROM: (name, cols, estimated rows)
    pub views: Vec<(String, Vec<(String, Ty)>, u64)>,
    pub f: Features,
    pub max_depth: u32,
    counter: u32,
    ctes: Vec<CteInfo>,
    pub max_product: u64,
    /// lean on shared materializations: always define CTEs (mostly
    /// MATERIALIZED), reference them often, combine references with UNION
    pub cte_bias: bool,
    /// >0 while generating inside an aggregate argument: only columns of the
    /// innermost query may be used (an aggregate over outer columns belongs to
    /// the outer query in SQL)
    no_outer: u32,
}

pub const TEXT_POOL: &[&str] = &["a", "b", "ab", "", "Zed", "zed", "éa", "日本", "abcdefghijkl", "abcdefghijklm", "abcdefghijklmnopqrstuvwxyz", "x y", "its", "%_", "NULL"];

pub fn gen_value(rng: &mut Rng, ty: Ty, span: i64) -> Value {
    match ty {
        Ty::Int | Ty::Big => {
            if rng.chance(1, 12) {
                Value::Int(*rng.pick(&[-1000i128, 1000, 999, -1, 0, 7, 100]))
            } else {
                Value::Int(rng.range(-2, span.max(1)) as i128)
            }
        }
        Ty::Bool => Value::Bool(rng.chance(1, 2)),
        Ty::Text => Value::Str(TEXT_POOL[rng.usize_below(TEXT_POOL.len().min(3 + span.max(0) as usize))].to_string()),
        Ty::Dbl => Value::Float(rng.range(-8, 4 * span.max(1)) as f64 / 4.0),
    }
}

/// Random tables: 1-4 tables, 1-5 columns, NULL density and value span per column.
pub fn gen_tables(rng: &mut Rng, max_rows: usize) -> Vec<TableDef> {
    let nt = 1 + rng.usize_below(4);
    let mut out = Vec::new();
    for t in 0..nt {
        let nc = 1 + rng.usize_below(5);
        let mut cols = Vec::new();
        for c in 0..nc {
            let ty = *rng.pick_weighted(&[(5, Ty::Int), (2, Ty::Big), (2, Ty::Bool), (3, Ty::Text), (2, Ty::Dbl)]);
            let prefix = match ty {
                Ty::Int => "i",
                Ty::Big => "g",
                Ty::Bool => "b",
                Ty::Text => "s",
                Ty::Dbl => "f",
            };
            cols.push((format!("{prefix}{t}{c}"), ty));
        }
        let nrows = match rng.below(10) {
            0 => 0,
            1 => 1,
            2..=6 => 2 + rng.usize_below(12),
            7 | 8 => rng.usize_below(max_rows.max(1) / 2 + 1),
            _ => rng.usize_below(max_rows + 1),
        };
        let null_den: Vec<u64> = cols.iter().map(|_| *rng.pick(&[0u64, 0, 1, 1, 2, 5, 10])).collect();
        let span: Vec<i64> = cols.iter().map(|_| *rng.pick(&[1i64, 2, 3, 6, 12, 40])).collect();
        let mut rows: Vec<Row> = Vec::with_capacity(nrows);
        for _ in 0..nrows {
            let mut r = Vec::with_capacity(nc);
            for (ci, (_, ty)) in cols.iter().enumerate() {
                if null_den[ci] > 0 && rng.below(10) < null_den[ci] {
                    r.push(Value::Null);
                } else {
                    r.push(gen_value(rng, *ty, span[ci]));
                }
            }
            rows.push(r);
        }
        out.push(TableDef { name: format!("t{t}"), data: TableData { cols, rows } });
    }
    out
}

impl<'t> Gen<'t> {
    pub fn new(rng: Rng, tables: &'t [TableDef], f: Features) -> Self {
        Gen { rng, tables, views: Vec::new(), f, max_depth: 3, counter: 0, ctes: Vec::new(), max_product: 60_000, cte_bias: false, no_outer: 0 }
    }

    fn fresh(&mut self, p: &str) -> String {
        self.counter += 1;
        format!("{p}{}", self.counter)
    }

    fn style(&mut self) -> ColStyle {
        if !self.f.ident_styles {
            return ColStyle::Qualified;
        }
        match self.rng.below(8) {
            0 => ColStyle::QuotedQualified,
            _ => ColStyle::Qualified,
        }
    }

    // ----- expressions ----------------------------------------------------

    fn cols_of<'s>(&self, scope: &'s Scope, ty: Option<Ty>, local_only: bool) -> Vec<(&'s str, &'s str, Ty, bool)> {
        let mut out = Vec::new();
        let mut s = Some(scope);
        let mut outer = false;
        while let Some(sc) = s {
            for r in &sc.rels {
                for (n, t) in &r.cols {
                    if ty.is_none() || ty == Some(*t) {
                        out.push((r.alias.as_str(), n.as_str(), *t, outer));
                    }
                }
            }
            if local_only || !self.f.correlated || self.no_outer > 0 {
                break;
            }
            s = sc.parent;
            outer = true;
        }
        out
    }

    fn col(&mut self, scope: &Scope, ty: Ty, local_only: bool) -> Option<Expr> {
        let cands = self.cols_of(scope, Some(ty), local_only);
        if cands.is_empty() {
            return None;
        }
        // prefer local columns; outer ones make the expression correlated
        let locals: Vec<_> = cands.iter().filter(|c| !c.3).collect();
        let pick = if !locals.is_empty() && (locals.len() == cands.len() || !self.rng.chance(1, 3)) {
            **self.rng.pick(&locals)
        } else {
            *self.rng.pick(&cands)
        };
        let (rel, name, t) = (pick.0.to_string(), pick.1.to_string(), pick.2);
        let style = self.style();
        Some(Expr::Col { rel, name, ty: t, style })
    }

    pub fn literal(&mut self, ty: Ty) -> Expr {
        if self.rng.chance(1, 25) {
            return Expr::Lit(Value::Null, ty);
        }
        let span = *self.rng.pick(&[2i64, 6, 12]);
        Expr::Lit(gen_value(&mut self.rng, ty, span), ty)
    }

    fn small_int_lit(&mut self, nonzero: bool) -> Expr {
        let mut v = self.rng.range(-3, 7);
        if nonzero && v == 0 {
            v = 2;
        }
        Expr::Lit(Value::Int(v as i128), Ty::Int)
    }

    fn leaf(&mut self, scope: &Scope, ty: Ty) -> Expr {
        if self.rng.chance(3, 4) {
            if let Some(c) = self.col(scope, ty, false) {
                return c;
            }
        }
        self.literal(ty)
    }

    pub fn expr(&mut self, scope: &Scope, ty: Ty, depth: u32, sub_ok: bool) -> Expr {
        if depth == 0 || self.rng.chance(1, 3) {
            return self.leaf(scope, ty);
        }
        let d = depth - 1;
        match ty {
            Ty::Bool => self.bool_expr(scope, d, sub_ok),
            Ty::Int | Ty::Big | Ty::Dbl => {
                let mut opts: Vec<u32> = vec![0];
                if self.f.arith {
                    opts.extend([1, 1, 2, 3]);
                }
                if self.f.case {
                    opts.push(4);
                }
                if self.f.cast {
                    opts.push(5);
                }
                if self.f.funcs {
                    opts.push(6);
                    if ty == Ty::Big {
                        opts.push(7);
                    }
                }
                if sub_ok && self.f.subq_scalar {
                    opts.push(8);
                }
                match *self.rng.pick(&opts) {
                    1 => {
                        // + / -
                        let op = if self.rng.chance(1, 2) { BinOp::Add } else { BinOp::Sub };
                        let (lt, rt) = self.operand_types(ty);
                        let l = self.expr(scope, lt, d, sub_ok);
                        let r = self.expr(scope, rt, d, false);
                        Expr::Bin(op, Box::new(l), Box::new(r))
                    }
                    2 => {
                        // * small literal
                        let l = self.leaf(scope, ty);
                        // nonzero: x * 0 is -0.0 for negative doubles, and the
                        // engine's DISTINCT/GROUP BY keep -0.0 and 0.0 apart
                        let r = self.small_int_lit(true);
                        Expr::Bin(BinOp::Mul, Box::new(l), Box::new(r))
                    }
                    3 => {
                        if ty == Ty::Dbl {
                            let l = self.leaf(scope, ty);
                            let r = Expr::Lit(Value::Int(*self.rng.pick(&[2i128, 4, -2])), Ty::Int);
                            Expr::Bin(BinOp::Div, Box::new(l), Box::new(r))
                        } else {
                            let op = if self.rng.chance(1, 2) { BinOp::Div } else { BinOp::Rem };
                            let l = self.expr(scope, ty, d, false);
                            let r = self.small_int_lit(true);
                            Expr::Bin(op, Box::new(l), Box::new(r))
                        }
                    }
                    4 => self.case_expr(scope, ty, d, sub_ok),
                    5 => {
                        let from = match ty {
                            Ty::Int => *self.rng.pick(&[Ty::Big, Ty::Dbl]),
                            Ty::Big => *self.rng.pick(&[Ty::Int, Ty::Dbl]),
                            _ => *self.rng.pick(&[Ty::Int, Ty::Big]),
                        };
                        // casting to a narrower type can fail; keep operands as leaves
                        let inner = self.leaf(scope, from);
                        Expr::Cast(Box::new(inner), ty)
                    }
                    6 => {
                        let a = self.leaf(scope, ty);
                        let b = self.expr(scope, ty, d, false);
                        Expr::Func(Func::Coalesce, vec![a, b])
                    }
                    7 => {
                        let a = self.expr(scope, Ty::Text, d, false);
                        Expr::Func(Func::Length, vec![a])
                    }
                    8 => self.scalar_subquery(scope, ty, d),
                    _ => {
                        if ty != Ty::Dbl && self.f.arith && self.rng.chance(1, 4) {
                            Expr::Neg(Box::new(self.leaf(scope, ty)))
                        } else {
                            self.leaf(scope, ty)
                        }
                    }
                }
            }
            Ty::Text => {
                let mut opts: Vec<u32> = vec![0, 1];
                if self.f.funcs {
                    opts.extend([2, 3]);
                }
                if self.f.case {
                    opts.push(4);
                }
                if self.f.cast {
                    opts.push(5);
                }
                if sub_ok && self.f.subq_scalar {
                    opts.push(6);
                }
                match *self.rng.pick(&opts) {
                    1 => {
                        let l = self.expr(scope, Ty::Text, d, false);
                        let r = self.leaf(scope, Ty::Text);
                        Expr::Bin(BinOp::Concat, Box::new(l), Box::new(r))
                    }
                    2 => {
                        let f = if self.rng.chance(1, 2) { Func::Upper } else { Func::Lower };
                        Expr::Func(f, vec![self.leaf(scope, Ty::Text)])
                    }
                    3 => {
                        let a = self.leaf(scope, Ty::Text);
                        let b = self.expr(scope, Ty::Text, d, false);
                        Expr::Func(Func::Coalesce, vec![a, b])
                    }
                    4 => self.case_expr(scope, ty, d, sub_ok),
                    5 => {
                        let from = *self.rng.pick(&[Ty::Int, Ty::Big]);
                        Expr::Cast(Box::new(self.leaf(scope, from)), Ty::Text)
                    }
                    6 => self.scalar_subquery(scope, ty, d),
                    _ => self.leaf(scope, ty),
                }
            }
        }
    }

    fn operand_types(&mut self, ty: Ty) -> (Ty, Ty) {
        match ty {
            Ty::Int => (Ty::Int, Ty::Int),
            Ty::Big => *self.rng.pick(&[(Ty::Big, Ty::Big), (Ty::Big, Ty::Int), (Ty::Int, Ty::Big)]),
            _ => *self.rng.pick(&[(Ty::Dbl, Ty::Dbl), (Ty::Dbl, Ty::Int), (Ty::Int, Ty::Dbl)]),
        }
    }

    fn case_expr(&mut self, scope: &Scope, ty: Ty, d: u32, sub_ok: bool) -> Expr {
        let n = 1 + self.rng.usize_below(2);
        let mut whens = Vec::new();
        for _ in 0..n {
            let c = self.bool_expr(scope, d, false);
            let v = self.expr(scope, ty, d, sub_ok);
            whens.push((c, v));
        }
        let els = if self.rng.chance(2, 3) { Some(Box::new(self.expr(scope, ty, d, false))) } else { None };
        Expr::Case { whens, els, ty }
    }

    fn comparable_ty(&mut self) -> Ty {
        *self.rng.pick_weighted(&[(5, Ty::Int), (2, Ty::Big), (1, Ty::Bool), (3, Ty::Text), (2, Ty::Dbl)])
    }

    fn cmp_partner_ty(&mut self, t: Ty) -> Ty {
        match t {
            Ty::Int => *self.rng.pick(&[Ty::Int, Ty::Int, Ty::Big]),
            Ty::Big => *self.rng.pick(&[Ty::Big, Ty::Int]),
            Ty::Dbl => *self.rng.pick(&[Ty::Dbl, Ty::Dbl, Ty::Int]),
            t => t,
        }
    }

    pub fn bool_expr(&mut self, scope: &Scope, d: u32, sub_ok: bool) -> Expr {
        let mut opts: Vec<u32> = vec![0, 0, 0, 1];
        if self.f.and_or && d > 0 {
            opts.extend([2, 2, 3]);
        }
        if self.f.between_in {
            opts.extend([4, 5]);
        }
        opts.push(6);
        if sub_ok && d > 0 {
            if self.f.subq_exists {
                opts.push(7);
            }
            if self.f.subq_in {
                opts.push(8);
            }
            if self.f.subq_quant {
                opts.push(9);
            }
        }
        if self.f.case && d > 0 {
            opts.push(10);
        }
        if self.f.and_or && d > 0 && scope.rels.len() >= 2 {
            // an OR of three or four branches, each a comparison on one
            // relation or an AND of comparisons on two: the shape the
            // join-filter OR rewrite and filter pushdown pick apart
            opts.extend([11, 11]);
        }
        let dd = d.saturating_sub(1);
        match *self.rng.pick(&opts) {
            11 => {
                let nb = 3 + self.rng.usize_below(2);
                let mut branches: Vec<Expr> = Vec::new();
                for _ in 0..nb {
                    let nc = 1 + self.rng.usize_below(2);
                    let mut conj: Option<Expr> = None;
                    for _ in 0..nc {
                        let ri = self.rng.usize_below(scope.rels.len());
                        let cands: Vec<(String, Ty)> = scope.rels[ri].cols.iter().filter(|c| matches!(c.1, Ty::Int | Ty::Big)).cloned().collect();
                        if cands.is_empty() {
                            continue;
                        }
                        let c = cands[self.rng.usize_below(cands.len())].clone();
                        let col = Expr::Col { rel: scope.rels[ri].alias.clone(), name: c.0.clone(), ty: c.1, style: ColStyle::Qualified };
                        let lit = self.literal(c.1);
                        let op = *self.rng.pick(&[BinOp::Eq, BinOp::Eq, BinOp::Lt, BinOp::Ge]);
                        let p = Expr::Bin(op, Box::new(col), Box::new(lit));
                        conj = Some(match conj {
                            Some(x) => Expr::Bin(BinOp::And, Box::new(x), Box::new(p)),
                            None => p,
                        });
                    }
                    if let Some(c) = conj {
                        branches.push(c);
                    }
                }
                match branches.into_iter().reduce(|a, b| Expr::Bin(BinOp::Or, Box::new(a), Box::new(b))) {
                    Some(e) => e,
                    None => self.bool_expr(scope, 0, false),
                }
            }
            0 => {
                let t = self.comparable_ty();
                let t2 = self.cmp_partner_ty(t);
                let op = *self.rng.pick(&[BinOp::Eq, BinOp::Eq, BinOp::Ne, BinOp::Lt, BinOp::Le, BinOp::Gt, BinOp::Ge]);
                let l = self.expr(scope, t, dd, sub_ok);
                let r = self.expr(scope, t2, dd, false);
                Expr::Bin(op, Box::new(l), Box::new(r))
            }
            1 => {
                let t = self.comparable_ty();
                Expr::IsNull { e: Box::new(self.leaf(scope, t)), neg: self.rng.chance(1, 2) }
            }
            2 => {
                let op = if self.rng.chance(1, 2) { BinOp::And } else { BinOp::Or };
                let l = self.bool_expr(scope, dd, sub_ok);
                let r = self.bool_expr(scope, dd, sub_ok);
                Expr::Bin(op, Box::new(l), Box::new(r))
            }
            3 => Expr::Not(Box::new(self.bool_expr(scope, dd, sub_ok))),
            4 => {
                let t = *self.rng.pick(&[Ty::Int, Ty::Int, Ty::Big, Ty::Dbl, Ty::Text]);
                let e = self.leaf(scope, t);
                let lo = self.expr(scope, t, dd, false);
                let hi = self.expr(scope, t, dd, false);
                Expr::Between { e: Box::new(e), lo: Box::new(lo), hi: Box::new(hi), neg: self.rng.chance(1, 4) }
            }
            5 => {
                let t = *self.rng.pick(&[Ty::Int, Ty::Int, Ty::Big, Ty::Text]);
                let e = self.leaf(scope, t);
                let n = 1 + self.rng.usize_below(4);
                let list: Vec<Expr> = (0..n).map(|_| self.literal(t)).collect();
                Expr::InList { e: Box::new(e), list, neg: self.rng.chance(1, 3) }
            }
            6 => {
                if self.rng.chance(1, 2) {
                    if let Some(c) = self.col(scope, Ty::Bool, false) {
                        return c;
                    }
                }
                let t = self.comparable_ty();
                let l = self.leaf(scope, t);
                let r = self.leaf(scope, t);
                Expr::IsDistinct { l: Box::new(l), r: Box::new(r), neg: self.rng.chance(1, 2) }
            }
            7 => {
                let q = self.subquery_rows(scope, None, dd);
                Expr::Subq { kind: SubqKind::Exists { neg: self.rng.chance(1, 2) }, q: Box::new(q), ty: Ty::Bool }
            }
            8 => {
                let t = *self.rng.pick(&[Ty::Int, Ty::Int, Ty::Big]);
                let lhs = match self.col(scope, t, false) {
                    Some(c) => c,
                    None => return self.bool_expr(scope, 0, false),
                };
                let q = self.subquery_rows(scope, Some(t), dd);
                Expr::Subq { kind: SubqKind::In { lhs: Box::new(lhs), neg: self.rng.chance(1, 2) }, q: Box::new(q), ty: Ty::Bool }
            }
            9 => {
                let t = *self.rng.pick(&[Ty::Int, Ty::Int, Ty::Big, Ty::Dbl]);
                let lhs = match self.col(scope, t, false) {
                    Some(c) => c,
                    None => return self.bool_expr(scope, 0, false),
                };
                let q = self.subquery_rows(scope, Some(t), dd);
                let op = *self.rng.pick(&[BinOp::Eq, BinOp::Ne, BinOp::Lt, BinOp::Le, BinOp::Gt, BinOp::Ge]);
                Expr::Subq { kind: SubqKind::Quant { lhs: Box::new(lhs), op, all: self.rng.chance(1, 2) }, q: Box::new(q), ty: Ty::Bool }
            }
            _ => self.case_expr(scope, Ty::Bool, dd, false),
        }
    }

    // ----- subqueries -------------------------------------------------------

    /// Scalar subquery: an ungrouped aggregate (always exactly one row).
    fn scalar_subquery(&mut self, scope: &Scope, ty: Ty, d: u32) -> Expr {
        let (from, inner) = self.gen_from(Some(scope), d, 1);
        let inner_scope = Scope { rels: inner, parent: Some(scope) };
        let where_ = if self.rng.chance(4, 5) { Some(self.bool_expr(&inner_scope, d.min(2), false)) } else { None };
        let agg = self.agg_of_type(&inner_scope, ty, d.min(1));
        let sel = Select { distinct: false, items: vec![SelectItem { expr: agg, alias: "c0".into(), print_alias: true }], from: Some(from), where_, group_by: GroupBy::None, having: None };
        let q = Query { ctes: vec![], body: SetExpr::Select(Box::new(sel)), order_by: vec![], limit: None, offset: None, out: vec![("c0".into(), ty)] };
        Expr::Subq { kind: SubqKind::Scalar, q: Box::new(q), ty }
    }

    /// Row-producing subquery for EXISTS / IN / ANY / ALL: single column of
    /// type `ty` (any type if None).
    fn subquery_rows(&mut self, scope: &Scope, ty: Option<Ty>, d: u32) -> Query {
        let t = ty.unwrap_or(Ty::Int);
        let want = [t];
        self.gen_query_inner(Some(scope), Some(&want), d, false)
    }

    fn agg_of_type(&mut self, scope: &Scope, ty: Ty, d: u32) -> Expr {
        self.no_outer += 1;
        let e = self.agg_of_type_inner(scope, ty, d);
        self.no_outer -= 1;
        e
    }

    fn agg_of_type_inner(&mut self, scope: &Scope, ty: Ty, d: u32) -> Expr {
        let filter = if self.f.agg_filter && self.rng.chance(1, 6) { Some(Box::new(self.bool_expr(scope, 1, false))) } else { None };
        let distinct_ok = self.f.agg_distinct;
        let mut distinct = distinct_ok && self.rng.chance(1, 5);
        let (f, arg): (AggFn, Option<Expr>) = match ty {
            Ty::Big => match self.rng.below(5) {
                0 | 1 => {
                    distinct = false;
                    (AggFn::CountStar, None)
                }
                2 => {
                    let t = self.comparable_ty();
                    (AggFn::Count, Some(self.expr(scope, t, d, false)))
                }
                3 => {
                    let t = *self.rng.pick(&[Ty::Int, Ty::Big]);
                    (AggFn::Sum, Some(self.expr(scope, t, d, false)))
                }
                _ => (*self.rng.pick(&[AggFn::Min, AggFn::Max, AggFn::BitOr, AggFn::BitAnd]), Some(self.expr(scope, Ty::Big, d, false))),
            },
            Ty::Int => (*self.rng.pick(&[AggFn::Min, AggFn::Max, AggFn::Max, AggFn::BitAnd, AggFn::BitOr]), Some(self.expr(scope, Ty::Int, d, false))),
            Ty::Dbl => {
                if !self.f.float_aggs {
                    (*self.rng.pick(&[AggFn::Min, AggFn::Max]), Some(self.expr(scope, Ty::Dbl, d, false)))
                } else {
                    match self.rng.below(5) {
                        0 | 1 => {
                            let t = *self.rng.pick(&[Ty::Int, Ty::Big, Ty::Dbl]);
                            (AggFn::Avg, Some(self.expr(scope, t, d, false)))
                        }
                        2 => (AggFn::Sum, Some(self.expr(scope, Ty::Dbl, d, false))),
                        3 => {
                            let t = *self.rng.pick(&[Ty::Int, Ty::Dbl]);
                            distinct = false;
                            (AggFn::StddevSamp, Some(self.expr(scope, t, d, false)))
                        }
                        _ => (*self.rng.pick(&[AggFn::Min, AggFn::Max]), Some(self.expr(scope, Ty::Dbl, d, false))),
                    }
                }
            }
            Ty::Bool => (*self.rng.pick(&[AggFn::BoolAnd, AggFn::BoolOr, AggFn::Min, AggFn::Max]), Some(self.bool_expr(scope, d, false))),
            Ty::Text => (*self.rng.pick(&[AggFn::Min, AggFn::Max]), Some(self.expr(scope, Ty::Text, d, false))),
        };
        if matches!(f, AggFn::BitAnd | AggFn::BitOr | AggFn::BoolAnd | AggFn::BoolOr | AggFn::StddevSamp) {
            distinct = false;
        }
        Expr::Agg { f, arg: arg.map(Box::new), distinct, filter }
    }

    // ----- FROM -------------------------------------------------------------

    fn est_rows(&self, name: &str) -> u64 {
        if let Some(c) = self.ctes.iter().rev().find(|c| c.name == name) {
            return c.est;
        }
        if let Some(v) = self.views.iter().find(|v| v.0 == name) {
            return v.2;
        }
        self.tables.iter().find(|t| t.name == name).map(|t| t.data.rows.len() as u64).unwrap_or(1)
    }

    fn base_rel(&mut self, outer: Option<&Scope>, depth: u32) -> (From, RelInfo, u64) {
        let mut opts: Vec<u32> = vec![0, 0, 0, 0];
        if !self.ctes.is_empty() {
            opts.extend([1, 1, 1]);
            if self.cte_bias {
                opts.extend([1, 1, 1, 1, 1, 1]);
            }
        }
        if !self.views.is_empty() {
            opts.extend([5, 5]);
        }
        if self.f.derived && depth > 0 {
            opts.push(2);
        }
        if self.f.values {
            opts.push(3);
        }
        if self.f.series {
            opts.push(4);
        }
        match *self.rng.pick(&opts) {
            1 => {
                let c = self.ctes[self.rng.usize_below(self.ctes.len())].clone();
                let alias = self.fresh("r");
                (From::Table { name: c.name.clone(), alias: alias.clone(), cols: c.cols.clone() }, RelInfo { alias, cols: c.cols.clone() }, c.est)
            }
            5 => {
                let v = self.views[self.rng.usize_below(self.views.len())].clone();
                let alias = self.fresh("r");
                (From::Table { name: v.0.clone(), alias: alias.clone(), cols: v.1.clone() }, RelInfo { alias, cols: v.1.clone() }, v.2)
            }
            2 => {
                let q = self.gen_query_inner(outer.filter(|_| false), None, depth - 1, false);
                let alias = self.fresh("r");
                let cols: Vec<(String, Ty)> = q.out.iter().map(|(_, t)| (self.fresh("x"), *t)).collect();
                let est = 20;
                (From::Subquery { q: Box::new(q), alias: alias.clone(), cols: cols.clone(), lateral: false }, RelInfo { alias, cols }, est)
            }
            3 => {
                let nc = 1 + self.rng.usize_below(3);
                let tys: Vec<Ty> = (0..nc).map(|_| self.comparable_ty()).collect();
                let nr = 1 + self.rng.usize_below(4);
                let rows: Vec<Vec<Expr>> = (0..nr).map(|_| tys.iter().map(|t| self.literal(*t)).collect()).collect();
                let alias = self.fresh("r");
                let cols: Vec<(String, Ty)> = tys.iter().map(|t| (self.fresh("x"), *t)).collect();
                (From::Values { rows, alias: alias.clone(), cols: cols.clone() }, RelInfo { alias, cols }, nr as u64)
            }
            4 => {
                let start = self.rng.range(-2, 5);
                let step = *self.rng.pick(&[1i64, 1, 2, 3, -1]);
                let n = self.rng.range(0, 12);
                let stop = start + step * n;
                let alias = self.fresh("r");
                let col = self.fresh("x");
                (From::Series { start, stop, step, alias: alias.clone(), col: col.clone() }, RelInfo { alias, cols: vec![(col, Ty::Big)] }, n as u64 + 1)
            }
            _ => {
                let t = &self.tables[self.rng.usize_below(self.tables.len())];
                let (name, cols, est) = (t.name.clone(), t.data.cols.clone(), t.data.rows.len() as u64);
                let alias = self.fresh("r");
                (From::Table { name, alias: alias.clone(), cols: cols.clone() }, RelInfo { alias, cols }, est)
            }
        }
    }

    fn join_cond(&mut self, left: &[RelInfo], right: &RelInfo, outer: Option<&Scope>) -> Expr {
        // equality between same-typed columns when possible
        let mut pairs: Vec<(Expr, Expr)> = Vec::new();
        for l in left {
            for (ln, lt) in &l.cols {
                for (rn, rt) in &right.cols {
                    let compatible = lt == rt || (lt.is_intlike() && rt.is_intlike());
                    if compatible {
                        pairs.push((
                            Expr::Col { rel: l.alias.clone(), name: ln.clone(), ty: *lt, style: ColStyle::Qualified },
                            Expr::Col { rel: right.alias.clone(), name: rn.clone(), ty: *rt, style: ColStyle::Qualified },
                        ));
                    }
                }
            }
        }
        let mut rels: Vec<RelInfo> = left.to_vec();
        rels.push(right.clone());
        let scope = Scope { rels, parent: outer };
        if pairs.is_empty() || (self.f.non_equi_join && self.rng.chance(1, 6)) {
            // inequality / arbitrary condition only
            return self.bool_expr(&scope, 1, false);
        }
        let (l, r) = pairs[self.rng.usize_below(pairs.len())].clone();
        let mut cond = Expr::Bin(BinOp::Eq, Box::new(l), Box::new(r));
        if self.rng.chance(1, 5) && pairs.len() > 1 {
            let (l, r) = pairs[self.rng.usize_below(pairs.len())].clone();
            cond = Expr::Bin(BinOp::And, Box::new(cond), Box::new(Expr::Bin(BinOp::Eq, Box::new(l), Box::new(r))));
        }
        if self.f.non_equi_join && self.rng.chance(1, 4) {
            let extra = self.bool_expr(&scope, 1, false);
            cond = Expr::Bin(BinOp::And, Box::new(cond), Box::new(extra));
        }
        cond
    }

    fn gen_from(&mut self, outer: Option<&Scope>, depth: u32, max_rels: usize) -> (From, Vec<RelInfo>) {
        let n = if self.f.joins && max_rels > 1 {
            *self.rng.pick_weighted(&[(5, 1usize), (4, 2), (2, 3)])
        } else {
            1
        }
        .min(max_rels);
        let (mut from, first, mut product) = self.base_rel(outer, depth);
        let mut rels = vec![first];
        for _ in 1..n {
            // lateral derived table on the right?
            if self.f.lateral && self.f.derived && depth > 0 && self.rng.chance(1, 6) {
                let lscope = Scope { rels: rels.clone(), parent: outer };
                let q = self.gen_query_inner(Some(&lscope), None, depth - 1, true);
                let alias = self.fresh("r");
                let cols: Vec<(String, Ty)> = q.out.iter().map(|(_, t)| (self.fresh("x"), *t)).collect();
                let right = From::Subquery { q: Box::new(q), alias: alias.clone(), cols: cols.clone(), lateral: true };
                let info = RelInfo { alias, cols };
                let kind = if self.f.outer_joins && self.rng.chance(1, 3) { JoinKind::Left } else { JoinKind::Cross };
                let on = if kind == JoinKind::Left { Some(Expr::Lit(Value::Bool(true), Ty::Bool)) } else { None };
                from = From::Join { kind, left: Box::new(from), right: Box::new(right), on };
                rels.push(info);
                product = product.saturating_mul(4);
                continue;
            }
            let (right, info, est) = self.base_rel(outer, depth);
            if product.saturating_mul(est.max(1)) > self.max_product {
                break;
            }
            product = product.saturating_mul(est.max(1));
            let mut kinds: Vec<(u32, JoinKind)> = vec![(4, JoinKind::Inner), (1, JoinKind::Cross)];
            if self.f.outer_joins {
                kinds.push((3, JoinKind::Left));
                kinds.push((2, JoinKind::Right));
            }
            if self.f.semi_join {
                kinds.push((1, JoinKind::Semi));
            }
            let kind = *self.rng.pick_weighted(&kinds);
            let on = if kind == JoinKind::Cross { None } else { Some(self.join_cond(&rels, &info, outer)) };
            from = From::Join { kind, left: Box::new(from), right: Box::new(right), on };
            if kind != JoinKind::Semi {
                rels.push(info);
            }
        }
        (from, rels)
    }

    // ----- SELECT / query -----------------------------------------------------

    fn gen_select(&mut self, outer: Option<&Scope>, want: Option<&[Ty]>, depth: u32) -> (Select, Vec<(String, Ty)>) {
        let (from, rels) = self.gen_from(outer, depth, 3);
        let scope = Scope { rels, parent: outer };
        let sub_ok = depth > 0;
        let where_ = if self.rng.chance(3, 5) { Some(self.bool_expr(&scope, depth.min(2), sub_ok)) } else { None };
        let nitems = match want {
            Some(w) => w.len(),
            None => 1 + self.rng.usize_below(4),
        };
        let item_ty = |g: &mut Self, i: usize| -> Ty {
            match want {
                Some(w) => w[i],
                None => g.comparable_ty(),
            }
        };
        let grouped = self.f.group_by && self.rng.chance(2, 5);
        let mut items: Vec<SelectItem> = Vec::new();
        let mut group_by = GroupBy::None;
        let mut having = None;
        if grouped {
            let nkeys = self.rng.usize_below(3);
            let mut keys: Vec<Expr> = Vec::new();
            for _ in 0..nkeys {
                let t = self.comparable_ty();
                let k = if self.rng.chance(3, 4) {
                    match self.col(&scope, t, true) {
                        Some(c) => c,
                        None => continue,
                    }
                } else {
                    let e = self.expr(&scope, t, 1, false);
                    if matches!(e, Expr::Lit(..)) {
                        continue;
                    }
                    e
                };
                // style-insensitive duplicate check (ROLLUP (a, "a") is the same key twice)
                let norm = |e: &Expr| -> String { super::print::expr(e).replace('"', "") };
                if !keys.iter().any(|x| norm(x) == norm(&k)) {
                    keys.push(k);
                }
            }
            // keys must only reference local columns (no correlation inside keys)
            let local_aliases: Vec<&String> = scope.rels.iter().map(|r| &r.alias).collect();
            keys.retain(|k| {
                let mut ok = true;
                k.walk(&mut |e| {
                    if let Expr::Col { rel, .. } = e {
                        if !local_aliases.contains(&rel) {
                            ok = false;
                        }
                    }
                    if matches!(e, Expr::Subq { .. }) {
                        ok = false;
                    }
                });
                ok
            });
            for i in 0..nitems {
                let t = item_ty(self, i);
                let key_match: Vec<&Expr> = keys.iter().filter(|k| k.ty() == t).collect();
                let e = if !key_match.is_empty() && self.rng.chance(1, 2) {
                    (*self.rng.pick(&key_match)).clone()
                } else if t == Ty::Big && !keys.is_empty() && self.f.rollup_cube && self.rng.chance(1, 8) {
                    let n = 1 + self.rng.usize_below(keys.len().min(2));
                    Expr::Grouping(keys.iter().take(n).cloned().collect())
                } else {
                    self.agg_of_type(&scope, t, 1)
                };
                items.push(SelectItem { expr: e, alias: format!("c{i}"), print_alias: true });
            }
            // A grouping expression over a column that is itself a grouping key
            // (ROLLUP (a, (a IS NULL))) is re-evaluated by the engine from the
            // nulled key in subtotal rows instead of being treated as a key
            // (DESIGN 7, dialect restrictions): such key lists stay plain.
            let cols_of = |e: &Expr| -> Vec<String> {
                let mut v = Vec::new();
                e.walk(&mut |x| {
                    if let Expr::Col { rel, name, .. } = x {
                        v.push(format!("{rel}.{name}"));
                    }
                });
                v
            };
            let overlapping = (0..keys.len()).any(|i| (0..keys.len()).any(|j| i != j && cols_of(&keys[i]).iter().any(|c| cols_of(&keys[j]).contains(c))));
            group_by = if keys.is_empty() {
                GroupBy::None
            } else if self.f.rollup_cube && !overlapping && self.rng.chance(1, 4) {
                if keys.len() <= 2 && self.rng.chance(1, 2) { GroupBy::Cube(keys.clone()) } else { GroupBy::Rollup(keys.clone()) }
            } else {
                GroupBy::Plain(keys.clone())
            };
            // GROUPING() requires grouping sets in spirit; keep it for any GROUP BY
            if group_by == GroupBy::None {
                for it in items.iter_mut() {
                    if matches!(it.expr, Expr::Grouping(_)) {
                        it.expr = Expr::Agg { f: AggFn::CountStar, arg: None, distinct: false, filter: None };
                    }
                }
            }
            if self.f.having && self.rng.chance(1, 3) {
                let t = *self.rng.pick(&[Ty::Big, Ty::Big, Ty::Int]);
                let a = self.agg_of_type(&scope, t, 0);
                let lit = self.literal(t);
                let op = *self.rng.pick(&[BinOp::Gt, BinOp::Ge, BinOp::Lt, BinOp::Eq, BinOp::Ne]);
                having = Some(Expr::Bin(op, Box::new(a), Box::new(lit)));
            }
            // predicates over grouping keys (alone or next to the aggregate
            // predicate): what filter pushdown may move below the aggregate
            if self.f.having && !keys.is_empty() && self.rng.chance(1, 3) {
                let k = self.rng.pick(&keys).clone();
                let kp = match self.rng.below(4) {
                    0 => Expr::IsNull { e: Box::new(k), neg: false },
                    1 => Expr::IsNull { e: Box::new(k), neg: true },
                    _ => {
                        let lit = self.literal(k.ty());
                        let op = *self.rng.pick(&[BinOp::Gt, BinOp::Le, BinOp::Eq, BinOp::Ne]);
                        Expr::Bin(op, Box::new(k), Box::new(lit))
                    }
                };
                having = Some(match having.take() {
                    Some(h) if self.f.and_or && self.rng.chance(1, 2) => Expr::Bin(BinOp::And, Box::new(h), Box::new(kp)),
                    _ => kp,
                });
            }
        } else {
            let mut prior: Vec<(String, Ty)> = Vec::new();
            for i in 0..nitems {
                let t = item_ty(self, i);
                let e = if self.f.alias_ref && !prior.is_empty() && self.rng.chance(1, 10) {
                    let cands: Vec<&(String, Ty)> = prior.iter().filter(|p| p.1 == t).collect();
                    if let Some(p) = cands.first() { Expr::AliasRef { name: p.0.clone(), ty: t } } else { self.expr(&scope, t, depth.min(2), sub_ok) }
                } else {
                    self.expr(&scope, t, depth.min(2), sub_ok)
                };
                let alias = format!("c{i}");
                // aliases referencing subqueries are not offered for lateral alias refs
                if !matches!(e, Expr::Subq { .. }) {
                    prior.push((alias.clone(), t));
                }
                items.push(SelectItem { expr: e, alias, print_alias: true });
            }
        }
        let distinct = self.f.distinct && self.rng.chance(1, 6);
        let out: Vec<(String, Ty)> = items.iter().map(|i| (i.alias.clone(), i.expr.ty())).collect();
        (Select { distinct, items, from: Some(from), where_, group_by, having }, out)
    }

    fn gen_query_inner(&mut self, outer: Option<&Scope>, want: Option<&[Ty]>, depth: u32, _lateral: bool) -> Query {
        let saved_ctes = self.ctes.len();
        let mut ctes = Vec::new();
        if self.f.cte && depth > 0 && outer.is_none() && (self.rng.chance(1, 3) || (self.cte_bias && depth == self.max_depth)) {
            let n = 1 + self.rng.usize_below(2);
            for _ in 0..n {
                let q = self.gen_query_inner(None, None, depth - 1, false);
                let name = self.fresh("w");
                let cols: Vec<(String, Ty)> = q.out.iter().map(|(_, t)| (self.fresh("x"), *t)).collect();
                let col_aliases = Some(cols.iter().map(|c| c.0.clone()).collect());
                self.ctes.push(CteInfo { name: name.clone(), cols, est: 20 });
                ctes.push(Cte { name, q: Box::new(q), materialized: if self.cte_bias { self.rng.chance(2, 3) } else { self.rng.chance(1, 3) }, col_aliases });
            }
        }
        let (sel, out) = self.gen_select(outer, want, depth);
        let mut body = SetExpr::Select(Box::new(sel));
        if self.f.union && depth > 0 && (self.rng.chance(1, 6) || (self.cte_bias && depth == self.max_depth && !ctes.is_empty() && self.rng.chance(1, 2))) {
            let tys: Vec<Ty> = out.iter().map(|o| o.1).collect();
            let (sel2, _) = self.gen_select(outer, Some(&tys), depth - 1);
            body = SetExpr::Union { all: self.rng.chance(1, 2), left: Box::new(body), right: Box::new(SetExpr::Select(Box::new(sel2))) };
        }
        let mut order_by = Vec::new();
        if self.f.order_by && self.rng.chance(2, 5) {
            let n = 1 + self.rng.usize_below(out.len().min(3));
            let mut used = Vec::new();
            for _ in 0..n {
                let col = self.rng.usize_below(out.len());
                if used.contains(&col) {
                    continue;
                }
                used.push(col);
                order_by.push(OrderItem {
                    col,
                    by_alias: self.rng.chance(1, 3) && !matches!(body, SetExpr::Union { .. }),
                    desc: self.rng.chance(1, 2),
                    nulls: *self.rng.pick(&[NullsOrder::Default, NullsOrder::Default, NullsOrder::First, NullsOrder::Last]),
                });
            }
        }
        let (mut limit, mut offset) = (None, None);
        // a sort is a pipeline breaker: the join pipeline always runs to completion
        let limit_ok = self.f.limit_over_drain_joins || !order_by.is_empty() || (!set_has_drain_join_or_subquery(&body, &ctes) && !matches!(body, SetExpr::Union { .. }));
        if self.f.limit && limit_ok && self.rng.chance(1, 4) {
            limit = Some(*self.rng.pick(&[0u64, 1, 1, 2, 3, 5, 10, 100]));
            if self.rng.chance(1, 3) {
                offset = Some(*self.rng.pick(&[0u64, 1, 2, 5]));
            }
        }
        self.ctes.truncate(saved_ctes);
        Query { ctes, body, order_by, limit, offset, out }
    }

    pub fn gen_query(&mut self) -> Query {
        self.counter = 0;
        self.ctes.clear();
        let d = self.max_depth;
        self.gen_query_inner(None, None, d, false)
    }
}

/// Statements that create and fill `tables` (INSERT in chunks of `chunk` rows).
pub fn setup_sql(tables: &[TableDef], chunk: usize) -> Vec<String> {
    let mut out = Vec::new();
    for t in tables {
        let cols: Vec<String> = t.data.cols.iter().map(|(n, ty)| format!("{} {}", super::print::ident(n, false), ty.sql())).collect();
        out.push(format!("CREATE TEMP TABLE {} ({})", super::print::ident_path(&t.name), cols.join(", ")));
        for ch in t.data.rows.chunks(chunk.max(1)) {
            let rows: Vec<String> = ch
                .iter()
                .map(|r| {
                    let v: Vec<String> = r.iter().zip(&t.data.cols).map(|(v, (_, ty))| super::print::lit(v, *ty)).collect();
                    format!("({})", v.join(", "))
                })
                .collect();
            out.push(format!("INSERT INTO {} VALUES {}", super::print::ident_path(&t.name), rows.join(", ")));
        }
    }
    out
}

/// Does the query body (recursively) contain an outer/semi join or a subquery
/// expression (which compiles to a mark/magic join)?
fn set_has_drain_join_or_subquery(body: &SetExpr, ctes: &[Cte]) -> bool {
    let mut q = Query { ctes: ctes.to_vec(), body: body.clone(), order_by: vec![], limit: None, offset: None, out: vec![] };
    let found = std::cell::Cell::new(false);
    crate::sql::shrink::visit_query_mut(
        &mut q,
        &mut |e| {
            if matches!(e, Expr::Subq { .. }) {
                found.set(true);
            }
        },
        &mut |qq| {
            fn from_has(f: &From) -> bool {
                match f {
                    From::Join { kind, left, right, .. } => matches!(kind, JoinKind::Left | JoinKind::Right | JoinKind::Semi) || from_has(left) || from_has(right),
                    _ => false,
                }
            }
            fn set_has(s: &SetExpr) -> bool {
                match s {
                    SetExpr::Select(sel) => sel.from.as_ref().is_some_and(from_has),
                    SetExpr::Union { left, right, .. } => set_has(left) || set_has(right),
                }
            }
            if set_has(&qq.body) {
                found.set(true);
            }
        },
    );
    found.get()
}

/// Strings sharing prefixes longer than the 12-byte sort-key prefix, plus
/// short ones, the empty string and multi-byte code points.
pub const SORT_TEXT_POOL: &[&str] = &[
    "abcdefghijkl", "abcdefghijklm", "abcdefghijklA", "abcdefghijklz", "abcdefghijkl0", "abcdefghijklmnopqrstuvwxyz", "abcdefghijklmnopqrstuvwxyZ",
    "abcdefghijk", "abcdefghijkm", "", "a", "b", "Z", "zz", "éa", "éb", "日本", "日本語のテキストです", "日本語のテキストでした",
];

/// Tables shaped for sort stress: few distinct values in the leading integer
/// column (many ties), text from `SORT_TEXT_POOL`, doubles and booleans.
pub fn gen_sort_tables(rng: &mut Rng, max_rows: usize) -> Vec<TableDef> {
    let nt = 1 + rng.usize_below(2);
    let mut out = Vec::new();
    for t in 0..nt {
        let cols = vec![(format!("i{t}0"), Ty::Int), (format!("s{t}1"), Ty::Text), (format!("f{t}2"), Ty::Dbl), (format!("b{t}3"), Ty::Bool), (format!("g{t}4"), Ty::Big)];
        let nrows = match rng.below(6) {
            0 => rng.usize_below(4),
            _ => 5 + rng.usize_below(max_rows.max(6) - 5),
        };
        let span = *rng.pick(&[1i64, 2, 3, 5]);
        let nulls = *rng.pick(&[0u64, 1, 3]);
        let mut rows: Vec<Row> = Vec::with_capacity(nrows);
        for _ in 0..nrows {
            let mut r = Vec::new();
            for (ci, (_, ty)) in cols.iter().enumerate() {
                if nulls > 0 && rng.below(10) < nulls {
                    r.push(Value::Null);
                    continue;
                }
                r.push(match (ci, ty) {
                    (0, _) => Value::Int(rng.range(0, span) as i128),
                    (_, Ty::Text) => Value::Str(SORT_TEXT_POOL[rng.usize_below(SORT_TEXT_POOL.len())].to_string()),
                    // doubles: small quarters, and clusters of close values that
                    // agree in their upper 32 bits (positive, negative, large)
                    (_, Ty::Dbl) => match rng.below(5) {
                        0 | 1 => Value::Float(rng.range(-4, 8) as f64 / 4.0),
                        2 => Value::Float(1.0 + rng.range(0, 6) as f64 / (1u64 << 40) as f64),
                        3 => Value::Float(-(1.0 + rng.range(0, 6) as f64 / (1u64 << 40) as f64)),
                        _ => Value::Float(4503599627370496.0 + rng.range(0, 6) as f64),
                    },
                    (_, Ty::Bool) => Value::Bool(rng.chance(1, 2)),
                    _ => Value::Int(rng.range(-3, 3) as i128),
                });
            }
            rows.push(r);
        }
        out.push(TableDef { name: format!("t{t}"), data: TableData { cols, rows } });
    }
    out
}

impl<'t> Gen<'t> {
    /// `SELECT cols FROM t ORDER BY 2-4 keys (every direction / NULLS placement)
    /// [LIMIT l] [OFFSET o]` with limits around the input size.
    pub fn gen_sort_query(&mut self) -> Query {
        self.counter = 0;
        let t = &self.tables[self.rng.usize_below(self.tables.len())];
        let alias = self.fresh("r");
        let n = t.data.rows.len() as u64;
        let mut idx: Vec<usize> = (0..t.data.cols.len()).collect();
        self.rng.shuffle(&mut idx);
        let ncols = 2.max(1 + self.rng.usize_below(idx.len())).min(idx.len());
        idx.truncate(ncols);
        let items: Vec<SelectItem> = idx
            .iter()
            .enumerate()
            .map(|(i, ci)| SelectItem { expr: Expr::Col { rel: alias.clone(), name: t.data.cols[*ci].0.clone(), ty: t.data.cols[*ci].1, style: ColStyle::Qualified }, alias: format!("c{i}"), print_alias: true })
            .collect();
        let out: Vec<(String, Ty)> = items.iter().map(|i| (i.alias.clone(), i.expr.ty())).collect();
        let nkeys = 1 + self.rng.usize_below(ncols.min(4));
        let mut key_cols: Vec<usize> = (0..ncols).collect();
        self.rng.shuffle(&mut key_cols);
        key_cols.truncate(nkeys);
        let order_by: Vec<OrderItem> = key_cols
            .iter()
            .map(|c| OrderItem { col: *c, by_alias: self.rng.chance(1, 3), desc: self.rng.chance(1, 2), nulls: *self.rng.pick(&[NullsOrder::Default, NullsOrder::First, NullsOrder::Last]) })
            .collect();
        let (mut limit, mut offset) = (None, None);
        if self.rng.chance(1, 2) {
            let cands = [0u64, 1, 2, 3, n / 2, n.saturating_sub(1), n, n + 1];
            limit = Some(*self.rng.pick(&cands));
            if self.rng.chance(1, 2) {
                offset = Some(*self.rng.pick(&[0u64, 1, 2, n / 2, n.saturating_sub(1), n]));
            }
        }
        let from = From::Table { name: t.name.clone(), alias, cols: t.data.cols.clone() };
        let sel = Select { distinct: false, items, from: Some(from), where_: None, group_by: GroupBy::None, having: None };
        Query { ctes: vec![], body: SetExpr::Select(Box::new(sel)), order_by, limit, offset, out }
    }
}
