//! AST-level shrinking candidates for queries. Safety is by rejection: a
//! candidate that is ill-scoped or ill-typed changes the failure class and is
//! discarded by the caller.

use super::ast::*;
use crate::value::Value;

fn visit_from_mut(f: &mut From, fe: &mut dyn FnMut(&mut Expr), fq: &mut dyn FnMut(&mut Query)) {
    match f {
        From::Table { .. } | From::Series { .. } => {}
        From::Subquery { q, .. } => visit_query_mut(q, fe, fq),
        From::Values { rows, .. } => {
            for r in rows {
                for e in r {
                    visit_expr_mut(e, fe, fq);
                }
            }
        }
        From::Join { left, right, on, .. } => {
            visit_from_mut(left, fe, fq);
            visit_from_mut(right, fe, fq);
            if let Some(e) = on {
                visit_expr_mut(e, fe, fq);
            }
        }
    }
}

fn visit_expr_mut(e: &mut Expr, fe: &mut dyn FnMut(&mut Expr), fq: &mut dyn FnMut(&mut Query)) {
    fe(e);
    match e {
        Expr::Col { .. } | Expr::AliasRef { .. } | Expr::Lit(..) => {}
        Expr::Bin(_, l, r) => {
            visit_expr_mut(l, fe, fq);
            visit_expr_mut(r, fe, fq);
        }
        Expr::Not(x) | Expr::Neg(x) | Expr::Cast(x, _) => visit_expr_mut(x, fe, fq),
        Expr::IsNull { e, .. } => visit_expr_mut(e, fe, fq),
        Expr::IsDistinct { l, r, .. } => {
            visit_expr_mut(l, fe, fq);
            visit_expr_mut(r, fe, fq);
        }
        Expr::Between { e, lo, hi, .. } => {
            visit_expr_mut(e, fe, fq);
            visit_expr_mut(lo, fe, fq);
            visit_expr_mut(hi, fe, fq);
        }
        Expr::InList { e, list, .. } => {
            visit_expr_mut(e, fe, fq);
            for x in list {
                visit_expr_mut(x, fe, fq);
            }
        }
        Expr::Case { whens, els, .. } => {
            for (c, v) in whens {
                visit_expr_mut(c, fe, fq);
                visit_expr_mut(v, fe, fq);
            }
            if let Some(x) = els {
                visit_expr_mut(x, fe, fq);
            }
        }
        Expr::Func(_, args) | Expr::Grouping(args) => {
            for a in args {
                visit_expr_mut(a, fe, fq);
            }
        }
        Expr::Agg { arg, filter, .. } => {
            if let Some(a) = arg {
                visit_expr_mut(a, fe, fq);
            }
            if let Some(a) = filter {
                visit_expr_mut(a, fe, fq);
            }
        }
        Expr::Subq { kind, q, .. } => {
            match kind {
                SubqKind::In { lhs, .. } | SubqKind::Quant { lhs, .. } => visit_expr_mut(lhs, fe, fq),
                _ => {}
            }
            visit_query_mut(q, fe, fq);
        }
    }
}

fn visit_set_mut(s: &mut SetExpr, fe: &mut dyn FnMut(&mut Expr), fq: &mut dyn FnMut(&mut Query)) {
    match s {
        SetExpr::Select(sel) => {
            for it in sel.items.iter_mut() {
                visit_expr_mut(&mut it.expr, fe, fq);
            }
            if let Some(f) = &mut sel.from {
                visit_from_mut(f, fe, fq);
            }
            if let Some(w) = &mut sel.where_ {
                visit_expr_mut(w, fe, fq);
            }
            match &mut sel.group_by {
                GroupBy::None => {}
                GroupBy::Plain(v) | GroupBy::Rollup(v) | GroupBy::Cube(v) => {
                    for e in v {
                        visit_expr_mut(e, fe, fq);
                    }
                }
            }
            if let Some(h) = &mut sel.having {
                visit_expr_mut(h, fe, fq);
            }
        }
        SetExpr::Union { left, right, .. } => {
            visit_set_mut(left, fe, fq);
            visit_set_mut(right, fe, fq);
        }
    }
}

/// Pre-order visit of every query node and every expression node.
pub fn visit_query_mut(q: &mut Query, fe: &mut dyn FnMut(&mut Expr), fq: &mut dyn FnMut(&mut Query)) {
    fq(q);
    for c in q.ctes.iter_mut() {
        visit_query_mut(&mut c.q, fe, fq);
    }
    visit_set_mut(&mut q.body, fe, fq);
}

fn expr_alternatives(e: &Expr) -> Vec<Expr> {
    let ty = e.ty();
    let mut out: Vec<Expr> = Vec::new();
    let mut push_child = |c: &Expr| {
        if c.ty() == ty {
            out.push(c.clone());
        }
    };
    match e {
        Expr::Col { .. } | Expr::AliasRef { .. } => {}
        Expr::Lit(v, _) => {
            if !v.is_null() {
                let simple = match ty {
                    Ty::Int | Ty::Big => Value::Int(0),
                    Ty::Bool => Value::Bool(true),
                    Ty::Text => Value::Str("a".into()),
                    Ty::Dbl => Value::Float(0.0),
                };
                if &simple != v {
                    return vec![Expr::Lit(simple, ty)];
                }
            }
            return vec![];
        }
        Expr::Bin(_, l, r) => {
            push_child(l);
            push_child(r);
        }
        Expr::Not(x) | Expr::Neg(x) | Expr::Cast(x, _) => push_child(x),
        Expr::IsNull { .. } | Expr::IsDistinct { .. } | Expr::Between { .. } => {}
        Expr::InList { e: x, list, neg } => {
            if list.len() > 1 {
                for i in 0..list.len() {
                    let mut l2 = list.clone();
                    l2.remove(i);
                    out.push(Expr::InList { e: x.clone(), list: l2, neg: *neg });
                }
            }
        }
        Expr::Case { whens, els, ty } => {
            for (_, v) in whens {
                out.push(v.clone());
            }
            if let Some(x) = els {
                out.push((**x).clone());
                out.push(Expr::Case { whens: whens.clone(), els: None, ty: *ty });
            }
            if whens.len() > 1 {
                for i in 0..whens.len() {
                    let mut w2 = whens.clone();
                    w2.remove(i);
                    out.push(Expr::Case { whens: w2, els: els.clone(), ty: *ty });
                }
            }
        }
        Expr::Func(_, args) => {
            for a in args {
                if a.ty() == ty {
                    out.push(a.clone());
                }
            }
        }
        Expr::Agg { f, arg, distinct, filter } => {
            if *distinct {
                out.push(Expr::Agg { f: *f, arg: arg.clone(), distinct: false, filter: filter.clone() });
            }
            if filter.is_some() {
                out.push(Expr::Agg { f: *f, arg: arg.clone(), distinct: *distinct, filter: None });
            }
            if ty == Ty::Big && *f != AggFn::CountStar {
                out.push(Expr::Agg { f: AggFn::CountStar, arg: None, distinct: false, filter: None });
            }
        }
        Expr::Grouping(_) | Expr::Subq { .. } => {}
    }
    // a literal of the right type as a last resort
    let lit = match ty {
        Ty::Int | Ty::Big => Value::Int(1),
        Ty::Bool => Value::Bool(true),
        Ty::Text => Value::Str("a".into()),
        Ty::Dbl => Value::Float(1.0),
    };
    if !matches!(e, Expr::Agg { .. } | Expr::Grouping(_)) {
        out.push(Expr::Lit(lit, ty));
        out.push(Expr::Lit(Value::Null, ty));
    }
    out
}

fn remove_item(q: &mut Query, idx: usize) -> bool {
    fn rm(s: &mut SetExpr, idx: usize) -> bool {
        match s {
            SetExpr::Select(sel) => {
                if sel.items.len() <= 1 || idx >= sel.items.len() {
                    return false;
                }
                sel.items.remove(idx);
                true
            }
            SetExpr::Union { left, right, .. } => rm(left, idx) && rm(right, idx),
        }
    }
    if !rm(&mut q.body, idx) {
        return false;
    }
    q.out.remove(idx);
    q.order_by.retain(|o| o.col != idx);
    for o in q.order_by.iter_mut() {
        if o.col > idx {
            o.col -= 1;
        }
    }
    true
}

fn query_alternatives(q: &Query, top: bool) -> Vec<Query> {
    let mut out = Vec::new();
    let mut alt = |f: &dyn Fn(&mut Query) -> bool| {
        let mut c = q.clone();
        if f(&mut c) {
            out.push(c);
        }
    };
    if !q.ctes.is_empty() {
        alt(&|c| {
            c.ctes.clear();
            true
        });
        for i in 0..q.ctes.len() {
            alt(&|c| {
                c.ctes.remove(i);
                true
            });
        }
        alt(&|c| {
            let mut ch = false;
            for x in c.ctes.iter_mut() {
                ch |= x.materialized;
                x.materialized = false;
            }
            ch
        });
    }
    if let SetExpr::Union { left, right, all } = &q.body {
        let (l, r, a) = (left.clone(), right.clone(), *all);
        alt(&|c| {
            c.body = (*l).clone();
            true
        });
        alt(&|c| {
            c.body = (*r).clone();
            true
        });
        if !a {
            alt(&|c| {
                if let SetExpr::Union { all, .. } = &mut c.body {
                    *all = true;
                }
                true
            });
        }
    }
    if !q.order_by.is_empty() {
        alt(&|c| {
            c.order_by.clear();
            true
        });
        if q.order_by.len() > 1 {
            for i in 0..q.order_by.len() {
                alt(&|c| {
                    c.order_by.remove(i);
                    true
                });
            }
        }
    }
    if q.limit.is_some() {
        alt(&|c| {
            c.limit = None;
            true
        });
    }
    if q.offset.is_some() {
        alt(&|c| {
            c.offset = None;
            true
        });
    }
    if let SetExpr::Select(sel) = &q.body {
        if sel.where_.is_some() {
            alt(&|c| {
                if let SetExpr::Select(s) = &mut c.body {
                    s.where_ = None;
                }
                true
            });
        }
        if sel.having.is_some() {
            alt(&|c| {
                if let SetExpr::Select(s) = &mut c.body {
                    s.having = None;
                }
                true
            });
        }
        if sel.distinct {
            alt(&|c| {
                if let SetExpr::Select(s) = &mut c.body {
                    s.distinct = false;
                }
                true
            });
        }
        match &sel.group_by {
            GroupBy::None => {}
            GroupBy::Plain(k) => {
                if k.len() > 1 {
                    for i in 0..k.len() {
                        alt(&|c| {
                            if let SetExpr::Select(s) = &mut c.body {
                                if let GroupBy::Plain(k) = &mut s.group_by {
                                    k.remove(i);
                                }
                            }
                            true
                        });
                    }
                }
            }
            GroupBy::Rollup(k) | GroupBy::Cube(k) => {
                let k = k.clone();
                alt(&|c| {
                    if let SetExpr::Select(s) = &mut c.body {
                        s.group_by = GroupBy::Plain(k.clone());
                    }
                    true
                });
            }
        }
        if let Some(From::Join { left, right, kind, on }) = &sel.from {
            let (l, r) = (left.clone(), right.clone());
            alt(&|c| {
                if let SetExpr::Select(s) = &mut c.body {
                    s.from = Some((*l).clone());
                }
                true
            });
            alt(&|c| {
                if let SetExpr::Select(s) = &mut c.body {
                    s.from = Some((*r).clone());
                }
                true
            });
            if *kind != JoinKind::Inner && *kind != JoinKind::Cross {
                let on2 = on.clone();
                alt(&|c| {
                    if let SetExpr::Select(s) = &mut c.body {
                        if let Some(From::Join { kind, on, .. }) = &mut s.from {
                            *kind = JoinKind::Inner;
                            *on = on2.clone();
                        }
                    }
                    true
                });
            }
        }
    }
    if top {
        for i in 0..q.out.len() {
            alt(&|c| remove_item(c, i));
        }
    }
    out
}

/// Shapes the shrinker must not drift into, because they trigger recorded
/// defects of their own (the minimised case would then show a different bug
/// than the one found): integer literals as GROUP BY keys (read as ordinals by
/// the engine) and IN / ANY / ALL subqueries whose left operand is constant
/// (mis-planned by join reordering). Returns (ordinal keys, constant lhs).
pub fn hazards(q: &Query) -> (usize, usize) {
    let ord = std::cell::Cell::new(0usize);
    let clhs = std::cell::Cell::new(0usize);
    let mut c = q.clone();
    visit_query_mut(
        &mut c,
        &mut |e| {
            if let Expr::Subq { kind: SubqKind::In { lhs, .. } | SubqKind::Quant { lhs, .. }, .. } = e {
                let mut has_col = false;
                lhs.walk(&mut |x| {
                    if matches!(x, Expr::Col { .. } | Expr::AliasRef { .. }) {
                        has_col = true;
                    }
                });
                if !has_col {
                    clhs.set(clhs.get() + 1);
                }
            }
        },
        &mut |qq| {
            fn sets(s: &SetExpr, n: &std::cell::Cell<usize>) {
                match s {
                    SetExpr::Select(sel) => {
                        for k in sel.group_by.exprs() {
                            if matches!(k, Expr::Lit(Value::Int(_), _)) {
                                n.set(n.get() + 1);
                            }
                        }
                    }
                    SetExpr::Union { left, right, .. } => {
                        sets(left, n);
                        sets(right, n);
                    }
                }
            }
            sets(&qq.body, &ord);
        },
    );
    (ord.get(), clhs.get())
}

/// All one-step shrink candidates of `q`, structural ones first.
pub fn candidates(q: &Query) -> Vec<Query> {
    let base = hazards(q);
    let mut out = candidates_raw(q);
    out.retain(|c| {
        let h = hazards(c);
        h.0 <= base.0 && h.1 <= base.1
    });
    out
}

fn candidates_raw(q: &Query) -> Vec<Query> {
    let mut out: Vec<Query> = Vec::new();
    // count nodes
    let nq_c = std::cell::Cell::new(0usize);
    let ne_c = std::cell::Cell::new(0usize);
    {
        let mut c = q.clone();
        visit_query_mut(&mut c, &mut |_| ne_c.set(ne_c.get() + 1), &mut |_| nq_c.set(nq_c.get() + 1));
    }
    let (nq, ne) = (nq_c.get(), ne_c.get());
    for k in 0..nq {
        // alternatives for the k-th query node
        let mut probe = q.clone();
        let mut alts: Vec<Query> = Vec::new();
        let mut i = 0usize;
        visit_query_mut(
            &mut probe,
            &mut |_| {},
            &mut |qq| {
                if i == k {
                    alts = query_alternatives(qq, k == 0);
                }
                i += 1;
            },
        );
        for a in alts {
            let mut c = q.clone();
            let mut i = 0usize;
            let mut a_opt = Some(a);
            visit_query_mut(
                &mut c,
                &mut |_| {},
                &mut |qq| {
                    if i == k {
                        if let Some(a) = a_opt.take() {
                            *qq = a;
                        }
                    }
                    i += 1;
                },
            );
            out.push(c);
        }
    }
    for k in 0..ne {
        let mut probe = q.clone();
        let mut alts: Vec<Expr> = Vec::new();
        let mut i = 0usize;
        visit_query_mut(
            &mut probe,
            &mut |e| {
                if i == k {
                    alts = expr_alternatives(e);
                }
                i += 1;
            },
            &mut |_| {},
        );
        for a in alts {
            let mut c = q.clone();
            let mut i = 0usize;
            let mut a_opt = Some(a);
            visit_query_mut(
                &mut c,
                &mut |e| {
                    if i == k {
                        if let Some(a) = a_opt.take() {
                            *e = a;
                        }
                    }
                    i += 1;
                },
                &mut |_| {},
            );
            out.push(c);
        }
    }
    out
}

pub fn size(q: &Query) -> usize {
    let n = std::cell::Cell::new(0usize);
    let mut c = q.clone();
    visit_query_mut(&mut c, &mut |_| n.set(n.get() + 1), &mut |_| n.set(n.get() + 3));
    n.get()
}
