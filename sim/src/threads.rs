//! L3 runtime: one real OS thread per partition pipeline (park / unpark
//! wakers). Used under Miri, whose seeded scheduler preempts real threads and
//! whose data-race detector watches the engine's lock-free phases.

use std::future::Future;
use std::sync::Arc;
use std::sync::atomic::{AtomicBool, AtomicU64, Ordering};
use std::task::{Context, Poll, Wake, Waker};
use std::time::Duration;

use glaredb_core::execution::partition_pipeline::ExecutablePartitionPipeline;
use glaredb_core::runtime::pipeline::{ErrorSink, PipelineRuntime, QueryHandle};
use glaredb_core::runtime::profile_buffer::ProfileBuffer;
use glaredb_core::runtime::time::RuntimeInstant;
use glaredb_error::DbError;

static TICKS: AtomicU64 = AtomicU64::new(0);

#[derive(Debug, Clone, Copy)]
pub struct TickInstant(u64);

impl RuntimeInstant for TickInstant {
    fn now() -> Self {
        TickInstant(TICKS.fetch_add(1, Ordering::Relaxed))
    }
    fn duration_since(&self, earlier: Self) -> Duration {
        Duration::from_micros(self.0.saturating_sub(earlier.0))
    }
}

struct ThreadWaker {
    thread: std::thread::Thread,
    woken: AtomicBool,
}

impl Wake for ThreadWaker {
    fn wake(self: Arc<Self>) {
        self.woken.store(true, Ordering::Release);
        self.thread.unpark();
    }
}

#[derive(Debug, Clone)]
pub struct ThreadRuntime {
    pub partitions: usize,
}

#[derive(Debug)]
struct ThreadQueryHandle {
    canceled: Arc<AtomicBool>,
    profiles: ProfileBuffer,
}

impl QueryHandle for ThreadQueryHandle {
    fn cancel(&self) {
        self.canceled.store(true, Ordering::Release);
    }
    fn get_profile_buffer(&self) -> &ProfileBuffer {
        &self.profiles
    }
}

impl PipelineRuntime for ThreadRuntime {
    fn default_partitions(&self) -> usize {
        self.partitions
    }

    fn spawn_pipelines(&self, pipelines: Vec<ExecutablePartitionPipeline>, errors: Arc<dyn ErrorSink>) -> Arc<dyn QueryHandle> {
        let (profiles, sinks) = ProfileBuffer::new(pipelines.len());
        let canceled = Arc::new(AtomicBool::new(false));
        for (mut p, sink) in pipelines.into_iter().zip(sinks) {
            let errors = errors.clone();
            let canceled = canceled.clone();
            std::thread::spawn(move || {
                let tw = Arc::new(ThreadWaker { thread: std::thread::current(), woken: AtomicBool::new(true) });
                let waker: Waker = tw.clone().into();
                let mut cx = Context::from_waker(&waker);
                loop {
                    if canceled.load(Ordering::Acquire) {
                        errors.set_error(DbError::new("Query canceled"));
                        return;
                    }
                    if !tw.woken.swap(false, Ordering::AcqRel) {
                        std::thread::park_timeout(Duration::from_millis(50));
                        continue;
                    }
                    match p.poll_execute::<TickInstant>(&mut cx) {
                        Poll::Ready(Ok(prof)) => {
                            sink.put(prof);
                            return;
                        }
                        Poll::Ready(Err(e)) => {
                            errors.set_error(e);
                            return;
                        }
                        Poll::Pending => {}
                    }
                }
            });
        }
        Arc::new(ThreadQueryHandle { canceled, profiles })
    }
}

/// Minimal block_on for the client future (park / unpark).
pub fn block_on<F: Future>(fut: F) -> F::Output {
    let mut fut = std::pin::pin!(fut);
    let tw = Arc::new(ThreadWaker { thread: std::thread::current(), woken: AtomicBool::new(true) });
    let waker: Waker = tw.clone().into();
    let mut cx = Context::from_waker(&waker);
    loop {
        if tw.woken.swap(false, Ordering::AcqRel) {
            if let Poll::Ready(v) = fut.as_mut().poll(&mut cx) {
                return v;
            }
        } else {
            std::thread::park_timeout(Duration::from_millis(50));
        }
    }
}
