//! Harness-side value model, and conversion from engine batches.

use std::cmp::Ordering;
use std::fmt;

use glaredb_core::arrays::batch::Batch;
use glaredb_core::arrays::scalar::BorrowedScalarValue;

#[derive(Debug, Clone)]
pub enum Value {
    Null,
    Bool(bool),
    /// every integer type (the SQL type is carried by the column)
    Int(i128),
    Float(f64),
    Str(String),
    /// a value R-SQL does not interpret; compared by its rendering
    Other(String),
}

impl PartialEq for Value {
    fn eq(&self, other: &Value) -> bool {
        self.total_cmp(other) == Ordering::Equal && self.rank() == other.rank()
    }
}

impl Value {
    pub fn is_null(&self) -> bool {
        matches!(self, Value::Null)
    }

    fn rank(&self) -> u8 {
        match self {
            Value::Null => 5,
            Value::Bool(_) => 0,
            Value::Int(_) => 1,
            Value::Float(_) => 1,
            Value::Str(_) => 3,
            Value::Other(_) => 4,
        }
    }

    /// Total order used for canonicalising bags (NOT the SQL comparison):
    /// NULL last, NaN above all numbers, -0 == +0.
    pub fn total_cmp(&self, other: &Value) -> Ordering {
        use Value::*;
        match (self, other) {
            (Null, Null) => Ordering::Equal,
            (Bool(a), Bool(b)) => a.cmp(b),
            (Int(a), Int(b)) => a.cmp(b),
            (Float(a), Float(b)) => float_cmp(*a, *b),
            (Int(a), Float(b)) => float_cmp(*a as f64, *b),
            (Float(a), Int(b)) => float_cmp(*a, *b as f64),
            (Str(a), Str(b)) => a.as_bytes().cmp(b.as_bytes()),
            (Other(a), Other(b)) => a.cmp(b),
            _ => self.rank().cmp(&other.rank()),
        }
    }

    /// Exact equality for result comparison (NULL == NULL, NaN == NaN).
    pub fn same(&self, other: &Value) -> bool {
        self.total_cmp(other) == Ordering::Equal
    }

    /// Equality with a relative tolerance on floats.
    pub fn approx_same(&self, other: &Value, rel: f64) -> bool {
        match (self, other) {
            (Value::Float(a), Value::Float(b)) => float_close(*a, *b, rel),
            (Value::Float(a), Value::Int(b)) | (Value::Int(b), Value::Float(a)) => float_close(*a, *b as f64, rel),
            _ => self.same(other),
        }
    }

    pub fn render(&self) -> String {
        match self {
            Value::Null => "NULL".to_string(),
            Value::Bool(b) => b.to_string(),
            Value::Int(i) => i.to_string(),
            Value::Float(f) => format!("{f:?}"),
            Value::Str(s) => format!("'{s}'"),
            Value::Other(s) => format!("<{s}>"),
        }
    }
}

pub fn float_cmp(a: f64, b: f64) -> Ordering {
    match (a.is_nan(), b.is_nan()) {
        (true, true) => Ordering::Equal,
        (true, false) => Ordering::Greater,
        (false, true) => Ordering::Less,
        _ => {
            if a == b {
                Ordering::Equal
            } else if a < b {
                Ordering::Less
            } else {
                Ordering::Greater
            }
        }
    }
}

pub fn float_close(a: f64, b: f64, rel: f64) -> bool {
    if a.is_nan() || b.is_nan() {
        return a.is_nan() && b.is_nan();
    }
    if a == b {
        return true;
    }
    if a.is_infinite() || b.is_infinite() {
        return false;
    }
    let d = (a - b).abs();
    d <= rel * a.abs().max(b.abs()).max(1e-300) || d < 1e-12
}

impl fmt::Display for Value {
    fn fmt(&self, f: &mut fmt::Formatter<'_>) -> fmt::Result {
        f.write_str(&self.render())
    }
}

pub type Row = Vec<Value>;

pub fn row_cmp(a: &Row, b: &Row) -> Ordering {
    for (x, y) in a.iter().zip(b.iter()) {
        let c = x.total_cmp(y);
        if c != Ordering::Equal {
            return c;
        }
    }
    a.len().cmp(&b.len())
}

pub fn render_row(r: &Row) -> String {
    let v: Vec<String> = r.iter().map(|x| x.render()).collect();
    format!("({})", v.join(", "))
}

pub fn render_rows(rows: &[Row], max: usize) -> Vec<String> {
    let mut out: Vec<String> = rows.iter().take(max).map(render_row).collect();
    if rows.len() > max {
        out.push(format!("... {} more", rows.len() - max));
    }
    out
}

/// Result of one statement as seen by the client.
#[derive(Debug, Clone, Default)]
pub struct Table {
    pub names: Vec<String>,
    /// `DataType` rendering of the announced output schema
    pub types: Vec<String>,
    pub rows: Vec<Row>,
    pub batches: usize,
    /// first array whose datatype differs from the announced one (C18)
    pub type_mismatch: Option<String>,
    /// largest number of rows seen in one produced batch
    pub max_batch_rows: usize,
}

pub fn scalar_to_value(v: &BorrowedScalarValue<'_>) -> Value {
    use BorrowedScalarValue as S;
    match v {
        S::Null => Value::Null,
        // a defective reader can hand out uninitialised bytes as a `bool`
        S::Boolean(b) => {
            let raw: u8 = unsafe { std::ptr::read_volatile(b as *const bool as *const u8) };
            if raw > 1 { Value::Other(format!("invalid-bool:{raw}")) } else { Value::Bool(raw == 1) }
        }
        S::Int8(x) => Value::Int(*x as i128),
        S::Int16(x) => Value::Int(*x as i128),
        S::Int32(x) => Value::Int(*x as i128),
        S::Int64(x) => Value::Int(*x as i128),
        S::Int128(x) => Value::Int(*x),
        S::UInt8(x) => Value::Int(*x as i128),
        S::UInt16(x) => Value::Int(*x as i128),
        S::UInt32(x) => Value::Int(*x as i128),
        S::UInt64(x) => Value::Int(*x as i128),
        S::UInt128(x) => Value::Other(format!("u128:{x}")),
        S::Float16(x) => Value::Float(x.to_f64()),
        S::Float32(x) => Value::Float(*x as f64),
        S::Float64(x) => Value::Float(*x),
        // a defective reader can hand out a `str` that is not UTF-8; never trust it
        S::Utf8(s) => match std::str::from_utf8(s.as_bytes()) {
            Ok(ok) => Value::Str(ok.to_string()),
            Err(_) => Value::Other(format!("invalid-utf8:{}", s.as_bytes().iter().map(|x| format!("{x:02x}")).collect::<String>())),
        },
        // raw renderings, independent of the engine's text formatting
        S::Date32(d) => Value::Other(format!("date32:{d}")),
        S::Date64(d) => Value::Other(format!("date64:{d}")),
        S::Timestamp(t) => Value::Other(format!("ts:{:?}:{}", t.unit, t.value)),
        S::Decimal64(d) => Value::Other(format!("dec64:{}:{}:{}", d.value, d.precision, d.scale)),
        S::Decimal128(d) => Value::Other(format!("dec128:{}:{}:{}", d.value, d.precision, d.scale)),
        S::Binary(b) => Value::Other(format!("bin:{}", b.iter().map(|x| format!("{x:02x}")).collect::<String>())),
        other => Value::Other(format!("{other}")),
    }
}

/// Append the rows of `batch` to `table`, checking each array's datatype
/// against the announced types.
pub fn append_batch(table: &mut Table, batch: &Batch) -> Result<(), String> {
    let n = batch.num_rows();
    table.batches += 1;
    table.max_batch_rows = table.max_batch_rows.max(n);
    let arrays = batch.arrays();
    if arrays.len() != table.types.len() && table.type_mismatch.is_none() {
        table.type_mismatch = Some(format!("batch has {} arrays, schema announces {}", arrays.len(), table.types.len()));
    }
    for (i, a) in arrays.iter().enumerate() {
        let dt = format!("{}", a.datatype());
        if let Some(t) = table.types.get(i) {
            if &dt != t && table.type_mismatch.is_none() {
                table.type_mismatch = Some(format!("column {i}: array datatype {dt}, announced {t}"));
            }
        }
    }
    for r in 0..n {
        let mut row = Vec::with_capacity(arrays.len());
        for a in arrays {
            let v = a.get_value(r).map_err(|e| format!("get_value: {e}"))?;
            row.push(scalar_to_value(&v));
        }
        table.rows.push(row);
    }
    Ok(())
}
