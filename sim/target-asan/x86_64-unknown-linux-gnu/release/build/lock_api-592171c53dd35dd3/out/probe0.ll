; ModuleID = 'probe0.6c2779e547e7c6b5-cgu.0'
source_filename = "probe0.6c2779e547e7c6b5-cgu.0"
target datalayout = "e-m:e-p270:32:32-p271:32:32-p272:64:64-i64:64-i128:128-f80:128-n8:16:32:64-S128"
target triple = "x86_64-unknown-linux-gnu"

$asan.module_ctor = comdat any

@llvm.used = appending global [1 x ptr] [ptr @asan.module_ctor], section "llvm.metadata"
@___asan_globals_registered = common hidden global i64 0
@__start_asan_globals = extern_weak hidden global i64
@__stop_asan_globals = extern_weak hidden global i64
@llvm.global_ctors = appending global [1 x { i32, ptr, ptr }] [{ i32, ptr, ptr } { i32 1, ptr @asan.module_ctor, ptr @asan.module_ctor }]

declare void @__asan_before_dynamic_init(i64)

declare void @__asan_after_dynamic_init()

declare void @__asan_register_globals(i64, i64)

declare void @__asan_unregister_globals(i64, i64)

declare void @__asan_register_image_globals(i64)

declare void @__asan_unregister_image_globals(i64)

declare void @__asan_register_elf_globals(i64, i64, i64)

declare void @__asan_unregister_elf_globals(i64, i64, i64)

declare void @__asan_init()

; Function Attrs: nounwind
define internal void @asan.module_ctor() #0 comdat {
  call void @__asan_init()
  call void @__asan_version_mismatch_check_v8()
  call void @__asan_register_elf_globals(i64 ptrtoint (ptr @___asan_globals_registered to i64), i64 ptrtoint (ptr @__start_asan_globals to i64), i64 ptrtoint (ptr @__stop_asan_globals to i64))
  ret void
}

declare void @__asan_version_mismatch_check_v8()

attributes #0 = { nounwind }

!llvm.module.flags = !{!0, !1, !2}
!llvm.ident = !{!3}

!0 = !{i32 8, !"PIC Level", i32 2}
!1 = !{i32 2, !"RtLibUseGOT", i32 1}
!2 = !{i32 4, !"nosanitize_address", i32 1}
!3 = !{!"rustc version 1.97.0-nightly (ad3a598ca 2026-05-03)"}
