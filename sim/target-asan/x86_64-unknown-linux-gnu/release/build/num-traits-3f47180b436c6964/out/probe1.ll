; ModuleID = 'probe1.1b5804d105718845-cgu.0'
source_filename = "probe1.1b5804d105718845-cgu.0"
target datalayout = "e-m:e-p270:32:32-p271:32:32-p272:64:64-i64:64-i128:128-f80:128-n8:16:32:64-S128"
target triple = "x86_64-unknown-linux-gnu"

$asan.module_ctor = comdat any

$asan.module_dtor = comdat any

$alloc_f93507f8ba4b5780b14b2c2584609be0.eddae01237c685b25f2d54306ec73c9c = comdat any

$alloc_ef0a1f828f3393ef691f2705e817091c.eddae01237c685b25f2d54306ec73c9c = comdat any

@alloc_f93507f8ba4b5780b14b2c2584609be0 = internal constant { [8 x i8], [24 x i8] } { [8 x i8] c"\00\00\00\00\00\00\F0?", [24 x i8] zeroinitializer }, comdat($alloc_f93507f8ba4b5780b14b2c2584609be0.eddae01237c685b25f2d54306ec73c9c), align 32
@alloc_ef0a1f828f3393ef691f2705e817091c = internal constant { [8 x i8], [24 x i8] } { [8 x i8] c"\00\00\00\00\00\00\00@", [24 x i8] zeroinitializer }, comdat($alloc_ef0a1f828f3393ef691f2705e817091c.eddae01237c685b25f2d54306ec73c9c), align 32
@___asan_gen_global = private unnamed_addr constant [39 x i8] c"alloc_f93507f8ba4b5780b14b2c2584609be0\00", align 1
@___asan_gen_module = private constant [30 x i8] c"probe1.1b5804d105718845-cgu.0\00", align 1
@___asan_gen_global.1 = private unnamed_addr constant [39 x i8] c"alloc_ef0a1f828f3393ef691f2705e817091c\00", align 1
@__asan_global_alloc_f93507f8ba4b5780b14b2c2584609be0 = private global { i64, i64, i64, i64, i64, i64, i64, i64 } { i64 ptrtoint (ptr @anon.a6ff5b060991134e51f6a9d27db0f8d5.0 to i64), i64 8, i64 32, i64 ptrtoint (ptr @___asan_gen_global to i64), i64 ptrtoint (ptr @___asan_gen_module to i64), i64 0, i64 0, i64 -1 }, section "asan_globals", comdat($alloc_f93507f8ba4b5780b14b2c2584609be0.eddae01237c685b25f2d54306ec73c9c), !associated !0
@__asan_global_alloc_ef0a1f828f3393ef691f2705e817091c = private global { i64, i64, i64, i64, i64, i64, i64, i64 } { i64 ptrtoint (ptr @anon.a6ff5b060991134e51f6a9d27db0f8d5.1 to i64), i64 8, i64 32, i64 ptrtoint (ptr @___asan_gen_global.1 to i64), i64 ptrtoint (ptr @___asan_gen_module to i64), i64 0, i64 0, i64 -1 }, section "asan_globals", comdat($alloc_ef0a1f828f3393ef691f2705e817091c.eddae01237c685b25f2d54306ec73c9c), !associated !1
@llvm.compiler.used = appending global [4 x ptr] [ptr @alloc_f93507f8ba4b5780b14b2c2584609be0, ptr @alloc_ef0a1f828f3393ef691f2705e817091c, ptr @__asan_global_alloc_f93507f8ba4b5780b14b2c2584609be0, ptr @__asan_global_alloc_ef0a1f828f3393ef691f2705e817091c], section "llvm.metadata"
@___asan_globals_registered = common hidden global i64 0
@__start_asan_globals = extern_weak hidden global i64
@__stop_asan_globals = extern_weak hidden global i64
@llvm.used = appending global [2 x ptr] [ptr @asan.module_ctor, ptr @asan.module_dtor], section "llvm.metadata"
@llvm.global_ctors = appending global [1 x { i32, ptr, ptr }] [{ i32, ptr, ptr } { i32 1, ptr @asan.module_ctor, ptr @asan.module_ctor }]
@llvm.global_dtors = appending global [1 x { i32, ptr, ptr }] [{ i32, ptr, ptr } { i32 1, ptr @asan.module_dtor, ptr @asan.module_dtor }]

@anon.a6ff5b060991134e51f6a9d27db0f8d5.0 = private alias { [8 x i8], [24 x i8] }, ptr @alloc_f93507f8ba4b5780b14b2c2584609be0
@anon.a6ff5b060991134e51f6a9d27db0f8d5.1 = private alias { [8 x i8], [24 x i8] }, ptr @alloc_ef0a1f828f3393ef691f2705e817091c

; probe1::probe
; Function Attrs: nonlazybind sanitize_address uwtable
define void @_RNvCs2ly8eUAtcdl_6probe15probe() unnamed_addr #0 {
start:
; call <f64>::total_cmp
  %_1 = call i8 @_RNvMNtCsanpdEcSfypT_4core3f64d9total_cmpCs2ly8eUAtcdl_6probe1(ptr align 8 @alloc_f93507f8ba4b5780b14b2c2584609be0, ptr align 8 @alloc_ef0a1f828f3393ef691f2705e817091c) #4
  ret void
}

; <f64>::total_cmp
; Function Attrs: inlinehint nonlazybind sanitize_address uwtable
define internal i8 @_RNvMNtCsanpdEcSfypT_4core3f64d9total_cmpCs2ly8eUAtcdl_6probe1(ptr align 8 %self, ptr align 8 %other) unnamed_addr #1 {
start:
  %_6 = alloca [8 x i8], align 8
  %_3 = alloca [8 x i8], align 8
  %0 = ptrtoint ptr %self to i64
  %1 = lshr i64 %0, 3
  %2 = add i64 %1, 2147450880
  %3 = inttoptr i64 %2 to ptr
  %4 = load i8, ptr %3, align 1
  %5 = icmp ne i8 %4, 0
  br i1 %5, label %6, label %7

6:                                                ; preds = %start
  call void @__asan_report_load8(i64 %0) #5
  unreachable

7:                                                ; preds = %start
  %_5 = load double, ptr %self, align 8
  %_4 = bitcast double %_5 to i64
  store i64 %_4, ptr %_3, align 8
  %8 = ptrtoint ptr %other to i64
  %9 = lshr i64 %8, 3
  %10 = add i64 %9, 2147450880
  %11 = inttoptr i64 %10 to ptr
  %12 = load i8, ptr %11, align 1
  %13 = icmp ne i8 %12, 0
  br i1 %13, label %14, label %15

14:                                               ; preds = %7
  call void @__asan_report_load8(i64 %8) #5
  unreachable

15:                                               ; preds = %7
  %_8 = load double, ptr %other, align 8
  %_7 = bitcast double %_8 to i64
  store i64 %_7, ptr %_6, align 8
  %_13 = load i64, ptr %_3, align 8
  %_12 = ashr i64 %_13, 63
  %_10 = lshr i64 %_12, 1
  %16 = load i64, ptr %_3, align 8
  %17 = xor i64 %16, %_10
  store i64 %17, ptr %_3, align 8
  %_18 = load i64, ptr %_6, align 8
  %_17 = ashr i64 %_18, 63
  %_15 = lshr i64 %_17, 1
  %18 = load i64, ptr %_6, align 8
  %19 = xor i64 %18, %_15
  store i64 %19, ptr %_6, align 8
  %20 = load i64, ptr %_3, align 8
  %21 = load i64, ptr %_6, align 8
  %_0 = call i8 @llvm.scmp.i8.i64(i64 %20, i64 %21)
  ret i8 %_0
}

; Function Attrs: nocallback nocreateundeforpoison nofree nosync nounwind speculatable willreturn memory(none)
declare range(i8 -1, 2) i8 @llvm.scmp.i8.i64(i64, i64) #2

declare void @__asan_report_load_n(i64, i64)

declare void @__asan_loadN(i64, i64)

declare void @__asan_report_load1(i64)

declare void @__asan_load1(i64)

declare void @__asan_report_load2(i64)

declare void @__asan_load2(i64)

declare void @__asan_report_load4(i64)

declare void @__asan_load4(i64)

declare void @__asan_report_load8(i64)

declare void @__asan_load8(i64)

declare void @__asan_report_load16(i64)

declare void @__asan_load16(i64)

declare void @__asan_report_store_n(i64, i64)

declare void @__asan_storeN(i64, i64)

declare void @__asan_report_store1(i64)

declare void @__asan_store1(i64)

declare void @__asan_report_store2(i64)

declare void @__asan_store2(i64)

declare void @__asan_report_store4(i64)

declare void @__asan_store4(i64)

declare void @__asan_report_store8(i64)

declare void @__asan_store8(i64)

declare void @__asan_report_store16(i64)

declare void @__asan_store16(i64)

declare void @__asan_report_exp_load_n(i64, i64, i32)

declare void @__asan_exp_loadN(i64, i64, i32)

declare void @__asan_report_exp_load1(i64, i32)

declare void @__asan_exp_load1(i64, i32)

declare void @__asan_report_exp_load2(i64, i32)

declare void @__asan_exp_load2(i64, i32)

declare void @__asan_report_exp_load4(i64, i32)

declare void @__asan_exp_load4(i64, i32)

declare void @__asan_report_exp_load8(i64, i32)

declare void @__asan_exp_load8(i64, i32)

declare void @__asan_report_exp_load16(i64, i32)

declare void @__asan_exp_load16(i64, i32)

declare void @__asan_report_exp_store_n(i64, i64, i32)

declare void @__asan_exp_storeN(i64, i64, i32)

declare void @__asan_report_exp_store1(i64, i32)

declare void @__asan_exp_store1(i64, i32)

declare void @__asan_report_exp_store2(i64, i32)

declare void @__asan_exp_store2(i64, i32)

declare void @__asan_report_exp_store4(i64, i32)

declare void @__asan_exp_store4(i64, i32)

declare void @__asan_report_exp_store8(i64, i32)

declare void @__asan_exp_store8(i64, i32)

declare void @__asan_report_exp_store16(i64, i32)

declare void @__asan_exp_store16(i64, i32)

declare ptr @__asan_memmove(ptr, ptr, i64)

declare ptr @__asan_memcpy(ptr, ptr, i64)

declare ptr @__asan_memset(ptr, i32, i64)

declare void @__asan_handle_no_return()

declare void @__sanitizer_ptr_cmp(i64, i64)

declare void @__sanitizer_ptr_sub(i64, i64)

; Function Attrs: nocallback nocreateundeforpoison nofree nosync nounwind speculatable willreturn memory(none)
declare i1 @llvm.amdgcn.is.shared(ptr) #2

; Function Attrs: nocallback nocreateundeforpoison nofree nosync nounwind speculatable willreturn memory(none)
declare i1 @llvm.amdgcn.is.private(ptr) #2

declare void @__asan_before_dynamic_init(i64)

declare void @__asan_after_dynamic_init()

declare void @__asan_register_globals(i64, i64)

declare void @__asan_unregister_globals(i64, i64)

declare void @__asan_register_image_globals(i64)

declare void @__asan_unregister_image_globals(i64)

declare void @__asan_register_elf_globals(i64, i64, i64)

declare void @__asan_unregister_elf_globals(i64, i64, i64)

declare void @__asan_init()

; Function Attrs: nounwind
define internal void @asan.module_ctor() #3 comdat {
  call void @__asan_init()
  call void @__asan_version_mismatch_check_v8()
  call void @__asan_register_elf_globals(i64 ptrtoint (ptr @___asan_globals_registered to i64), i64 ptrtoint (ptr @__start_asan_globals to i64), i64 ptrtoint (ptr @__stop_asan_globals to i64))
  ret void
}

declare void @__asan_version_mismatch_check_v8()

; Function Attrs: nounwind
define internal void @asan.module_dtor() #3 comdat {
  call void @__asan_unregister_elf_globals(i64 ptrtoint (ptr @___asan_globals_registered to i64), i64 ptrtoint (ptr @__start_asan_globals to i64), i64 ptrtoint (ptr @__stop_asan_globals to i64))
  ret void
}

attributes #0 = { nonlazybind sanitize_address uwtable "target-cpu"="x86-64" }
attributes #1 = { inlinehint nonlazybind sanitize_address uwtable "target-cpu"="x86-64" }
attributes #2 = { nocallback nocreateundeforpoison nofree nosync nounwind speculatable willreturn memory(none) }
attributes #3 = { nounwind }
attributes #4 = { inlinehint }
attributes #5 = { nomerge }

!llvm.module.flags = !{!2, !3, !4}
!llvm.ident = !{!5}

!0 = !{ptr @alloc_f93507f8ba4b5780b14b2c2584609be0}
!1 = !{ptr @alloc_ef0a1f828f3393ef691f2705e817091c}
!2 = !{i32 8, !"PIC Level", i32 2}
!3 = !{i32 2, !"RtLibUseGOT", i32 1}
!4 = !{i32 4, !"nosanitize_address", i32 1}
!5 = !{!"rustc version 1.97.0-nightly (ad3a598ca 2026-05-03)"}
