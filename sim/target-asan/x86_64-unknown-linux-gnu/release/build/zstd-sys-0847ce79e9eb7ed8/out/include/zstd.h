/*
 * Copyright (c) Meta Platforms, Inc. and affiliates.
 * All rights reserved.
 *
 * This source code is licensed under both the BSD-style license (found in the
 * LICENSE file in the root directory of this source tree) and the GPLv2 (found
 * in the COPYING file in the root directory of this source tree).
 * You may select, at your option, one of the above-listed licenses.
 */

#ifndef ZSTD_H_235446
#define ZSTD_H_235446


/* ======   Dependencies   ======*/
#include <stddef.h>   /* size_t */

#include "zstd_errors.h" /* list of errors */
#if defined(ZSTD_STATIC_LINKING_ONLY) && !defined(ZSTD_H_ZSTD_STATIC_LINKING_ONLY)
#include <limits.h>   /* INT_MAX */
#endif /* ZSTD_STATIC_LINKING_ONLY */

#if defined (__cplusplus)
extern "C" {
#endif

/* =====   ZSTDLIB_API : control library symbols visibility   ===== */
#ifndef ZSTDLIB_VISIBLE
   /* Backwards compatibility with old macro name */
#  ifdef ZSTDLIB_VISIBILITY
#    define ZSTDLIB_VISIBLE ZSTDLIB_VISIBILITY
#  elif defined(__GNUC__) && (__GNUC__ >= 4) && !defined(__MINGW32__)
#    define ZSTDLIB_VISIBLE __attribute__ ((visibility ("default")))
#  else
#    define ZSTDLIB_VISIBLE
#  endif
#endif

#ifndef ZSTDLIB_HIDDEN
#  if defined(__GNUC__) && (__GNUC__ >= 4) && !defined(__MINGW32__)
#    define ZSTDLIB_HIDDEN __attribute__ ((visibility ("hidden")))
#  else
#    define ZSTDLIB_HIDDEN
#  endif
#endif

#if defined(ZSTD_DLL_EXPORT) && (ZSTD_DLL_EXPORT==1)
#  define ZSTDLIB_API __declspec(dllexport) ZSTDLIB_VISIBLE
#elif defined(ZSTD_DLL_IMPORT) && (ZSTD_DLL_IMPORT==1)
#  define ZSTDLIB_API __declspec(dllimport) ZSTDLIB_VISIBLE /* It isn't required but allows to generate better code, saving a function pointer load from the IAT and an indirect jump.*/
#else
#  define ZSTDLIB_API ZSTDLIB_VISIBLE
#endif

/* Deprecation warnings :
 * Should these warnings be a problem, it is generally possible to disable them,
 * typically with -Wno-deprecated-declarations for gcc or _CRT_SECURE_NO_WARNINGS in Visual.
 * Otherwise, it's also possible to define ZSTD_DISABLE_DEPRECATE_WARNINGS.
 */
#ifdef ZSTD_DISABLE_DEPRECATE_WARNINGS
#  define ZSTD_DEPRECATED(message) /* disable deprecation warnings */
#else
#  if defined (__cplusplus) && (__cplusplus >= 201402) /* C++14 or greater */
#    define ZSTD_DEPRECATED(message) [[deprecated(message)]]
#  elif (defined(GNUC) && (GNUC > 4 || (GNUC == 4 && GNUC_MINOR >= 5))) || defined(__clang__) || defined(__IAR_SYSTEMS_ICC__)
#    define ZSTD_DEPRECATED(message) __attribute__((deprecated(message)))
#  elif defined(__GNUC__) && (__GNUC__ >= 3)
#    define ZSTD_DEPRECATED(message) __attribute__((deprecated))
#  elif defined(_MSC_VER)
#    define ZSTD_DEPRECATED(message) __declspec(deprecated(message))
#  else
#    pragma message("WARNING: You need to implement ZSTD_DEPRECATED for this compiler")
#    define ZSTD_DEPRECATED(message)
#  endif
#endif /* ZSTD_DISABLE_DEPRECATE_WARNINGS */


/*******************************************************************************
  Introduction

  zstd, short for Zstandard, is a fast lossless compression algorithm, targeting
  real-time compression scenarios at zlib-level and better compression ratios.
  The zstd compression library provides in-memory compression and decompression
  functions.

  The library supports regular compression levels from 1 up to ZSTD_maxCLevel(),
  which is currently 22. Levels >= 20, labeled `--ultra`, should be used with
  caution, as they require more memory. The library also offers negative
  compression levels, which extend the range of speed vs. ratio preferences.
  The lower the level, the faster the speed (at the cost of compression).

  Compression can be done in:
    - a single step (described as Simple API)
    - a single step, reusing a context (described as Explicit context)
    - unbounded multiple steps (described as Streaming compression)

  The compression ratio achievable on small data can be highly improved using
  a dictionary. Dictionary compression can be performed in:
    - a single step (described as Simple dictionary API)
    - a single step, reusing a dictionary (described as Bulk-processing
      dictionary API)

  Advanced experimental functions can be accessed using
  `#define ZSTD_STATIC_LINKING_ONLY` before including zstd.h.

  Advanced experimental APIs should never be used with a dynamically-linked
  library. They are not "stable"; their definitions or signatures may change in
  the future. Only static linking is allowed.
*******************************************************************************/

/*------   Version   ------*/
#define ZSTD_VERSION_MAJOR    1
#define ZSTD_VERSION_MINOR    5
#define ZSTD_VERSION_RELEASE  7
#define ZSTD_VERSION_NUMBER  (ZSTD_VERSION_MAJOR *100*100 + ZSTD_VERSION_MINOR *100 + ZSTD_VERSION_RELEASE)

/*! ZSTD_versionNumber() :
 *  Return runtime library version, the value is (MAJOR*100*100 + MINOR*100 + RELEASE). */
ZSTDLIB_API unsigned ZSTD_versionNumber(void);

#define ZSTD_LIB_VERSION ZSTD_VERSION_MAJOR.ZSTD_VERSION_MINOR.ZSTD_VERSION_RELEASE
#define ZSTD_QUOTE(str) #str
#define ZSTD_EXPAND_AND_QUOTE(str) ZSTD_QUOTE(str)
#define ZSTD_VERSION_STRING ZSTD_EXPAND_AND_QUOTE(ZSTD_LIB_VERSION)

/*! ZSTD_versionString() :
 *  Return runtime library version, like "1.4.5". Requires v1.3.0+. */
ZSTDLIB_API const char* ZSTD_versionString(void);

/* *************************************
 *  Default constant
 ***************************************/
#ifndef ZSTD_CLEVEL_DEFAULT
#  define ZSTD_CLEVEL_DEFAULT 3
#endif

/* *************************************
 *  Constants
 ***************************************/

/* All magic numbers are supposed read/written to/from files/memory using little-endian convention */
#define ZSTD_MAGICNUMBER            0xFD2FB528    /* valid since v0.8.0 */
#define ZSTD_MAGIC_DICTIONARY       0xEC30A437    /* valid since v0.7.0 */
#define ZSTD_MAGIC_SKIPPABLE_START  0x184D2A50    /* all 16 values, from 0x184D2A50 to 0x184D2A5F, signal the beginning of a skippable frame */
#define ZSTD_MAGIC_SKIPPABLE_MASK   0xFFFFFFF0

#define ZSTD_BLOCKSIZELOG_MAX  17
#define ZSTD_BLOCKSIZE_MAX     (1<<ZSTD_BLOCKSIZELOG_MAX)


/***************************************
*  Simple Core API
***************************************/
/*! ZSTD_compress() :
 *  Compresses `src` content as a single zstd compressed frame into already allocated `dst`.
 *  NOTE: Providing `dstCapacity >= ZSTD_compressBound(srcSize)` guarantees that zstd will have
 *        enough space to successfully compress the data.
 *  @return : compressed size written into `dst` (<= `dstCapacity),
 *            or an error code if it fails (which can be tested using ZSTD_isError()). */
ZSTDLIB_API size_t ZSTD_compress( void* dst, size_t dstCapacity,
                            const void* src, size_t srcSize,
                                  int compressionLevel);

/*! ZSTD_decompress() :
 * `compressedSize` : must be the _exact_ size of some number of compressed and/or skippable frames.
 *  Multiple compressed frames can be decompressed at once with this method.
 *  The result will be the concatenation of all decompressed frames, back to back.
 * `dstCapacity` is an upper bound of originalSize to regenerate.
 *  First frame's decompressed size can be extracted using ZSTD_getFrameContentSize().
 *  If maximum upper bound isn't known, prefer using streaming mode to decompress data.
 * @return : the number of bytes decompressed into `dst` (<= `dstCapacity`),
 *           or an errorCode if it fails (which can be tested using ZSTD_isError()). */
ZSTDLIB_API size_t ZSTD_decompress( void* dst, size_t dstCapacity,
                              const void* src, size_t compressedSize);


/*======  Decompression helper functions  ======*/

/*! ZSTD_getFrameContentSize() : requires v1.3.0+
 * `src` should point to the start of a ZSTD encoded frame.
 * `srcSize` must be at least as large as the frame header.
 *           hint : any size >= `ZSTD_frameHeaderSize_max` is large enough.
 * @return : - decompressed size of `src` frame content, if known
 *           - ZSTD_CONTENTSIZE_UNKNOWN if the size cannot be determined
 *           - ZSTD_CONTENTSIZE_ERROR if an error occurred (e.g. invalid magic number, srcSize too small)
 *  note 1 : a 0 return value means the frame is valid but "empty".
 *           When invoking this method on a skippable frame, it will return 0.
 *  note 2 : decompressed size is an optional field, it may not be present (typically in streaming mode).
 *           When `return==ZSTD_CONTENTSIZE_UNKNOWN`, data to decompress could be any size.
 *           In which case, it's necessary to use streaming mode to decompress data.
 *           Optionally, application can rely on some implicit limit,
 *           as ZSTD_decompress() only needs an upper bound of decompressed size.
 *           (For example, data could be necessarily cut into blocks <= 16 KB).
 *  note 3 : decompressed size is always present when compression is completed using single-pass functions,
 *           such as ZSTD_compress(), ZSTD_compressCCtx() ZSTD_compress_usingDict() or ZSTD_compress_usingCDict().
 *  note 4 : decompressed size can be very large (64-bits value),
 *           potentially larger than what local system can handle as a single memory segment.
 *           In which case, it's necessary to use streaming mode to decompress data.
 *  note 5 : If source is untrusted, decompressed size could be wrong or intentionally modified.
 *           Always ensure return value fits within application's authorized limits.
 *           Each application can set its own limits.
 *  note 6 : This function replaces ZSTD_getDecompressedSize() */
#define ZSTD_CONTENTSIZE_UNKNOWN (0ULL - 1)
#define ZSTD_CONTENTSIZE_ERROR   (0ULL - 2)
ZSTDLIB_API unsigned long long ZSTD_getFrameContentSize(const void *src, size_t srcSize);

/*! ZSTD_getDecompressedSize() (obsolete):
 *  This function is now obsolete, in favor of ZSTD_getFrameContentSize().
 *  Both functions work the same way, but ZSTD_getDecompressedSize() blends
 *  "empty", "unknown" and "error" results to the same return value (0),
 *  while ZSTD_getFrameContentSize() gives them separate return values.
 * @return : decompressed size of `src` frame content _if known and not empty_, 0 otherwise. */
ZSTD_DEPRECATED("Replaced by ZSTD_getFrameContentSize")
ZSTDLIB_API unsigned long long ZSTD_getDecompressedSize(const void* src, size_t srcSize);

/*! ZSTD_findFrameCompressedSize() : Requires v1.4.0+
 * `src` should point to the start of a ZSTD frame or skippable frame.
 * `srcSize` must be >= first frame size
 * @return : the compressed size of the first frame starting at `src`,
 *           suitable to pass as `srcSize` to `ZSTD_decompress` or similar,
 *           or an error code if input is invalid
 *  Note 1: this method is called _find*() because it's not enough to read the header,
 *          it may have to scan through the frame's content, to reach its end.
 *  Note 2: this method also works with Skippable Frames. In which case,
 *          it returns the size of the complete skippable frame,
 *          which is always equal to its content size + 8 bytes for headers. */
ZSTDLIB_API size_t ZSTD_findFrameCompressedSize(const void* src, size_t srcSize);


/*======  Compression helper functions  ======*/

/*! ZSTD_compressBound() :
 * maximum compressed size in worst case single-pass scenario.
 * When invoking `ZSTD_compress()`, or any other one-pass compression function,
 * it's recommended to provide @dstCapacity >= ZSTD_compressBound(srcSize)
 * as it eliminates one potential failure scenario,
 * aka not enough room in dst buffer to write the compressed frame.
 * Note : ZSTD_compressBound() itself can fail, if @srcSize >= ZSTD_MAX_INPUT_SIZE .
 *        In which case, ZSTD_compressBound() will return an error code
 *        which can be tested using ZSTD_isError().
 *
 * ZSTD_COMPRESSBOUND() :
 * same as ZSTD_compressBound(), but as a macro.
 * It can be used to produce constants, which can be useful for static allocation,
 * for example to size a static array on stack.
 * Will produce constant value 0 if srcSize is too large.
 */
#define ZSTD_MAX_INPUT_SIZE ((sizeof(size_t)==8) ? 0xFF00FF00FF00FF00ULL : 0xFF00FF00U)
#define ZSTD_COMPRESSBOUND(srcSize)   (((size_t)(srcSize) >= ZSTD_MAX_INPUT_SIZE) ? 0 : (srcSize) + ((srcSize)>>8) + (((srcSize) < (128<<10)) ? (((128<<10) - (srcSize)) >> 11) /* margin, from 64 to 0 */ : 0))  /* this formula ensures that bound(A) + bound(B) <= bound(A+B) as long as A and B >= 128 KB */
ZSTDLIB_API size_t ZSTD_compressBound(size_t srcSize); /*!< maximum compressed size in worst case single-pass scenario */


/*======  Error helper functions  ======*/
/* ZSTD_isError() :
 * Most ZSTD_* functions returning a size_t value can be tested for error,
 * using ZSTD_isError().
 * @return 1 if error, 0 otherwise
 */
ZSTDLIB_API unsigned     ZSTD_isError(size_t result);      /*!< tells if a `size_t` function result is an error code */
ZSTDLIB_API ZSTD_ErrorCode ZSTD_getErrorCode(size_t functionResult); /* convert a result into an error code, which can be compared to error enum list */
ZSTDLIB_API const char*  ZSTD_getErrorName(size_t result); /*!< provides readable string from a function result */
ZSTDLIB_API int          ZSTD_minCLevel(void);             /*!< minimum negative compression level allowed, requires v1.4.0+ */
ZSTDLIB_API int          ZSTD_maxCLevel(void);             /*!< maximum compression level available */
ZSTDLIB_API int          ZSTD_defaultCLevel(void);         /*!< default compression level, specified by ZSTD_CLEVEL_DEFAULT, requires v1.5.0+ */


/***************************************
*  Explicit context
***************************************/
/*= Compression context
 *  When compressing many times,
 *  it is recommended to allocate a compression context just once,
 *  and reuse it for each successive compression operation.
 *  This will make the workload easier for system's memory.
 *  Note : re-using context is just a speed / resource optimization.
 *         It doesn't change the compression ratio, which remains identical.
 *  Note 2: For parallel execution in multi-threaded environments,
 *         use one different context per thread .
 */
typedef struct ZSTD_CCtx_s ZSTD_CCtx;
ZSTDLIB_API ZSTD_CCtx* ZSTD_createCCtx(void);
ZSTDLIB_API size_t     ZSTD_freeCCtx(ZSTD_CCtx* cctx);  /* compatible with NULL pointer */

/*! ZSTD_compressCCtx() :
 *  Same as ZSTD_compress(), using an explicit ZSTD_CCtx.
 *  Important : in order to mirror `ZSTD_compress()` behavior,
 *  this function compresses at the requested compression level,
 *  __ignoring any other advanced parameter__ .
 *  If any advanced parameter was set using the advanced API,
 *  they will all be reset. Only @compressionLevel remains.
 */
ZSTDLIB_API size_t ZSTD_compressCCtx(ZSTD_CCtx* cctx,
                                     void* dst, size_t dstCapacity,
                               const void* src, size_t srcSize,
                                     int compressionLevel);

/*= Decompression context
 *  When decompressing many times,
 *  it is recommended to allocate a context only once,
 *  and reuse it for each successive compression operation.
 *  This will make workload friendlier for system's memory.
 *  Use one context per thread for parallel execution. */
typedef struct ZSTD_DCtx_s ZSTD_DCtx;
ZSTDLIB_API ZSTD_DCtx* ZSTD_createDCtx(void);
ZSTDLIB_API size_t     ZSTD_freeDCtx(ZSTD_DCtx* dctx);  /* accept NULL pointer */

/*! ZSTD_decompressDCtx() :
 *  Same as ZSTD_decompress(),
 *  requires an allocated ZSTD_DCtx.
 *  Compatible with sticky parameters (see below).
 */
ZSTDLIB_API size_t ZSTD_decompressDCtx(ZSTD_DCtx* dctx,
                                       void* dst, size_t dstCapacity,
                                 const void* src, size_t srcSize);


/*********************************************
*  Advanced compression API (Requires v1.4.0+)
**********************************************/

/* API design :
 *   Parameters are pushed one by one into an existing context,
 *   using ZSTD_CCtx_set*() functions.
 *   Pushed parameters are sticky : they are valid for next compressed frame, and any subsequent frame.
 *   "sticky" parameters are applicable to `ZSTD_compress2()` and `ZSTD_compressStream*()` !
 *   __They do not apply to one-shot variants such as ZSTD_compressCCtx()__ .
 *
 *   It's possible to reset all parameters to "default" using ZSTD_CCtx_reset().
 *
 *   This API supersedes all other "advanced" API entry points in the experimental section.
 *   In the future, we expect to remove API entry points from experimental which are redundant with this API.
 */


/* Compression strategies, listed from fastest to strongest */
typedef enum { ZSTD_fast=1,
               ZSTD_dfast=2,
               ZSTD_greedy=3,
               ZSTD_lazy=4,
               ZSTD_lazy2=5,
               ZSTD_btlazy2=6,
               ZSTD_btopt=7,
               ZSTD_btultra=8,
               ZSTD_btultra2=9
               /* note : new strategies _might_ be added in the future.
                         Only the order (from fast to strong) is guaranteed */
} ZSTD_strategy;

typedef enum {

    /* compression parameters
     * Note: When compressing with a ZSTD_CDict these parameters are superseded
     * by the parameters used to construct the ZSTD_CDict.
     * See ZSTD_CCtx_refCDict() for more info (superseded-by-cdict). */
    ZSTD_c_compressionLevel=100, /* Set compression parameters according to pre-defined cLevel table.
                              * Note that exact compression parameters are dynamically determined,
                              * depending on both compression level and srcSize (when known).
                              * Default level is ZSTD_CLEVEL_DEFAULT==3.
                              * Special: value 0 means default, which is controlled by ZSTD_CLEVEL_DEFAULT.
                              * Note 1 : it's possible to pass a negative compression level.
                              * Note 2 : setting a level does not automatically set all other compression parameters
                              *   to default. Setting this will however eventually dynamically impact the compression
                              *   parameters which have not been manually set. The manually set
                              *   ones will 'stick'. */
    /* Advanced compression parameters :
     * It's possible to pin down compression parameters to some specific values.
     * In which case, these values are no longer dynamically selected by the compressor */
    ZSTD_c_windowLog=101,    /* Maximum allowed back-reference distance, expressed as power of 2.
                              * This will set a memory budget for streaming decompression,
                              * with larger values requiring more memory
                              * and typically compressing more.
                              * Must be clamped between ZSTD_WINDOWLOG_MIN and ZSTD_WINDOWLOG_MAX.
                              * Special: value 0 means "use default windowLog".
                              * Note: Using a windowLog greater than ZSTD_WINDOWLOG_LIMIT_DEFAULT
                              *       requires explicitly allowing such size at streaming decompression stage. */
    ZSTD_c_hashLog=102,      /* Size of the initial probe table, as a power of 2.
                              * Resulting memory usage is (1 << (hashLog+2)).
                              * Must be clamped between ZSTD_HASHLOG_MIN and ZSTD_HASHLOG_MAX.
                              * Larger tables improve compression ratio of strategies <= dFast,
                              * and improve speed of strategies > dFast.
                              * Special: value 0 means "use default hashLog". */
    ZSTD_c_chainLog=103,     /* Size of the multi-probe search table, as a power of 2.
                              * Resulting memory usage is (1 << (chainLog+2)).
                              * Must be clamped between ZSTD_CHAINLOG_MIN and ZSTD_CHAINLOG_MAX.
                              * Larger tables result in better and slower compression.
                              * This parameter is useless for "fast" strategy.
                              * It's still useful when using "dfast" strategy,
                              * in which case it defines a secondary probe table.
                              * Special: value 0 means "use default chainLog". */
    ZSTD_c_searchLog=104,    /* Number of search attempts, as a power of 2.
                              * More attempts result in better and slower compression.
                              * This parameter is useless for "fast" and "dFast" strategies.
                              * Special: value 0 means "use default searchLog". */
    ZSTD_c_minMatch=105,     /* Minimum size of searched matches.
                              * Note that Zstandard can still find matches of smaller size,
                              * it just tweaks its search algorithm to look for this size and larger.
                              * Larger values increase compression and decompression speed, but decrease ratio.
                              * Must be clamped between ZSTD_MINMATCH_MIN and ZSTD_MINMATCH_MAX.
                              * Note that currently, for all strategies < btopt, effective minimum is 4.
                              *                    , for all strategies > fast, effective maximum is 6.
                              * Special: value 0 means "use default minMatchLength". */
    ZSTD_c_targetLength=106, /* Impact of this field depends on strategy.
                              * For strategies btopt, btultra & btultra2:
                              *     Length of Match considered "good enough" to stop search.
                              *     Larger values make compression stronger, and slower.
                              * For strategy fast:
                              *     Distance between match sampling.
                              *     Larger values make compression faster, and weaker.
                              * Special: value 0 means "use default targetLength". */
    ZSTD_c_strategy=107,     /* See ZSTD_strategy enum definition.
                              * The higher the value of selected strategy, the more complex it is,
                              * resulting in stronger and slower compression.
                              * Special: value 0 means "use default strategy". */

    ZSTD_c_targetCBlockSize=130, /* v1.5.6+
                                  * Attempts to fit compressed block size into approximately targetCBlockSize.
                                  * Bound by ZSTD_TARGETCBLOCKSIZE_MIN and ZSTD_TARGETCBLOCKSIZE_MAX.
                                  * Note that it's not a guarantee, just a convergence target (default:0).
                                  * No target when targetCBlockSize == 0.
                                  * This is helpful in low bandwidth streaming environments to improve end-to-end latency,
                                  * when a client can make use of partial documents (a prominent example being Chrome).
                                  * Note: this parameter is stable since v1.5.6.
                                  * It was present as an experimental parameter in earlier versions,
                                  * but it's not recommended using it with earlier library versions
                                  * due to massive performance regressions.
                                  */
    /* LDM mode parameters */
    ZSTD_c_enableLongDistanceMatching=160, /* Enable long distance matching.
                                     * This parameter is designed to improve compression ratio
                                     * for large inputs, by finding large matches at long distance.
                                     * It increases memory usage and window size.
                                     * Note: enabling this parameter increases default ZSTD_c_windowLog to 128 MB
                                     * except when expressly set to a different value.
                                     * Note: will be enabled by default if ZSTD_c_windowLog >= 128 MB and
                                     * compression strategy >= ZSTD_btopt (== compression level 16+) */
    ZSTD_c_ldmHashLog=161,   /* Size of the table for long distance matching, as a power of 2.
                              * Larger values increase memory usage and compression ratio,
                              * but decrease compression speed.
                              * Must be clamped between ZSTD_HASHLOG_MIN and ZSTD_HASHLOG_MAX
                              * default: windowlog - 7.
                              * Special: value 0 means "automatically determine hashlog". */
    ZSTD_c_ldmMinMatch=162,  /* Minimum match size for long distance matcher.
                              * Larger/too small values usually decrease compression ratio.
                              * Must be clamped between ZSTD_LDM_MINMATCH_MIN and ZSTD_LDM_MINMATCH_MAX.
                              * Special: value 0 means "use default value" (default: 64). */
    ZSTD_c_ldmBucketSizeLog=163, /* Log size of each bucket in the LDM hash table for collision resolution.
                              * Larger values improve collision resolution but decrease compression speed.
                              * The maximum value is ZSTD_LDM_BUCKETSIZELOG_MAX.
                              * Special: value 0 means "use default value" (default: 3). */
    ZSTD_c_ldmHashRateLog=164, /* Frequency of inserting/looking up entries into the LDM hash table.
                              * Must be clamped between 0 and (ZSTD_WINDOWLOG_MAX - ZSTD_HASHLOG_MIN).
                              * Default is MAX(0, (windowLog - ldmHashLog)), optimizing hash table usage.
                              * Larger values improve compression speed.
                              * Deviating far from default value will likely result in a compression ratio decrease.
                              * Special: value 0 means "automatically determine hashRateLog". */

    /* frame parameters */
    ZSTD_c_contentSizeFlag=200, /* Content size will be written into frame header _whenever known_ (default:1)
                              * Content size must be known at the beginning of compression.
                              * This is automatically the case when using ZSTD_compress2(),
                              * For streaming scenarios, content size must be provided with ZSTD_CCtx_setPledgedSrcSize() */
    ZSTD_c_checksumFlag=201, /* A 32-bits checksum of content is written at end of frame (default:0) */
    ZSTD_c_dictIDFlag=202,   /* When applicable, dictionary's ID is written into frame header (default:1) */

    /* multi-threading parameters */
    /* These parameters are only active if multi-threading is enabled (compiled with build macro ZSTD_MULTITHREAD).
     * Otherwise, trying to set any other value than default (0) will be a no-op and return an error.
     * In a situation where it's unknown if the linked library supports multi-threading or not,
     * setting ZSTD_c_nbWorkers to any value >= 1 and consulting the return value provides a quick way to check this property.
     */
    ZSTD_c_nbWorkers=400,    /* Select how many threads will be spawned to compress in parallel.
                              * When nbWorkers >= 1, triggers asynchronous mode when invoking ZSTD_compressStream*() :
                              * ZSTD_compressStream*() consumes input and flush output if possible, but immediately gives back control to caller,
                              * while compression is performed in parallel, within worker thread(s).
                              * (note : a strong exception to this rule is when first invocation of ZSTD_compressStream2() sets ZSTD_e_end :
                              *  in which case, ZSTD_compressStream2() delegates to ZSTD_compress2(), which is always a blocking call).
                              * More workers improve speed, but also increase memory usage.
                              * Default value is `0`, aka "single-threaded mode" : no worker is spawned,
                              * compression is performed inside Caller's thread, and all invocations are blocking */
    ZSTD_c_jobSize=401,      /* Size of a compression job. This value is enforced only when nbWorkers >= 1.
                              * Each compression job is completed in parallel, so this value can indirectly impact the nb of active threads.
                              * 0 means default, which is dynamically determined based on compression parameters.
                              * Job size must be a minimum of overlap size, or ZSTDMT_JOBSIZE_MIN (= 512 KB), whichever is largest.
                              * The minimum size is automatically and transparently enforced. */
    ZSTD_c_overlapLog=402,   /* Control the overlap size, as a fraction of window size.
                              * The overlap size is an amount of data reloaded from previous job at the beginning of a new job.
                              * It helps preserve compression ratio, while each job is compressed in parallel.
                              * This value is enforced only when nbWorkers >= 1.
                              * Larger values increase compression ratio, but decrease speed.
                              * Possible values range from 0 to 9 :
                              * - 0 means "default" : value will be determined by the library, depending on strategy
                              * - 1 means "no overlap"
                              * - 9 means "full overlap", using a full window size.
                              * Each intermediate rank increases/decreases load size by a factor 2 :
                              * 9: full window;  8: w/2;  7: w/4;  6: w/8;  5:w/16;  4: w/32;  3:w/64;  2:w/128;  1:no overlap;  0:default
                              * default value varies between 6 and 9, depending on strategy */

    /* note : additional experimental parameters are also available
     * within the experimental section of the API.
     * At the time of this writing, they include :
     * ZSTD_c_rsyncable
     * ZSTD_c_format
     * ZSTD_c_forceMaxWindow
     * ZSTD_c_forceAttachDict
     * ZSTD_c_literalCompressionMode
     * ZSTD_c_srcSizeHint
     * ZSTD_c_enableDedicatedDictSearch
     * ZSTD_c_stableInBuffer
     * ZSTD_c_stableOutBuffer
     * ZSTD_c_blockDelimiters
     * ZSTD_c_validateSequences
     * ZSTD_c_blockSplitterLevel
     * ZSTD_c_splitAfterSequences
     * ZSTD_c_useRowMatchFinder
     * ZSTD_c_prefetchCDictTables
     * ZSTD_c_enableSeqProducerFallback
     * ZSTD_c_maxBlockSize
     * Because they are not stable, it's necessary to define ZSTD_STATIC_LINKING_ONLY to access them.
     * note : never ever use experimentalParam? names directly;
     *        also, the enums values themselves are unstable and can still change.
     */
     ZSTD_c_experimentalParam1=500,
     ZSTD_c_experimentalParam2=10,
     ZSTD_c_experimentalParam3=1000,
     ZSTD_c_experimentalParam4=1001,
     ZSTD_c_experimentalParam5=1002,
     /* was ZSTD_c_experimentalParam6=1003; is now ZSTD_c_targetCBlockSize */
     ZSTD_c_experimentalParam7=1004,
     ZSTD_c_experimentalParam8=1005,
     ZSTD_c_experimentalParam9=1006,
     ZSTD_c_experimentalParam10=1007,
     ZSTD_c_experimentalParam11=1008,
     ZSTD_c_experimentalParam12=1009,
     ZSTD_c_experimentalParam13=1010,
     ZSTD_c_experimentalParam14=1011,
     ZSTD_c_experimentalParam15=1012,
     ZSTD_c_experimentalParam16=1013,
     ZSTD_c_experimentalParam17=1014,
     ZSTD_c_experimentalParam18=1015,
     ZSTD_c_experimentalParam19=1016,
     ZSTD_c_experimentalParam20=1017
} ZSTD_cParameter;

typedef struct {
    size_t error;
    int lowerBound;
    int upperBound;
} ZSTD_bounds;

/*! ZSTD_cParam_getBounds() :
 *  All parameters must belong to an interval with lower and upper bounds,
 *  otherwise they will either trigger an error or be automatically clamped.
 * @return : a structure, ZSTD_bounds, which contains
 *         - an error status field, which must be tested using ZSTD_isError()
 *         - lower and upper bounds, both inclusive
 */
ZSTDLIB_API ZSTD_bounds ZSTD_cParam_getBounds(ZSTD_cParameter cParam);

/*! ZSTD_CCtx_setParameter() :
 *  Set one compression parameter, selected by enum ZSTD_cParameter.
 *  All parameters have valid bounds. Bounds can be queried using ZSTD_cParam_getBounds().
 *  Providing a value beyond bound will either clamp it, or trigger an error (depending on parameter).
 *  Setting a parameter is generally only possible during frame initialization (before starting compression).
 *  Exception : when using multi-threading mode (nbWorkers >= 1),
 *              the following parameters can be updated _during_ compression (within same frame):
 *              => compressionLevel, hashLog, chainLog, searchLog, minMatch, targetLength and strategy.
 *              new parameters will be active for next job only (after a flush()).
 * @return : an error code (which can be tested using ZSTD_isError()).
 */
ZSTDLIB_API size_t ZSTD_CCtx_setParameter(ZSTD_CCtx* cctx, ZSTD_cParameter param, int value);

/*! ZSTD_CCtx_setPledgedSrcSize() :
 *  Total input data size to be compressed as a single frame.
 *  Value will be written in frame header, unless if explicitly forbidden using ZSTD_c_contentSizeFlag.
 *  This value will also be controlled at end of frame, and trigger an error if not respected.
 * @result : 0, or an error code (which can be tested with ZSTD_isError()).
 *  Note 1 : pledgedSrcSize==0 actually means zero, aka an empty frame.
 *           In order to mean "unknown content size", pass constant ZSTD_CONTENTSIZE_UNKNOWN.
 *           ZSTD_CONTENTSIZE_UNKNOWN is default value for any new frame.
 *  Note 2 : pledgedSrcSize is only valid once, for the next frame.
 *           It's discarded at the end of the frame, and replaced by ZSTD_CONTENTSIZE_UNKNOWN.
 *  Note 3 : Whenever all input data is provided and consumed in a single round,
 *           for example with ZSTD_compress2(),
 *           or invoking immediately ZSTD_compressStream2(,,,ZSTD_e_end),
 *           this value is automatically overridden by srcSize instead.
 */
ZSTDLIB_API size_t ZSTD_CCtx_setPledgedSrcSize(ZSTD_CCtx* cctx, unsigned long long pledgedSrcSize);

typedef enum {
    ZSTD_reset_session_only = 1,
    ZSTD_reset_parameters = 2,
    ZSTD_reset_session_and_parameters = 3
} ZSTD_ResetDirective;

/*! ZSTD_CCtx_reset() :
 *  There are 2 different things that can be reset, independently or jointly :
 *  - The session : will stop compressing current frame, and make CCtx ready to start a new one.
 *                  Useful after an error, or to interrupt any ongoing compression.
 *                  Any internal data not yet flushed is cancelled.
 *                  Compression parameters and dictionary remain unchanged.
 *                  They will be used to compress next frame.
 *                  Resetting session never fails.
 *  - The parameters : changes all parameters back to "default".
 *                  This also removes any reference to any dictionary or external sequence producer.
 *                  Parameters can only be changed between 2 sessions (i.e. no compression is currently ongoing)
 *                  otherwise the reset fails, and function returns an error value (which can be tested using ZSTD_isError())
 *  - Both : similar to resetting the session, followed by resetting parameters.
 */
ZSTDLIB_API size_t ZSTD_CCtx_reset(ZSTD_CCtx* cctx, ZSTD_ResetDirective reset);

/*! ZSTD_compress2() :
 *  Behave the same as ZSTD_compressCCtx(), but compression parameters are set using the advanced API.
 *  (note that this entry point doesn't even expose a compression level parameter).
 *  ZSTD_compress2() always starts a new frame.
 *  Should cctx hold data from a previously unfinished frame, everything about it is forgotten.
 *  - Compression parameters are pushed into CCtx before starting compression, using ZSTD_CCtx_set*()
 *  - The function is always blocking, returns when compression is completed.
 *  NOTE: Providing `dstCapacity >= ZSTD_compressBound(srcSize)` guarantees that zstd will have
 *        enough space to successfully compress the data, though it is possible it fails for other reasons.
 * @return : compressed size written into `dst` (<= `dstCapacity),
 *           or an error code if it fails (which can be tested using ZSTD_isError()).
 */
ZSTDLIB_API size_t ZSTD_compress2( ZSTD_CCtx* cctx,
                                   void* dst, size_t dstCapacity,
                             const void* src, size_t srcSize);


/***********************************************
*  Advanced decompression API (Requires v1.4.0+)
************************************************/

/* The advanced API pushes parameters one by one into an existing DCtx context.
 * Parameters are sticky, and remain valid for all following frames
 * using the same DCtx context.
 * It's possible to reset parameters to default values using ZSTD_DCtx_reset().
 * Note : This API is compatible with existing ZSTD_decompressDCtx() and ZSTD_decompressStream().
 *        Therefore, no new decompression function is necessary.
 */

typedef enum {

    ZSTD_d_windowLogMax=100, /* Select a size limit (in power of 2) beyond which
                              * the streaming API will refuse to allocate memory buffer
                              * in order to protect the host from unreasonable memory requirements.
                              * This parameter is only useful in streaming mode, since no internal buffer is allocated in single-pass mode.
                              * By default, a decompression context accepts window sizes <= (1 << ZSTD_WINDOWLOG_LIMIT_DEFAULT).
                              * Special: value 0 means "use default maximum windowLog". */

    /* note : additional experimental parameters are also available
     * within the experimental section of the API.
     * At the time of this writing, they include :
     * ZSTD_d_format
     * ZSTD_d_stableOutBuffer
     * ZSTD_d_forceIgnoreChecksum
     * ZSTD_d_refMultipleDDicts
     * ZSTD_d_disableHuffmanAssembly
     * ZSTD_d_maxBlockSize
     * Because they are not stable, it's necessary to define ZSTD_STATIC_LINKING_ONLY to access them.
     * note : never ever use experimentalParam? names directly
     */
     ZSTD_d_experimentalParam1=1000,
     ZSTD_d_experimentalParam2=1001,
     ZSTD_d_experimentalParam3=1002,
     ZSTD_d_experimentalParam4=1003,
     ZSTD_d_experimentalParam5=1004,
     ZSTD_d_experimentalParam6=1005

} ZSTD_dParameter;

/*! ZSTD_dParam_getBounds() :
 *  All parameters must belong to an interval with lower and upper bounds,
 *  otherwise they will either trigger an error or be automatically clamped.
 * @return : a structure, ZSTD_bounds, which contains
 *         - an error status field, which must be tested using ZSTD_isError()
 *         - both lower and upper bounds, inclusive
 */
ZSTDLIB_API ZSTD_bounds ZSTD_dParam_getBounds(ZSTD_dParameter dParam);

/*! ZSTD_DCtx_setParameter() :
 *  Set one compression parameter, selected by enum ZSTD_dParameter.
 *  All parameters have valid bounds. Bounds can be queried using ZSTD_dParam_getBounds().
 *  Providing a value beyond bound will either clamp it, or trigger an error (depending on parameter).
 *  Setting a parameter is only possible during frame initialization (before starting decompression).
 * @return : 0, or an error code (which can be tested using ZSTD_isError()).
 */
ZSTDLIB_API size_t ZSTD_DCtx_setParameter(ZSTD_DCtx* dctx, ZSTD_dParameter param, int value);

/*! ZSTD_DCtx_reset() :
 *  Return a DCtx to clean state.
 *  Session and parameters can be reset jointly or separately.
 *  Parameters can only be reset when no active frame is being decompressed.
 * @return : 0, or an error code, which can be tested with ZSTD_isError()
 */
ZSTDLIB_API size_t ZSTD_DCtx_reset(ZSTD_DCtx* dctx, ZSTD_ResetDirective reset);


/****************************
*  Streaming
****************************/

typedef struct ZSTD_inBuffer_s {
  const void* src;    /**< start of input buffer */
  size_t size;        /**< size of input buffer */
  size_t pos;         /**< position where reading stopped. Will be updated. Necessarily 0 <= pos <= size */
} ZSTD_inBuffer;

typedef struct ZSTD_outBuffer_s {
  void*  dst;         /**< start of output buffer */
  size_t size;        /**< size of output buffer */
  size_t pos;         /**< position where writing stopped. Will be updated. Necessarily 0 <= pos <= size */
} ZSTD_outBuffer;



/*-***********************************************************************
*  Streaming compression - HowTo
*
*  A ZSTD_CStream object is required to track streaming operation.
*  Use ZSTD_createCStream() and ZSTD_freeCStream() to create/release resources.
*  ZSTD_CStream objects can be reused multiple times on consecutive compression operations.
*  It is recommended to reuse ZSTD_CStream since it will play nicer with system's memory, by re-using already allocated memory.
*
*  For parallel execution, use one separate ZSTD_CStream per thread.
*
*  note : since v1.3.0, ZSTD_CStream and ZSTD_CCtx are the same thing.
*
*  Parameters are sticky : when starting a new compression on the same context,
*  it will reuse the same sticky parameters as previous compression session.
*  When in doubt, it's recommended to fully initialize the context before usage.
*  Use ZSTD_CCtx_reset() to reset the context and ZSTD_CCtx_setParameter(),
*  ZSTD_CCtx_setPledgedSrcSize(), or ZSTD_CCtx_loadDictionary() and friends to
*  set more specific parameters, the pledged source size, or load a dictionary.
*
*  Use ZSTD_compressStream2() with ZSTD_e_continue as many times as necessary to
*  consume input stream. The function will automatically update both `pos`
*  fields within `input` and `output`.
*  Note that the function may not consume the entire input, for example, because
*  the output buffer is already full, in which case `input.pos < input.size`.
*  The caller must check if input has been entirely consumed.
*  If not, the caller must make some room to receive more compressed data,
*  and then present again remaining input data.
*  note: ZSTD_e_continue is guaranteed to make some forward progress when called,
*        but doesn't guarantee maximal forward progress. This is especially relevant
*        when compressing with multiple threads. The call won't block if it can
*        consume some input, but if it can't it will wait for some, but not all,
*        output to be flushed.
* @return : provides a minimum amount of data remaining to be flushed from internal buffers
*           or an error code, which can be tested using ZSTD_isError().
*
*  At any moment, it's possible to flush whatever data might remain stuck within internal buffer,
*  using ZSTD_compressStream2() with ZSTD_e_flush. `output->pos` will be updated.
*  Note that, if `output->size` is too small, a single invocation with ZSTD_e_flush might not be enough (return code > 0).
*  In which case, make some room to receive more compressed data, and call again ZSTD_compressStream2() with ZSTD_e_flush.
*  You must continue calling ZSTD_compressStream2() with ZSTD_e_flush until it returns 0, at which point you can change the
*  operation.
*  note: ZSTD_e_flush will flush as much output as possible, meaning when compressing with multiple threads, it will
*        block until the flush is complete or the output buffer is full.
*  @return : 0 if internal buffers are entirely flushed,
*            >0 if some data still present within internal buffer (the value is minimal estimation of remaining size),
*            or an error code, which can be tested using ZSTD_isError().
*
*  Calling ZSTD_compressStream2() with ZSTD_e_end instructs to finish a frame.
*  It will perform a flush and write frame epilogue.
*  The epilogue is required for decoders to consider a frame completed.
*  flush operation is the same, and follows same rules as calling ZSTD_compressStream2() with ZSTD_e_flush.
*  You must continue calling ZSTD_compressStream2() with ZSTD_e_end until it returns 0, at which point you are free to
*  start a new frame.
*  note: ZSTD_e_end will flush as much output as possible, meaning when compressing with multiple threads, it will
*        block until the flush is complete or the output buffer is full.
*  @return : 0 if frame fully completed and fully flushed,
*            >0 if some data still present within internal buffer (the value is minimal estimation of remaining size),
*            or an error code, which can be tested using ZSTD_isError().
*
* *******************************************************************/

typedef ZSTD_CCtx ZSTD_CStream;  /**< CCtx and CStream are now effectively same object (>= v1.3.0) */
                                 /* Continue to distinguish them for compatibility with older versions <= v1.2.0 */
/*===== ZSTD_CStream management functions =====*/
ZSTDLIB_API ZSTD_CStream* ZSTD_createCStream(void);
ZSTDLIB_API size_t ZSTD_freeCStream(ZSTD_CStream* zcs);  /* accept NULL pointer */

/*===== Streaming compression functions =====*/
typedef enum {
    ZSTD_e_continue=0, /* collect more data, encoder decides when to output compressed result, for optimal compression ratio */
    ZSTD_e_flush=1,    /* flush any data provided so far,
                        * it creates (at least) one new block, that can be decoded immediately on reception;
                        * frame will continue: any future data can still reference previously compressed data, improving compression.
                        * note : multithreaded compression will block to flush as much output as possible. */
    ZSTD_e_end=2       /* flush any remaining data _and_ close current frame.
                        * note that frame is only closed after compressed data is fully flushed (return value == 0).
                        * After that point, any additional data starts a new frame.
                        * note : each frame is independent (does not reference any content from previous frame).
                        : note : multithreaded compression will block to flush as much output as possible. */
} ZSTD_EndDirective;

/*! ZSTD_compressStream2() : Requires v1.4.0+
 *  Behaves about the same as ZSTD_compressStream, with additional control on end directive.
 *  - Compression parameters are pushed into CCtx before starting compression, using ZSTD_CCtx_set*()
 *  - Compression parameters cannot be changed once compression is started (save a list of exceptions in multi-threading mode)
 *  - output->pos must be <= dstCapacity, input->pos must be <= srcSize
 *  - output->pos and input->pos will be updated. They are guaranteed to remain below their respective limit.
 *  - endOp must be a valid directive
 *  - When nbWorkers==0 (default), function is blocking : it completes its job before returning to caller.
 *  - When nbWorkers>=1, function is non-blocking : it copies a portion of input, distributes jobs to internal worker threads, flush to output whatever is available,
 *                                                  and then immediately returns, just indicating that there is some data remaining to be flushed.
 *                                                  The function nonetheless guarantees forward progress : it will return only after it reads or write at least 1+ byte.
 *  - Exception : if the first call requests a ZSTD_e_end directive and provides enough dstCapacity, the function delegates to ZSTD_compress2() which is always blocking.
 *  - @return provides a minimum amount of data remaining to be flushed from internal buffers
 *            or an error code, which can be tested using ZSTD_isError().
 *            if @return != 0, flush is not fully completed, there is still some data left within internal buffers.
 *            This is useful for ZSTD_e_flush, since in this case more flushes are necessary to empty all buffers.
 *            For ZSTD_e_end, @return == 0 when internal buffers are fully flushed and frame is completed.
 *  - after a ZSTD_e_end directive, if internal buffer is not fully flushed (@return != 0),
 *            only ZSTD_e_end or ZSTD_e_flush operations are allowed.
 *            Before starting a new compression job, or changing compression parameters,
 *            it is required to fully flush internal buffers.
 *  - note: if an operation ends with an error, it may leave @cctx in an undefined state.
 *          Therefore, it's UB to invoke ZSTD_compressStream2() of ZSTD_compressStream() on such a state.
 *          In order to be re-employed after an error, a state must be reset,
 *          which can be done explicitly (ZSTD_CCtx_reset()),
 *          or is sometimes implied by methods starting a new compression job (ZSTD_initCStream(), ZSTD_compressCCtx())
 */
ZSTDLIB_API size_t ZSTD_compressStream2( ZSTD_CCtx* cctx,
                                         ZSTD_outBuffer* output,
                                         ZSTD_inBuffer* input,
                                         ZSTD_EndDirective endOp);


/* These buffer sizes are softly recommended.
 * They are not required : ZSTD_compressStream*() happily accepts any buffer size, for both input and output.
 * Respecting the recommended size just makes it a bit easier for ZSTD_compressStream*(),
 * reducing the amount of memory shuffling and buffering, resulting in minor performance savings.
 *
 * However, note that these recommendations are from the perspective of a C caller program.
 * If the streaming interface is invoked from some other language,
 * especially managed ones such as Java or Go, through a foreign function interface such as jni or cgo,
 * a major performance rule is to reduce crossing such interface to an absolute minimum.
 * It's not rare that performance ends being spent more into the interface, rather than compression itself.
 * In which cases, prefer using large buffers, as large as practical,
 * for both input and output, to reduce the nb of roundtrips.
 */
ZSTDLIB_API size_t ZSTD_CStreamInSize(void);    /**< recommended size for input buffer */
ZSTDLIB_API size_t ZSTD_CStreamOutSize(void);   /**< recommended size for output buffer. Guarantee to successfully flush at least one complete compressed block. */


/* *****************************************************************************
 * This following is a legacy streaming API, available since v1.0+ .
 * It can be replaced by ZSTD_CCtx_reset() and ZSTD_compressStream2().
 * It is redundant, but remains fully supported.
 ******************************************************************************/

/*!
 * Equivalent to:
 *
 *     ZSTD_CCtx_reset(zcs, ZSTD_reset_session_only);
 *     ZSTD_CCtx_refCDict(zcs, NULL); // clear the dictionary (if any)
 *     ZSTD_CCtx_setParameter(zcs, ZSTD_c_compressionLevel, compressionLevel);
 *
 * Note that ZSTD_initCStream() clears any previously set dictionary. Use the new API
 * to compress with a dictionary.
 */
ZSTDLIB_API size_t ZSTD_initCStream(ZSTD_CStream* zcs, int compressionLevel);
/*!
 * Alternative for ZSTD_compressStream2(zcs, output, input, ZSTD_e_continue).
 * NOTE: The return value is different. ZSTD_compressStream() returns a hint for
 * the next read size (if non-zero and not an error). ZSTD_compressStream2()
 * returns the minimum nb of bytes left to flush (if non-zero and not an error).
 */
ZSTDLIB_API size_t ZSTD_compressStream(ZSTD_CStream* zcs, ZSTD_outBuffer* output, ZSTD_inBuffer* input);
/*! Equivalent to ZSTD_compressStream2(zcs, output, &emptyInput, ZSTD_e_flush). */
ZSTDLIB_API size_t ZSTD_flushStream(ZSTD_CStream* zcs, ZSTD_outBuffer* output);
/*! Equivalent to ZSTD_compressStream2(zcs, output, &emptyInput, ZSTD_e_end). */
ZSTDLIB_API size_t ZSTD_endStream(ZSTD_CStream* zcs, ZSTD_outBuffer* output);


/*-***************************************************************************
*  Streaming decompression - HowTo
*
*  A ZSTD_DStream object is required to track streaming operations.
*  Use ZSTD_createDStream() and ZSTD_freeDStream() to create/release resources.
*  ZSTD_DStream objects can be re-employed multiple times.
*
*  Use ZSTD_initDStream() to start a new decompression operation.
* @return : recommended first input size
*  Alternatively, use advanced API to set specific properties.
*
*  Use ZSTD_decompressStream() repetitively to consume your input.
*  The function will update both `pos` fields.
*  If `input.pos < input.size`, some input has not been consumed.
*  It's up to the caller to present again remaining data.
*
*  The function tries to flush all data decoded immediately, respecting output buffer size.
*  If `output.pos < output.size`, decoder has flushed everything it could.
*
*  However, when `output.pos == output.size`, it's more difficult to know.
*  If @return > 0, the frame is not complete, meaning
*  either there is still some data left to flush within internal buffers,
*  or there is more input to read to complete the frame (or both).
*  In which case, call ZSTD_decompressStream() again to flush whatever remains in the buffer.
*  Note : with no additional input provided, amount of data flushed is necessarily <= ZSTD_BLOCKSIZE_MAX.
* @return : 0 when a frame is completely decoded and fully flushed,
*        or an error code, which can be tested using ZSTD_isError(),
*        or any other value > 0, which means there is still some decoding or flushing to do to complete current frame :
*                                the return value is a suggested next input size (just a hint for better latency)
*                                that will never request more than the remaining content of the compressed frame.
* *******************************************************************************/

typedef ZSTD_DCtx ZSTD_DStream;  /**< DCtx and DStream are now effectively same object (>= v1.3.0) */
                                 /* For compatibility with versions <= v1.2.0, prefer differentiating them. */
/*===== ZSTD_DStream management functions =====*/
ZSTDLIB_API ZSTD_DStream* ZSTD_createDStream(void);
ZSTDLIB_API size_t ZSTD_freeDStream(ZSTD_DStream* zds);  /* accept NULL pointer */

/*===== Streaming decompression functions =====*/

/*! ZSTD_initDStream() :
 * Initialize/reset DStream state for new decompression operation.
 * Call before new decompression operation using same DStream.
 *
 * Note : This function is redundant with the advanced API and equivalent to:
 *     ZSTD_DCtx_reset(zds, ZSTD_reset_session_only);
 *     ZSTD_DCtx_refDDict(zds, NULL);
 */
ZSTDLIB_API size_t ZSTD_initDStream(ZSTD_DStream* zds);

/*! ZSTD_decompressStream() :
 * Streaming decompression function.
 * Call repetitively to consume full input updating it as necessary.
 * Function will update both input and output `pos` fields exposing current state via these fields:
 * - `input.pos < input.size`, some input remaining and caller should provide remaining input
 *   on the next call.
 * - `output.pos < output.size`, decoder flushed internal output buffer.
 * - `output.pos == output.size`, unflushed data potentially present in the internal buffers,
 *   check ZSTD_decompressStream() @return value,
 *   if > 0, invoke it again to flush remaining data to output.
 * Note : with no additional input, amount of data flushed <= ZSTD_BLOCKSIZE_MAX.
 *
 * @return : 0 when a frame is completely decoded and fully flushed,
 *           or an error code, which can be tested using ZSTD_isError(),
 *           or any other value > 0, which means there is some decoding or flushing to do to complete current frame.
 *
 * Note: when an operation returns with an error code, the @zds state may be left in undefined state.
 *       It's UB to invoke `ZSTD_decompressStream()` on such a state.
 *       In order to re-use such a state, it must be first reset,
 *       which can be done explicitly (`ZSTD_DCtx_reset()`),
 *       or is implied for operations starting some new decompression job (`ZSTD_initDStream`, `ZSTD_decompressDCtx()`, `ZSTD_decompress_usingDict()`)
 */
ZSTDLIB_API size_t ZSTD_decompressStream(ZSTD_DStream* zds, ZSTD_outBuffer* output, ZSTD_inBuffer* input);

ZSTDLIB_API size_t ZSTD_DStreamInSize(void);    /*!< recommended size for input buffer */
ZSTDLIB_API size_t ZSTD_DStreamOutSize(void);   /*!< recommended size for output buffer. Guarantee to successfully flush at least one complete block in all circumstances. */


/**************************
*  Simple dictionary API
***************************/
/*! ZSTD_compress_usingDict() :
 *  Compression at an explicit compression level using a Dictionary.
 *  A dictionary can be any arbitrary data segment (also called a prefix),
 *  or a buffer with specified information (see zdict.h).
 *  Note : This function loads the dictionary, resulting in significant startup delay.
 *         It's intended for a dictionary used only once.
 *  Note 2 : When `dict == NULL || dictSize < 8` no dictionary is used. */
ZSTDLIB_API size_t ZSTD_compress_usingDict(ZSTD_CCtx* ctx,
                                           void* dst, size_t dstCapacity,
                                     const void* src, size_t srcSize,
                                     const void* dict,size_t dictSize,
                                           int compressionLevel);

/*! ZSTD_decompress_usingDict() :
 *  Decompression using a known Dictionary.
 *  Dictionary must be identical to the one used during compression.
 *  Note : This function loads the dictionary, resulting in significant startup delay.
 *         It's intended for a dictionary used only once.
 *  Note : When `dict == NULL || dictSize < 8` no dictionary is used. */
ZSTDLIB_API size_t ZSTD_decompress_usingDict(ZSTD_DCtx* dctx,
                                             void* dst, size_t dstCapacity,
                                       const void* src, size_t srcSize,
                                       const void* dict,size_t dictSize);


/***********************************
 *  Bulk processing dictionary API
 **********************************/
typedef struct ZSTD_CDict_s ZSTD_CDict;

/*! ZSTD_createCDict() :
 *  When compressing multiple messages or blocks using the same dictionary,
 *  it's recommended to digest the dictionary only once, since it's a costly operation.
 *  ZSTD_createCDict() will create a state from digesting a dictionary.
 *  The resulting state can be used for future compression operations with very limited startup cost.
 *  ZSTD_CDict can be created once and shared by multiple threads concurrently, since its usage is read-only.
 * @dictBuffer can be released after ZSTD_CDict creation, because its content is copied within CDict.
 *  Note 1 : Consider experimental function `ZSTD_createCDict_byReference()` if you prefer to not duplicate @dictBuffer content.
 *  Note 2 : A ZSTD_CDict can be created from an empty @dictBuffer,
 *      in which case the only thing that it transports is the @compressionLevel.
 *      This can be useful in a pipeline featuring ZSTD_compress_usingCDict() exclusively,
 *      expecting a ZSTD_CDict parameter with any data, including those without a known dictionary. */
ZSTDLIB_API ZSTD_CDict* ZSTD_createCDict(const void* dictBuffer, size_t dictSize,
                                         int compressionLevel);

/*! ZSTD_freeCDict() :
 *  Function frees memory allocated by ZSTD_createCDict().
 *  If a NULL pointer is passed, no operation is performed. */
ZSTDLIB_API size_t      ZSTD_freeCDict(ZSTD_CDict* CDict);

/*! ZSTD_compress_usingCDict() :
 *  Compression using a digested Dictionary.
 *  Recommended when same dictionary is used multiple times.
 *  Note : compression level is _decided at dictionary creation time_,
 *     and frame parameters are hardcoded (dictID=yes, contentSize=yes, checksum=no) */
ZSTDLIB_API size_t ZSTD_compress_usingCDict(ZSTD_CCtx* cctx,
                                            void* dst, size_t dstCapacity,
                                      const void* src, size_t srcSize,
                                      const ZSTD_CDict* cdict);


typedef struct ZSTD_DDict_s ZSTD_DDict;

/*! ZSTD_createDDict() :
 *  Create a digested dictionary, ready to start decompression operation without startup delay.
 *  dictBuffer can be released after DDict creation, as its content is copied inside DDict. */
ZSTDLIB_API ZSTD_DDict* ZSTD_createDDict(const void* dictBuffer, size_t dictSize);

/*! ZSTD_freeDDict() :
 *  Function frees memory allocated with ZSTD_createDDict()
 *  If a NULL pointer is passed, no operation is performed. */
ZSTDLIB_API size_t      ZSTD_freeDDict(ZSTD_DDict* ddict);

/*! ZSTD_decompress_usingDDict() :
 *  Decompression using a digested Dictionary.
 *  Recommended when same dictionary is used multiple times. */
ZSTDLIB_API size_t ZSTD_decompress_usingDDict(ZSTD_DCtx* dctx,
                                              void* dst, size_t dstCapacity,
                                        const void* src, size_t srcSize,
                                        const ZSTD_DDict* ddict);


/********************************
 *  Dictionary helper functions
 *******************************/

/*! ZSTD_getDictID_fromDict() : Requires v1.4.0+
 *  Provides the dictID stored within dictionary.
 *  if @return == 0, the dictionary is not conformant with Zstandard specification.
 *  It can still be loaded, but as a content-only dictionary. */
ZSTDLIB_API unsigned ZSTD_getDictID_fromDict(const void* dict, size_t dictSize);

/*! ZSTD_getDictID_fromCDict() : Requires v1.5.0+
 *  Provides the dictID of the dictionary loaded into `cdict`.
 *  If @return == 0, the dictionary is not conformant to Zstandard specification, or empty.
 *  Non-conformant dictionaries can still be loaded, but as content-only dictionaries. */
ZSTDLIB_API unsigned ZSTD_getDictID_fromCDict(const ZSTD_CDict* cdict);

/*! ZSTD_getDictID_fromDDict() : Requires v1.4.0+
 *  Provides the dictID of the dictionary loaded into `ddict`.
 *  If @return == 0, the dictionary is not conformant to Zstandard specification, or empty.
 *  Non-conformant dictionaries can still be loaded, but as content-only dictionaries. */
ZSTDLIB_API unsigned ZSTD_getDictID_fromDDict(const ZSTD_DDict* ddict);

/*! ZSTD_getDictID_fromFrame() : Requires v1.4.0+
 *  Provides the dictID required to decompressed the frame stored within `src`.
 *  If @return == 0, the dictID could not be decoded.
 *  This could for one of the following reasons :
 *  - The frame does not require a dictionary to be decoded (most common case).
 *  - The frame was built with dictID intentionally removed. Whatever dictionary is necessary is a hidden piece of information.
 *    Note : this use case also happens when using a non-conformant dictionary.
 *  - `srcSize` is too small, and as a result, the frame header could not be decoded (only possible if `srcSize < ZSTD_FRAMEHEADERSIZE_MAX`).
 *  - This is not a Zstandard frame.
 *  When identifying the exact failure cause, it's possible to use ZSTD_getFrameHeader(), which will provide a more precise error code. */
ZSTDLIB_API unsigned ZSTD_getDictID_fromFrame(const void* src, size_t srcSize);


/*******************************************************************************
 * Advanced dictionary and prefix API (Requires v1.4.0+)
 *
 * This API allows dictionaries to be used with ZSTD_compress2(),
 * ZSTD_compressStream2(), and ZSTD_decompressDCtx().
 * Dictionaries are sticky, they remain valid when same context is reused,
 * they only reset when the context is reset
 * with ZSTD_reset_parameters or ZSTD_reset_session_and_parameters.
 * In contrast, Prefixes are single-use.
 ******************************************************************************/


/*! ZSTD_CCtx_loadDictionary() : Requires v1.4.0+
 *  Create an internal CDict from `dict` buffer.
 *  Decompression will have to use same dictionary.
 * @result : 0, or an error code (which can be tested with ZSTD_isError()).
 *  Special: Loading a NULL (or 0-size) dictionary invalidates previous dictionary,
 *           meaning "return to no-dictionary mode".
 *  Note 1 : Dictionary is sticky, it will be used for all future compressed frames,
 *           until parameters are reset, a new dictionary is loaded, or the dictionary
 *           is explicitly invalidated by loading a NULL dictionary.
 *  Note 2 : Loading a dictionary involves building tables.
 *           It's also a CPU consuming operation, with non-negligible impact on latency.
 *           Tables are dependent on compression parameters, and for this reason,
 *           compression parameters can no longer be changed after loading a dictionary.
 *  Note 3 :`dict` content will be copied internally.
 *           Use experimental ZSTD_CCtx_loadDictionary_byReference() to reference content instead.
 *           In such a case, dictionary buffer must outlive its users.
 *  Note 4 : Use ZSTD_CCtx_loadDictionary_advanced()
 *           to precisely select how dictionary content must be interpreted.
 *  Note 5 : This method does not benefit from LDM (long distance mode).
 *           If you want to employ LDM on some large dictionary content,
 *           prefer employing ZSTD_CCtx_refPrefix() described below.
 */
ZSTDLIB_API size_t ZSTD_CCtx_loadDictionary(ZSTD_CCtx* cctx, const void* dict, size_t dictSize);

/*! ZSTD_CCtx_refCDict() : Requires v1.4.0+
 *  Reference a prepared dictionary, to be used for all future compressed frames.
 *  Note that compression parameters are enforced from within CDict,
 *  and supersede any compression parameter previously set within CCtx.
 *  The parameters ignored are labelled as "superseded-by-cdict" in the ZSTD_cParameter enum docs.
 *  The ignored parameters will be used again if the CCtx is returned to no-dictionary mode.
 *  The dictionary will remain valid for future compressed frames using same CCtx.
 * @result : 0, or an error code (which can be tested with ZSTD_isError()).
 *  Special : Referencing a NULL CDict means "return to no-dictionary mode".
 *  Note 1 : Currently, only one dictionary can be managed.
 *           Referencing a new dictionary effectively "discards" any previous one.
 *  Note 2 : CDict is just referenced, its lifetime must outlive its usage within CCtx. */
ZSTDLIB_API size_t ZSTD_CCtx_refCDict(ZSTD_CCtx* cctx, const ZSTD_CDict* cdict);

/*! ZSTD_CCtx_refPrefix() : Requires v1.4.0+
 *  Reference a prefix (single-usage dictionary) for next compressed frame.
 *  A prefix is **only used once**. Tables are discarded at end of frame (ZSTD_e_end).
 *  Decompression will need same prefix to properly regenerate data.
 *  Compressing with a prefix is similar in outcome as performing a diff and compressing it,
 *  but performs much faster, especially during decompression (compression speed is tunable with compression level).
 *  This method is compatible with LDM (long distance mode).
 * @result : 0, or an error code (which can be tested with ZSTD_isError()).
 *  Special: Adding any prefix (including NULL) invalidates any previous prefix or dictionary
 *  Note 1 : Prefix buffer is referenced. It **must** outlive compression.
 *           Its content must remain unmodified during compression.
 *  Note 2 : If the intention is to diff some large src data blob with some prior version of itself,
 *           ensure that the window size is large enough to contain the entire source.
 *           See ZSTD_c_windowLog.
 *  Note 3 : Referencing a prefix involves building tables, which are dependent on compression parameters.
 *           It's a CPU consuming operation, with non-negligible impact on latency.
 *           If there is a need to use the same prefix multiple times, consider loadDictionary instead.
 *  Note 4 : By default, the prefix is interpreted as raw content (ZSTD_dct_rawContent).
 *           Use experimental ZSTD_CCtx_refPrefix_advanced() to alter dictionary interpretation. */
ZSTDLIB_API size_t ZSTD_CCtx_refPrefix(ZSTD_CCtx* cctx,
                                 const void* prefix, size_t prefixSize);

/*! ZSTD_DCtx_loadDictionary() : Requires v1.4.0+
 *  Create an internal DDict from dict buffer, to be used to decompress all future frames.
 *  The dictionary remains valid for all future frames, until explicitly invalidated, or
 *  a new dictionary is loaded.
 * @result : 0, or an error code (which can be tested with ZSTD_isError()).
 *  Special : Adding a NULL (or 0-size) dictionary invalidates any previous dictionary,
 *            meaning "return to no-dictionary mode".
 *  Note 1 : Loading a dictionary involves building tables,
 *           which has a non-negligible impact on CPU usage and latency.
 *           It's recommended to "load once, use many times", to amortize the cost
 *  Note 2 :`dict` content will be copied internally, so `dict` can be released after loading.
 *           Use ZSTD_DCtx_loadDictionary_byReference() to reference dictionary content instead.
 *  Note 3 : Use ZSTD_DCtx_loadDictionary_advanced() to take control of
 *           how dictionary content is loaded and interpreted.
 */
ZSTDLIB_API size_t ZSTD_DCtx_loadDictionary(ZSTD_DCtx* dctx, const void* dict, size_t dictSize);

/*! ZSTD_DCtx_refDDict() : Requires v1.4.0+
 *  Reference a prepared dictionary, to be used to decompress next frames.
 *  The dictionary remains active for decompression of future frames using same DCtx.
 *
 *  If called with ZSTD_d_refMultipleDDicts enabled, repeated calls of this function
 *  will store the DDict references in a table, and the DDict used for decompression
 *  will be determined at decompression time, as per the dict ID in the frame.
 *  The memory for the table is allocated on the first call to refDDict, and can be
 *  freed with ZSTD_freeDCtx().
 *
 *  If called with ZSTD_d_refMultipleDDicts disabled (the default), only one dictionary
 *  will be managed, and referencing a dictionary effectively "discards" any previous one.
 *
 * @result : 0, or an error code (which can be tested with ZSTD_isError()).
 *  Special: referencing a NULL DDict means "return to no-dictionary mode".
 *  Note 2 : DDict is just referenced, its lifetime must outlive its usage from DCtx.
 */
ZSTDLIB_API size_t ZSTD_DCtx_refDDict(ZSTD_DCtx* dctx, const ZSTD_DDict* ddict);

/*! ZSTD_DCtx_refPrefix() : Requires v1.4.0+
 *  Reference a prefix (single-usage dictionary) to decompress next frame.
 *  This is the reverse operation of ZSTD_CCtx_refPrefix(),
 *  and must use the same prefix as the one used during compression.
 *  Prefix is **only used once**. Reference is discarded at end of frame.
 *  End of frame is reached when ZSTD_decompressStream() returns 0.
 * @result : 0, or an error code (which can be tested with ZSTD_isError()).
 *  Note 1 : Adding any prefix (including NULL) invalidates any previously set prefix or dictionary
 *  Note 2 : Prefix buffer is referenced. It **must** outlive decompression.
 *           Prefix buffer must remain unmodified up to the end of frame,
 *           reached when ZSTD_decompressStream() returns 0.
 *  Note 3 : By default, the prefix is treated as raw content (ZSTD_dct_rawContent).
 *           Use ZSTD_CCtx_refPrefix_advanced() to alter dictMode (Experimental section)
 *  Note 4 : Referencing a raw content prefix has almost no cpu nor memory cost.
 *           A full dictionary is more costly, as it requires building tables.
 */
ZSTDLIB_API size_t ZSTD_DCtx_refPrefix(ZSTD_DCtx* dctx,
                                 const void* prefix, size_t prefixSize);

/* ===   Memory management   === */

/*! ZSTD_sizeof_*() : Requires v1.4.0+
 *  These functions give the _current_ memory usage of selected object.
 *  Note that object memory usage can evolve (increase or decrease) over time. */
ZSTDLIB_API size_t ZSTD_sizeof_CCtx(const ZSTD_CCtx* cctx);
ZSTDLIB_API size_t ZSTD_sizeof_DCtx(const ZSTD_DCtx* dctx);
ZSTDLIB_API size_t ZSTD_sizeof_CStream(const ZSTD_CStream* zcs);
ZSTDLIB_API size_t ZSTD_sizeof_DStream(const ZSTD_DStream* zds);
ZSTDLIB_API size_t ZSTD_sizeof_CDict(const ZSTD_CDict* cdict);
ZSTDLIB_API size_t ZSTD_sizeof_DDict(const ZSTD_DDict* ddict);

#if defined (__cplusplus)
}
#endif

#endif  /* ZSTD_H_235446 */


/* **************************************************************************************
 *   ADVANCED AND EXPERIMENTAL FUNCTIONS
 ****************************************************************************************
 * The definitions in the following section are considered experimental.
 * They are provided for advanced scenarios.
 * They should never be used with a dynamic library, as prototypes may change in the future.
 * Use them only in association with static linking.
 * ***************************************************************************************/

#if defined(ZSTD_STATIC_LINKING_ONLY) && !defined(ZSTD_H_ZSTD_STATIC_LINKING_ONLY)
#define ZSTD_H_ZSTD_STATIC_LINKING_ONLY

#if defined (__cplusplus)
extern "C" {
#endif

/* This can be overridden externally to hide static symbols. */
#ifndef ZSTDLIB_STATIC_API
#  if defined(ZSTD_DLL_EXPORT) && (ZSTD_DLL_EXPORT==1)
#    define ZSTDLIB_STATIC_API __declspec(dllexport) ZSTDLIB_VISIBLE
#  elif defined(ZSTD_DLL_IMPORT) && (ZSTD_DLL_IMPORT==1)
#    define ZSTDLIB_STATIC_API __declspec(dllimport) ZSTDLIB_VISIBLE
#  else
#    define ZSTDLIB_STATIC_API ZSTDLIB_VISIBLE
#  endif
#endif

/****************************************************************************************
 *   experimental API (static linking only)
 ****************************************************************************************
 * The following symbols and constants
 * are not planned to join "stable API" status in the near future.
 * They can still change in future versions.
 * Some of them are planned to remain in the static_only section indefinitely.
 * Some of them might be removed in the future (especially when redundant with existing stable functions)
 * ***************************************************************************************/

#define ZSTD_FRAMEHEADERSIZE_PREFIX(format) ((format) == ZSTD_f_zstd1 ? 5 : 1)   /* minimum input size required to query frame header size */
#define ZSTD_FRAMEHEADERSIZE_MIN(format)    ((format) == ZSTD_f_zstd1 ? 6 : 2)
#define ZSTD_FRAMEHEADERSIZE_MAX   18   /* can be useful for static allocation */
#define ZSTD_SKIPPABLEHEADERSIZE    8

/* compression parameter bounds */
#define ZSTD_WINDOWLOG_MAX_32    30
#define ZSTD_WINDOWLOG_MAX_64    31
#define ZSTD_WINDOWLOG_MAX     ((int)(sizeof(size_t) == 4 ? ZSTD_WINDOWLOG_MAX_32 : ZSTD_WINDOWLOG_MAX_64))
#define ZSTD_WINDOWLOG_MIN       10
#define ZSTD_HASHLOG_MAX       ((ZSTD_WINDOWLOG_MAX < 30) ? ZSTD_WINDOWLOG_MAX : 30)
#define ZSTD_HASHLOG_MIN          6
#define ZSTD_CHAINLOG_MAX_32     29
#define ZSTD_CHAINLOG_MAX_64     30
#define ZSTD_CHAINLOG_MAX      ((int)(sizeof(size_t) == 4 ? ZSTD_CHAINLOG_MAX_32 : ZSTD_CHAINLOG_MAX_64))
#define ZSTD_CHAINLOG_MIN        ZSTD_HASHLOG_MIN
#define ZSTD_SEARCHLOG_MAX      (ZSTD_WINDOWLOG_MAX-1)
#define ZSTD_SEARCHLOG_MIN        1
#define ZSTD_MINMATCH_MAX         7   /* only for ZSTD_fast, other strategies are limited to 6 */
#define ZSTD_MINMATCH_MIN         3   /* only for ZSTD_btopt+, faster strategies are limited to 4 */
#define ZSTD_TARGETLENGTH_MAX    ZSTD_BLOCKSIZE_MAX
#define ZSTD_TARGETLENGTH_MIN     0   /* note : comparing this constant to an unsigned results in a tautological test */
#define ZSTD_STRATEGY_MIN        ZSTD_fast
#define ZSTD_STRATEGY_MAX        ZSTD_btultra2
#define ZSTD_BLOCKSIZE_MAX_MIN (1 << 10) /* The minimum valid max blocksize. Maximum blocksizes smaller than this make compressBound() inaccurate. */


#define ZSTD_OVERLAPLOG_MIN       0
#define ZSTD_OVERLAPLOG_MAX       9

#define ZSTD_WINDOWLOG_LIMIT_DEFAULT 27   /* by default, the streaming decoder will refuse any frame
                                           * requiring larger than (1<<ZSTD_WINDOWLOG_LIMIT_DEFAULT) window size,
                                           * to preserve host's memory from unreasonable requirements.
                                           * This limit can be overridden using ZSTD_DCtx_setParameter(,ZSTD_d_windowLogMax,).
                                           * The limit does not apply for one-pass decoders (such as ZSTD_decompress()), since no additional memory is allocated */


/* LDM parameter bounds */
#define ZSTD_LDM_HASHLOG_MIN      ZSTD_HASHLOG_MIN
#define ZSTD_LDM_HASHLOG_MAX      ZSTD_HASHLOG_MAX
#define ZSTD_LDM_MINMATCH_MIN        4
#define ZSTD_LDM_MINMATCH_MAX     4096
#define ZSTD_LDM_BUCKETSIZELOG_MIN   1
#define ZSTD_LDM_BUCKETSIZELOG_MAX   8
#define ZSTD_LDM_HASHRATELOG_MIN     0
#define ZSTD_LDM_HASHRATELOG_MAX (ZSTD_WINDOWLOG_MAX - ZSTD_HASHLOG_MIN)

/* Advanced parameter bounds */
#define ZSTD_TARGETCBLOCKSIZE_MIN   1340 /* suitable to fit into an ethernet / wifi / 4G transport frame */
#define ZSTD_TARGETCBLOCKSIZE_MAX   ZSTD_BLOCKSIZE_MAX
#define ZSTD_SRCSIZEHINT_MIN        0
#define ZSTD_SRCSIZEHINT_MAX        INT_MAX


/* ---  Advanced types  --- */

typedef struct ZSTD_CCtx_params_s ZSTD_CCtx_params;

typedef struct {
    unsigned int offset;      /* The offset of the match. (NOT the same as the offset code)
                               * If offset == 0 and matchLength == 0, this sequence represents the last
                               * literals in the block of litLength size.
                               */

    unsigned int litLength;   /* Literal length of the sequence. */
    unsigned int matchLength; /* Match length of the sequence. */

                              /* Note: Users of this API may provide a sequence with matchLength == litLength == offset == 0.
                               * In this case, we will treat the sequence as a marker for a block boundary.
                               */

    unsigned int rep;         /* Represents which repeat offset is represented by the field 'offset'.
                               * Ranges from [0, 3].
                               *
                               * Repeat offsets are essentially previous offsets from previous sequences sorted in
                               * recency order. For more detail, see doc/zstd_compression_format.md
                               *
                               * If rep == 0, then 'offset' does not contain a repeat offset.
                               * If rep > 0:
                               *  If litLength != 0:
                               *      rep == 1 --> offset == repeat_offset_1
                               *      rep == 2 --> offset == repeat_offset_2
                               *      rep == 3 --> offset == repeat_offset_3
                               *  If litLength == 0:
                               *      rep == 1 --> offset == repeat_offset_2
                               *      rep == 2 --> offset == repeat_offset_3
                               *      rep == 3 --> offset == repeat_offset_1 - 1
                               *
                               * Note: This field is optional. ZSTD_generateSequences() will calculate the value of
                               * 'rep', but repeat offsets do not necessarily need to be calculated from an external
                               * sequence provider perspective. For example, ZSTD_compressSequences() does not
                               * use this 'rep' field at all (as of now).
                               */
} ZSTD_Sequence;

typedef struct {
    unsigned windowLog;       /**< largest match distance : larger == more compression, more memory needed during decompression */
    unsigned chainLog;        /**< fully searched segment : larger == more compression, slower, more memory (useless for fast) */
    unsigned hashLog;         /**< dispatch table : larger == faster, more memory */
    unsigned searchLog;       /**< nb of searches : larger == more compression, slower */
    unsigned minMatch;        /**< match length searched : larger == faster decompression, sometimes less compression */
    unsigned targetLength;    /**< acceptable match size for optimal parser (only) : larger == more compression, slower */
    ZSTD_strategy strategy;   /**< see ZSTD_strategy definition above */
} ZSTD_compressionParameters;

typedef struct {
    int contentSizeFlag; /**< 1: content size will be in frame header (when known) */
    int checksumFlag;    /**< 1: generate a 32-bits checksum using XXH64 algorithm at end of frame, for error detection */
    int noDictIDFlag;    /**< 1: no dictID will be saved into frame header (dictID is only useful for dictionary compression) */
} ZSTD_frameParameters;

typedef struct {
    ZSTD_compressionParameters cParams;
    ZSTD_frameParameters fParams;
} ZSTD_parameters;

typedef enum {
    ZSTD_dct_auto = 0,       /* dictionary is "full" when starting with ZSTD_MAGIC_DICTIONARY, otherwise it is "rawContent" */
    ZSTD_dct_rawContent = 1, /* ensures dictionary is always loaded as rawContent, even if it starts with ZSTD_MAGIC_DICTIONARY */
    ZSTD_dct_fullDict = 2    /* refuses to load a dictionary if it does not respect Zstandard's specification, starting with ZSTD_MAGIC_DICTIONARY */
} ZSTD_dictContentType_e;

typedef enum {
    ZSTD_dlm_byCopy = 0,  /**< Copy dictionary content internally */
    ZSTD_dlm_byRef = 1    /**< Reference dictionary content -- the dictionary buffer must outlive its users. */
} ZSTD_dictLoadMethod_e;

typedef enum {
    ZSTD_f_zstd1 = 0,           /* zstd frame format, specified in zstd_compression_format.md (default) */
    ZSTD_f_zstd1_magicless = 1  /* Variant of zstd frame format, without initial 4-bytes magic number.
                                 * Useful to save 4 bytes per generated frame.
                                 * Decoder cannot recognise automatically this format, requiring this instruction. */
} ZSTD_format_e;

typedef enum {
    /* Note: this enum controls ZSTD_d_forceIgnoreChecksum */
    ZSTD_d_validateChecksum = 0,
    ZSTD_d_ignoreChecksum = 1
} ZSTD_forceIgnoreChecksum_e;

typedef enum {
    /* Note: this enum controls ZSTD_d_refMultipleDDicts */
    ZSTD_rmd_refSingleDDict = 0,
    ZSTD_rmd_refMultipleDDicts = 1
} ZSTD_refMultipleDDicts_e;

typedef enum {
    /* Note: this enum and the behavior it controls are effectively internal
     * implementation details of the compressor. They are expected to continue
     * to evolve and should be considered only in the context of extremely
     * advanced performance tuning.
     *
     * Zstd currently supports the use of a CDict in three ways:
     *
     * - The contents of the CDict can be copied into the working context. This
     *   means that the compression can search both the dictionary and input
     *   while operating on a single set of internal tables. This makes
     *   the compression faster per-byte of input. However, the initial copy of
     *   the CDict's tables incurs a fixed cost at the beginning of the
     *   compression. For small compressions (< 8 KB), that copy can dominate
     *   the cost of the compression.
     *
     * - The CDict's tables can be used in-place. In this model, compression is
     *   slower per input byte, because the compressor has to search two sets of
     *   tables. However, this model incurs no start-up cost (as long as the
     *   working context's tables can be reused). For small inputs, this can be
     *   faster than copying the CDict's tables.
     *
     * - The CDict's tables are not used at all, and instead we use the working
     *   context alone to reload the dictionary and use params based on the source
     *   size. See ZSTD_compress_insertDictionary() and ZSTD_compress_usingDict().
     *   This method is effective when the dictionary sizes are very small relative
     *   to the input size, and the input size is fairly large to begin with.
     *
     * Zstd has a simple internal heuristic that selects which strategy to use
     * at the beginning of a compression. However, if experimentation shows that
     * Zstd is making poor choices, it is possible to override that choice with
     * this enum.
     */
    ZSTD_dictDefaultAttach = 0, /* Use the default heuristic. */
    ZSTD_dictForceAttach   = 1, /* Never copy the dictionary. */
    ZSTD_dictForceCopy     = 2, /* Always copy the dictionary. */
    ZSTD_dictForceLoad     = 3  /* Always reload the dictionary */
} ZSTD_dictAttachPref_e;

typedef enum {
  ZSTD_lcm_auto = 0,          /**< Automatically determine the compression mode based on the compression level.
                               *   Negative compression levels will be uncompressed, and positive compression
                               *   levels will be compressed. */
  ZSTD_lcm_huffman = 1,       /**< Always attempt Huffman compression. Uncompressed literals will still be
                               *   emitted if Huffman compression is not profitable. */
  ZSTD_lcm_uncompressed = 2   /**< Always emit uncompressed literals. */
} ZSTD_literalCompressionMode_e;

typedef enum {
  /* Note: This enum controls features which are conditionally beneficial.
   * Zstd can take a decision on whether or not to enable the feature (ZSTD_ps_auto),
   * but setting the switch to ZSTD_ps_enable or ZSTD_ps_disable force enable/disable the feature.
   */
  ZSTD_ps_auto = 0,         /* Let the library automatically determine whether the feature shall be enabled */
  ZSTD_ps_enable = 1,       /* Force-enable the feature */
  ZSTD_ps_disable = 2       /* Do not use the feature */
} ZSTD_ParamSwitch_e;
#define ZSTD_paramSwitch_e ZSTD_ParamSwitch_e  /* old name */

/***************************************
*  Frame header and size functions
***************************************/

/*! ZSTD_findDecompressedSize() :
 *  `src` should point to the start of a series of ZSTD encoded and/or skippable frames
 *  `srcSize` must be the _exact_ size of this series
 *       (i.e. there should be a frame boundary at `src + srcSize`)
 *  @return : - decompressed size of all data in all successive frames
 *            - if the decompressed size cannot be determined: ZSTD_CONTENTSIZE_UNKNOWN
 *            - if an error occurred: ZSTD_CONTENTSIZE_ERROR
 *
 *   note 1 : decompressed size is an optional field, that may not be present, especially in streaming mode.
 *            When `return==ZSTD_CONTENTSIZE_UNKNOWN`, data to decompress could be any size.
 *            In which case, it's necessary to use streaming mode to decompress data.
 *   note 2 : decompressed size is always present when compression is done with ZSTD_compress()
 *   note 3 : decompressed size can be very large (64-bits value),
 *            potentially larger than what local system can handle as a single memory segment.
 *            In which case, it's necessary to use streaming mode to decompress data.
 *   note 4 : If source is untrusted, decompressed size could be wrong or intentionally modified.
 *            Always ensure result fits within application's authorized limits.
 *            Each application can set its own limits.
 *   note 5 : ZSTD_findDecompressedSize handles multiple frames, and so it must traverse the input to
 *            read each contained frame header.  This is fast as most of the data is skipped,
 *            however it does mean that all frame data must be present and valid. */
ZSTDLIB_STATIC_API unsigned long long ZSTD_findDecompressedSize(const void* src, size_t srcSize);

/*! ZSTD_decompressBound() :
 *  `src` should point to the start of a series of ZSTD encoded and/or skippable frames
 *  `srcSize` must be the _exact_ size of this series
 *       (i.e. there should be a frame boundary at `src + srcSize`)
 *  @return : - upper-bound for the decompressed size of all data in all successive frames
 *            - if an error occurred: ZSTD_CONTENTSIZE_ERROR
 *
 *  note 1  : an error can occur if `src` contains an invalid or incorrectly formatted frame.
 *  note 2  : the upper-bound is exact when the decompressed size field is available in every ZSTD encoded frame of `src`.
 *            in this case, `ZSTD_findDecompressedSize` and `ZSTD_decompressBound` return the same value.
 *  note 3  : when the decompressed size field isn't available, the upper-bound for that frame is calculated by:
 *              upper-bound = # blocks * min(128 KB, Window_Size)
 */
ZSTDLIB_STATIC_API unsigned long long ZSTD_decompressBound(const void* src, size_t srcSize);

/*! ZSTD_frameHeaderSize() :
 *  srcSize must be large enough, aka >= ZSTD_FRAMEHEADERSIZE_PREFIX.
 * @return : size of the Frame Header,
 *           or an error code (if srcSize is too small) */
ZSTDLIB_STATIC_API size_t ZSTD_frameHeaderSize(const void* src, size_t srcSize);

typedef enum { ZSTD_frame, ZSTD_skippableFrame } ZSTD_FrameType_e;
#define ZSTD_frameType_e ZSTD_FrameType_e /* old name */
typedef struct {
    unsigned long long frameContentSize; /* if == ZSTD_CONTENTSIZE_UNKNOWN, it means this field is not available. 0 means "empty" */
    unsigned long long windowSize;       /* can be very large, up to <= frameContentSize */
    unsigned blockSizeMax;
    ZSTD_FrameType_e frameType;          /* if == ZSTD_skippableFrame, frameContentSize is the size of skippable content */
    unsigned headerSize;
    unsigned dictID;                     /* for ZSTD_skippableFrame, contains the skippable magic variant [0-15] */
    unsigned checksumFlag;
    unsigned _reserved1;
    unsigned _reserved2;
} ZSTD_FrameHeader;
#define ZSTD_frameHeader ZSTD_FrameHeader /* old name */

/*! ZSTD_getFrameHeader() :
 *  decode Frame Header into `zfhPtr`, or requires larger `srcSize`.
 * @return : 0 => header is complete, `zfhPtr` is correctly filled,
 *          >0 => `srcSize` is too small, @return value is the wanted `srcSize` amount, `zfhPtr` is not filled,
 *           or an error code, which can be tested using ZSTD_isError() */
ZSTDLIB_STATIC_API size_t ZSTD_getFrameHeader(ZSTD_FrameHeader* zfhPtr, const void* src, size_t srcSize);
/*! ZSTD_getFrameHeader_advanced() :
 *  same as ZSTD_getFrameHeader(),
 *  with added capability to select a format (like ZSTD_f_zstd1_magicless) */
ZSTDLIB_STATIC_API size_t ZSTD_getFrameHeader_advanced(ZSTD_FrameHeader* zfhPtr, const void* src, size_t srcSize, ZSTD_format_e format);

/*! ZSTD_decompressionMargin() :
 * Zstd supports in-place decompression, where the input and output buffers overlap.
 * In this case, the output buffer must be at least (Margin + Output_Size) bytes large,
 * and the input buffer must be at the end of the output buffer.
 *
 *  _______________________ Output Buffer ________________________
 * |                                                              |
 * |                                        ____ Input Buffer ____|
 * |                                       |                      |
 * v                                       v                      v
 * |---------------------------------------|-----------|----------|
 * ^                                                   ^          ^
 * |___________________ Output_Size ___________________|_ Margin _|
 *
 * NOTE: See also ZSTD_DECOMPRESSION_MARGIN().
 * NOTE: This applies only to single-pass decompression through ZSTD_decompress() or
 * ZSTD_decompressDCtx().
 * NOTE: This function supports multi-frame input.
 *
 * @param src The compressed frame(s)
 * @param srcSize The size of the compressed frame(s)
 * @returns The decompression margin or an error that can be checked with ZSTD_isError().
 */
ZSTDLIB_STATIC_API size_t ZSTD_decompressionMargin(const void* src, size_t srcSize);

/*! ZSTD_DECOMPRESS_MARGIN() :
 * Similar to ZSTD_decompressionMargin(), but instead of computing the margin from
 * the compressed frame, compute it from the original size and the blockSizeLog.
 * See ZSTD_decompressionMargin() for details.
 *
 * WARNING: This macro does not support multi-frame input, the input must be a single
 * zstd frame. If you need that support use the function, or implement it yourself.
 *
 * @param originalSize The original uncompressed size of the data.
 * @param blockSize    The block size == MIN(windowSize, ZSTD_BLOCKSIZE_MAX).
 *                     Unless you explicitly set the windowLog smaller than
 *                     ZSTD_BLOCKSIZELOG_MAX you can just use ZSTD_BLOCKSIZE_MAX.
 */
#define ZSTD_DECOMPRESSION_MARGIN(originalSize, blockSize) ((size_t)(                                              \
        ZSTD_FRAMEHEADERSIZE_MAX                                                              /* Frame header */ + \
        4                                                                                         /* checksum */ + \
        ((originalSize) == 0 ? 0 : 3 * (((originalSize) + (blockSize) - 1) / blockSize)) /* 3 bytes per block */ + \
        (blockSize)                                                                    /* One block of margin */   \
    ))

typedef enum {
  ZSTD_sf_noBlockDelimiters = 0,         /* ZSTD_Sequence[] has no block delimiters, just sequences */
  ZSTD_sf_explicitBlockDelimiters = 1    /* ZSTD_Sequence[] contains explicit block delimiters */
} ZSTD_SequenceFormat_e;
#define ZSTD_sequenceFormat_e ZSTD_SequenceFormat_e /* old name */

/*! ZSTD_sequenceBound() :
 * `srcSize` : size of the input buffer
 *  @return : upper-bound for the number of sequences that can be generated
 *            from a buffer of srcSize bytes
 *
 *  note : returns number of sequences - to get bytes, multiply by sizeof(ZSTD_Sequence).
 */
ZSTDLIB_STATIC_API size_t ZSTD_sequenceBound(size_t srcSize);

/*! ZSTD_generateSequences() :
 * WARNING: This function is meant for debugging and informational purposes ONLY!
 * Its implementation is flawed, and it will be deleted in a future version.
 * It is not guaranteed to succeed, as there are several cases where it will give
 * up and fail. You should NOT use this function in production code.
 *
 * This function is deprecated, and will be removed in a future version.
 *
 * Generate sequences using ZSTD_compress2(), given a source buffer.
 *
 * @param zc The compression context to be used for ZSTD_compress2(). Set any
 *           compression parameters you need on this context.
 * @param outSeqs The output sequences buffer of size @p outSeqsSize
 * @param outSeqsCapacity The size of the output sequences buffer.
 *                    ZSTD_sequenceBound(srcSize) is an upper bound on the number
 *                    of sequences that can be generated.
 * @param src The source buffer to generate sequences from of size @p srcSize.
 * @param srcSize The size of the source buffer.
 *
 * Each block will end with a dummy sequence
 * with offset == 0, matchLength == 0, and litLength == length of last literals.
 * litLength may be == 0, and if so, then the sequence of (of: 0 ml: 0 ll: 0)
 * simply acts as a block delimiter.
 *
 * @returns The number of sequences generated, necessarily less than
 *          ZSTD_sequenceBound(srcSize), or an error code that can be checked
 *          with ZSTD_isError().
 */
ZSTD_DEPRECATED("For debugging only, will be replaced by ZSTD_extractSequences()")
ZSTDLIB_STATIC_API size_t
ZSTD_generateSequences(ZSTD_CCtx* zc,
                       ZSTD_Sequence* outSeqs, size_t outSeqsCapacity,
                       const void* src, size_t srcSize);

/*! ZSTD_mergeBlockDelimiters() :
 * Given an array of ZSTD_Sequence, remove all sequences that represent block delimiters/last literals
 * by merging them into the literals of the next sequence.
 *
 * As such, the final generated result has no explicit representation of block boundaries,
 * and the final last literals segment is not represented in the sequences.
 *
 * The output of this function can be fed into ZSTD_compressSequences() with CCtx
 * setting of ZSTD_c_blockDelimiters as ZSTD_sf_noBlockDelimiters
 * @return : number of sequences left after merging
 */
ZSTDLIB_STATIC_API size_t ZSTD_mergeBlockDelimiters(ZSTD_Sequence* sequences, size_t seqsSize);

/*! ZSTD_compressSequences() :
 * Compress an array of ZSTD_Sequence, associated with @src buffer, into dst.
 * @src contains the entire input (not just the literals).
 * If @srcSize > sum(sequence.length), the remaining bytes are considered all literals
 * If a dictionary is included, then the cctx should reference the dict (see: ZSTD_CCtx_refCDict(), ZSTD_CCtx_loadDictionary(), etc.).
 * The entire source is compressed into a single frame.
 *
 * The compression behavior changes based on cctx params. In particular:
 *    If ZSTD_c_blockDelimiters == ZSTD_sf_noBlockDelimiters, the array of ZSTD_Sequence is expected to contain
 *    no block delimiters (defined in ZSTD_Sequence). Block boundaries are roughly determined based on
 *    the block size derived from the cctx, and sequences may be split. This is the default setting.
 *
 *    If ZSTD_c_blockDelimiters == ZSTD_sf_explicitBlockDelimiters, the array of ZSTD_Sequence is expected to contain
 *    valid block delimiters (defined in ZSTD_Sequence). Behavior is undefined if no block delimiters are provided.
 *
 *    When ZSTD_c_blockDelimiters == ZSTD_sf_explicitBlockDelimiters, it's possible to decide generating repcodes
 *    using the advanced parameter ZSTD_c_repcodeResolution. Repcodes will improve compression ratio, though the benefit
 *    can vary greatly depending on Sequences. On the other hand, repcode resolution is an expensive operation.
 *    By default, it's disabled at low (<10) compression levels, and enabled above the threshold (>=10).
 *    ZSTD_c_repcodeResolution makes it possible to directly manage this processing in either direction.
 *
 *    If ZSTD_c_validateSequences == 0, this function blindly accepts the Sequences provided. Invalid Sequences cause undefined
 *    behavior. If ZSTD_c_validateSequences == 1, then the function will detect invalid Sequences (see doc/zstd_compression_format.md for
 *    specifics regarding offset/matchlength requirements) and then bail out and return an error.
 *
 *    In addition to the two adjustable experimental params, there are other important cctx params.
 *    - ZSTD_c_minMatch MUST be set as less than or equal to the smallest match generated by the match finder. It has a minimum value of ZSTD_MINMATCH_MIN.
 *    - ZSTD_c_compressionLevel accordingly adjusts the strength of the entropy coder, as it would in typical compression.
 *    - ZSTD_c_windowLog affects offset validation: this function will return an error at higher debug levels if a provided offset
 *      is larger than what the spec allows for a given window log and dictionary (if present). See: doc/zstd_compression_format.md
 *
 * Note: Repcodes are, as of now, always re-calculated within this function, ZSTD_Sequence.rep is effectively unused.
 * Dev Note: Once ability to ingest repcodes become available, the explicit block delims mode must respect those repcodes exactly,
 *         and cannot emit an RLE block that disagrees with the repcode history.
 * @return : final compressed size, or a ZSTD error code.
 */
ZSTDLIB_STATIC_API size_t
ZSTD_compressSequences(ZSTD_CCtx* cctx,
                       void* dst, size_t dstCapacity,
                 const ZSTD_Sequence* inSeqs, size_t inSeqsSize,
                 const void* src, size_t srcSize);


/*! ZSTD_compressSequencesAndLiterals() :
 * This is a variant of ZSTD_compressSequences() which,
 * instead of receiving (src,srcSize) as input parameter, receives (literals,litSize),
 * aka all the literals, already extracted and laid out into a single continuous buffer.
 * This can be useful if the process generating the sequences also happens to generate the buffer of literals,
 * thus skipping an extraction + caching stage.
 * It's a speed optimization, useful when the right conditions are met,
 * but it also features the following limitations:
 * - Only supports explicit delimiter mode
 * - Currently does not support Sequences validation (so input Sequences are trusted)
 * - Not compatible with frame checksum, which must be disabled
 * - If any block is incompressible, will fail and return an error
 * - @litSize must be == sum of all @.litLength fields in @inSeqs. Any discrepancy will generate an error.
 * - @litBufCapacity is the size of the underlying buffer into which literals are written, starting at address @literals.
 *   @litBufCapacity must be at least 8 bytes larger than @litSize.
 * - @decompressedSize must be correct, and correspond to the sum of all Sequences. Any discrepancy will generate an error.
 * @return : final compressed size, or a ZSTD error code.
 */
ZSTDLIB_STATIC_API size_t
ZSTD_compressSequencesAndLiterals(ZSTD_CCtx* cctx,
                                  void* dst, size_t dstCapacity,
                            const ZSTD_Sequence* inSeqs, size_t nbSequences,
                            const void* literals, size_t litSize, size_t litBufCapacity,
                            size_t decompressedSize);


/*! ZSTD_writeSkippableFrame() :
 * Generates a zstd skippable frame containing data given by src, and writes it to dst buffer.
 *
 * Skippable frames begin with a 4-byte magic number. There are 16 possible choices of magic number,
 * ranging from ZSTD_MAGIC_SKIPPABLE_START to ZSTD_MAGIC_SKIPPABLE_START+15.
 * As such, the parameter magicVariant controls the exact skippable frame magic number variant used,
 * so the magic number used will be ZSTD_MAGIC_SKIPPABLE_START + magicVariant.
 *
 * Returns an error if destination buffer is not large enough, if the source size is not representable
 * with a 4-byte unsigned int, or if the parameter magicVariant is greater than 15 (and therefore invalid).
 *
 * @return : number of bytes written or a ZSTD error.
 */
ZSTDLIB_STATIC_API size_t ZSTD_writeSkippableFrame(void* dst, size_t dstCapacity,
                                             const void* src, size_t srcSize,
                                                   unsigned magicVariant);

/*! ZSTD_readSkippableFrame() :
 * Retrieves the content of a zstd skippable frame starting at @src, and writes it to @dst buffer.
 *
 * The parameter @magicVariant will receive the magicVariant that was supplied when the frame was written,
 * i.e. magicNumber - ZSTD_MAGIC_SKIPPABLE_START.
 * This can be NULL if the caller is not interested in the magicVariant.
 *
 * Returns an error if destination buffer is not large enough, or if the frame is not skippable.
 *
 * @return : number of bytes written or a ZSTD error.
 */
ZSTDLIB_STATIC_API size_t ZSTD_readSkippableFrame(void* dst, size_t dstCapacity,
                                                  unsigned* magicVariant,
                                                  const void* src, size_t srcSize);

/*! ZSTD_isSkippableFrame() :
 *  Tells if the content of `buffer` starts with a valid Frame Identifier for a skippable frame.
 */
ZSTDLIB_STATIC_API unsigned ZSTD_isSkippableFrame(const void* buffer, size_t size);



/***************************************
*  Memory management
***************************************/

/*! ZSTD_estimate*() :
 *  These functions make it possible to estimate memory usage
 *  of a future {D,C}Ctx, before its creation.
 *  This is useful in combination with ZSTD_initStatic(),
 *  which makes it possible to employ a static buffer for ZSTD_CCtx* state.
 *
 *  ZSTD_estimateCCtxSize() will provide a memory budget large enough
 *  to compress data of any size using one-shot compression ZSTD_compressCCtx() or ZSTD_compress2()
 *  associated with any compression level up to max specified one.
 *  The estimate will assume the input may be arbitrarily large,
 *  which is the worst case.
 *
 *  Note that the size estimation is specific for one-shot compression,
 *  it is not valid for streaming (see ZSTD_estimateCStreamSize*())
 *  nor other potential ways of using a ZSTD_CCtx* state.
 *
 *  When srcSize can be bound by a known and rather "small" value,
 *  this knowledge can be used to provide a tighter budget estimation
 *  because the ZSTD_CCtx* state will need less memory for small inputs.
 *  This tighter estimation can be provided by employing more advanced functions
 *  ZSTD_estimateCCtxSize_usingCParams(), which can be used in tandem with ZSTD_getCParams(),
 *  and ZSTD_estimateCCtxSize_usingCCtxParams(), which can be used in tandem with ZSTD_CCtxParams_setParameter().
 *  Both can be used to estimate memory using custom compression parameters and arbitrary srcSize limits.
 *
 *  Note : only single-threaded compression is supported.
 *  ZSTD_estimateCCtxSize_usingCCtxParams() will return an error code if ZSTD_c_nbWorkers is >= 1.
 */
ZSTDLIB_STATIC_API size_t ZSTD_estimateCCtxSize(int maxCompressionLevel);
ZSTDLIB_STATIC_API size_t ZSTD_estimateCCtxSize_usingCParams(ZSTD_compressionParameters cParams);
ZSTDLIB_STATIC_API size_t ZSTD_estimateCCtxSize_usingCCtxParams(const ZSTD_CCtx_params* params);
ZSTDLIB_STATIC_API size_t ZSTD_estimateDCtxSize(void);

/*! ZSTD_estimateCStreamSize() :
 *  ZSTD_estimateCStreamSize() will provide a memory budget large enough for streaming compression
 *  using any compression level up to the max specified one.
 *  It will also consider src size to be arbitrarily "large", which is a worst case scenario.
 *  If srcSize is known to always be small, ZSTD_estimateCStreamSize_usingCParams() can provide a tighter estimation.
 *  ZSTD_estimateCStreamSize_usingCParams() can be used in tandem with ZSTD_getCParams() to create cParams from compressionLevel.
 *  ZSTD_estimateCStreamSize_usingCCtxParams() can be used in tandem with ZSTD_CCtxParams_setParameter(). Only single-threaded compression is supported. This function will return an error code if ZSTD_c_nbWorkers is >= 1.
 *  Note : CStream size estimation is only correct for single-threaded compression.
 *  ZSTD_estimateCStreamSize_usingCCtxParams() will return an error code if ZSTD_c_nbWorkers is >= 1.
 *  Note 2 : ZSTD_estimateCStreamSize* functions are not compatible with the Block-Level Sequence Producer API at this time.
 *  Size estimates assume that no external sequence producer is registered.
 *
 *  ZSTD_DStream memory budget depends on frame's window Size.
 *  This information can be passed manually, using ZSTD_estimateDStreamSize,
 *  or deducted from a valid frame Header, using ZSTD_estimateDStreamSize_fromFrame();
 *  Any frame requesting a window size larger than max specified one will be rejected.
 *  Note : if streaming is init with function ZSTD_init?Stream_usingDict(),
 *         an internal ?Dict will be created, which additional size is not estimated here.
 *         In this case, get total size by adding ZSTD_estimate?DictSize
 */
ZSTDLIB_STATIC_API size_t ZSTD_estimateCStreamSize(int maxCompressionLevel);
ZSTDLIB_STATIC_API size_t ZSTD_estimateCStreamSize_usingCParams(ZSTD_compressionParameters cParams);
ZSTDLIB_STATIC_API size_t ZSTD_estimateCStreamSize_usingCCtxParams(const ZSTD_CCtx_params* params);
ZSTDLIB_STATIC_API size_t ZSTD_estimateDStreamSize(size_t maxWindowSize);
ZSTDLIB_STATIC_API size_t ZSTD_estimateDStreamSize_fromFrame(const void* src, size_t srcSize);

/*! ZSTD_estimate?DictSize() :
 *  ZSTD_estimateCDictSize() will bet that src size is relatively "small", and content is copied, like ZSTD_createCDict().
 *  ZSTD_estimateCDictSize_advanced() makes it possible to control compression parameters precisely, like ZSTD_createCDict_advanced().
 *  Note : dictionaries created by reference (`ZSTD_dlm_byRef`) are logically smaller.
 */
ZSTDLIB_STATIC_API size_t ZSTD_estimateCDictSize(size_t dictSize, int compressionLevel);
ZSTDLIB_STATIC_API size_t ZSTD_estimateCDictSize_advanced(size_t dictSize, ZSTD_compressionParameters cParams, ZSTD_dictLoadMethod_e dictLoadMethod);
ZSTDLIB_STATIC_API size_t ZSTD_estimateDDictSize(size_t dictSize, ZSTD_dictLoadMethod_e dictLoadMethod);

/*! ZSTD_initStatic*() :
 *  Initialize an object using a pre-allocated fixed-size buffer.
 *  workspace: The memory area to emplace the object into.
 *             Provided pointer *must be 8-bytes aligned*.
 *             Buffer must outlive object.
 *  workspaceSize: Use ZSTD_estimate*Size() to determine
 *                 how large workspace must be to support target scenario.
 * @return : pointer to object (same address as workspace, just different type),
 *           or NULL if error (size too small, incorrect alignment, etc.)
 *  Note : zstd will never resize nor malloc() when using a static buffer.
 *         If the object requires more memory than available,
 *         zstd will just error out (typically ZSTD_error_memory_allocation).
 *  Note 2 : there is no corresponding "free" function.
 *           Since workspace is allocated externally, it must be freed externally too.
 *  Note 3 : cParams : use ZSTD_getCParams() to convert a compression level
 *           into its associated cParams.
 *  Limitation 1 : currently not compatible with internal dictionary creation, triggered by
 *                 ZSTD_CCtx_loadDictionary(), ZSTD_initCStream_usingDict() or ZSTD_initDStream_usingDict().
 *  Limitation 2 : static cctx currently not compatible with multi-threading.
 *  Limitation 3 : static dctx is incompatible with legacy support.
 */
ZSTDLIB_STATIC_API ZSTD_CCtx*    ZSTD_initStaticCCtx(void* workspace, size_t workspaceSize);
ZSTDLIB_STATIC_API ZSTD_CStream* ZSTD_initStaticCStream(void* workspace, size_t workspaceSize);    /**< same as ZSTD_initStaticCCtx() */

ZSTDLIB_STATIC_API ZSTD_DCtx*    ZSTD_initStaticDCtx(void* workspace, size_t workspaceSize);
ZSTDLIB_STATIC_API ZSTD_DStream* ZSTD_initStaticDStream(void* workspace, size_t workspaceSize);    /**< same as ZSTD_initStaticDCtx() */

ZSTDLIB_STATIC_API const ZSTD_CDict* ZSTD_initStaticCDict(
                                        void* workspace, size_t workspaceSize,
                                        const void* dict, size_t dictSize,
                                        ZSTD_dictLoadMethod_e dictLoadMethod,
                                        ZSTD_dictContentType_e dictContentType,
                                        ZSTD_compressionParameters cParams);

ZSTDLIB_STATIC_API const ZSTD_DDict* ZSTD_initStaticDDict(
                                        void* workspace, size_t workspaceSize,
                                        const void* dict, size_t dictSize,
                                        ZSTD_dictLoadMethod_e dictLoadMethod,
                                        ZSTD_dictContentType_e dictContentType);


/*! Custom memory allocation :
 *  These prototypes make it possible to pass your own allocation/free functions.
 *  ZSTD_customMem is provided at creation time, using ZSTD_create*_advanced() variants listed below.
 *  All allocation/free operations will be completed using these custom variants instead of regular <stdlib.h> ones.
 */
typedef void* (*ZSTD_allocFunction) (void* opaque, size_t size);
typedef void  (*ZSTD_freeFunction) (void* opaque, void* address);
typedef struct { ZSTD_allocFunction customAlloc; ZSTD_freeFunction customFree; void* opaque; } ZSTD_customMem;
static
#ifdef __GNUC__
__attribute__((__unused__))
#endif

#if defined(__clang__) && __clang_major__ >= 5
#pragma clang diagnostic push
#pragma clang diagnostic ignored "-Wzero-as-null-pointer-constant"
#endif
ZSTD_customMem const ZSTD_defaultCMem = { NULL, NULL, NULL };  /**< this constant defers to stdlib's functions */
#if defined(__clang__) && __clang_major__ >= 5
#pragma clang diagnostic pop
#endif

ZSTDLIB_STATIC_API ZSTD_CCtx*    ZSTD_createCCtx_advanced(ZSTD_customMem customMem);
ZSTDLIB_STATIC_API ZSTD_CStream* ZSTD_createCStream_advanced(ZSTD_customMem customMem);
ZSTDLIB_STATIC_API ZSTD_DCtx*    ZSTD_createDCtx_advanced(ZSTD_customMem customMem);
ZSTDLIB_STATIC_API ZSTD_DStream* ZSTD_createDStream_advanced(ZSTD_customMem customMem);

ZSTDLIB_STATIC_API ZSTD_CDict* ZSTD_createCDict_advanced(const void* dict, size_t dictSize,
                                                  ZSTD_dictLoadMethod_e dictLoadMethod,
                                                  ZSTD_dictContentType_e dictContentType,
                                                  ZSTD_compressionParameters cParams,
                                                  ZSTD_customMem customMem);

/*! Thread pool :
 *  These prototypes make it possible to share a thread pool among multiple compression contexts.
 *  This can limit resources for applications with multiple threads where each one uses
 *  a threaded compression mode (via ZSTD_c_nbWorkers parameter).
 *  ZSTD_createThreadPool creates a new thread pool with a given number of threads.
 *  Note that the lifetime of such pool must exist while being used.
 *  ZSTD_CCtx_refThreadPool assigns a thread pool to a context (use NULL argument value
 *  to use an internal thread pool).
 *  ZSTD_freeThreadPool frees a thread pool, accepts NULL pointer.
 */
typedef struct POOL_ctx_s ZSTD_threadPool;
ZSTDLIB_STATIC_API ZSTD_threadPool* ZSTD_createThreadPool(size_t numThreads);
ZSTDLIB_STATIC_API void ZSTD_freeThreadPool (ZSTD_threadPool* pool);  /* accept NULL pointer */
ZSTDLIB_STATIC_API size_t ZSTD_CCtx_refThreadPool(ZSTD_CCtx* cctx, ZSTD_threadPool* pool);


/*
 * This API is temporary and is expected to change or disappear in the future!
 */
ZSTDLIB_STATIC_API ZSTD_CDict* ZSTD_createCDict_advanced2(
    const void* dict, size_t dictSize,
    ZSTD_dictLoadMethod_e dictLoadMethod,
    ZSTD_dictContentType_e dictContentType,
    const ZSTD_CCtx_params* cctxParams,
    ZSTD_customMem customMem);

ZSTDLIB_STATIC_API ZSTD_DDict* ZSTD_createDDict_advanced(
    const void* dict, size_t dictSize,
    ZSTD_dictLoadMethod_e dictLoadMethod,
    ZSTD_dictContentType_e dictContentType,
    ZSTD_customMem customMem);


/***************************************
*  Advanced compression functions
***************************************/

/*! ZSTD_createCDict_byReference() :
 *  Create a digested dictionary for compression
 *  Dictionary content is just referenced, not duplicated.
 *  As a consequence, `dictBuffer` **must** outlive CDict,
 *  and its content must remain unmodified throughout the lifetime of CDict.
 *  note: equivalent to ZSTD_createCDict_advanced(), with dictLoadMethod==ZSTD_dlm_byRef */
ZSTDLIB_STATIC_API ZSTD_CDict* ZSTD_createCDict_byReference(const void* dictBuffer, size_t dictSize, int compressionLevel);

/*! ZSTD_getCParams() :
 * @return ZSTD_compressionParameters structure for a selected compression level and estimated srcSize.
 * `estimatedSrcSize` value is optional, select 0 if not known */
ZSTDLIB_STATIC_API ZSTD_compressionParameters ZSTD_getCParams(int compressionLevel, unsigned long long estimatedSrcSize, size_t dictSize);

/*! ZSTD_getParams() :
 *  same as ZSTD_getCParams(), but @return a full `ZSTD_parameters` object instead of sub-component `ZSTD_compressionParameters`.
 *  All fields of `ZSTD_frameParameters` are set to default : contentSize=1, checksum=0, noDictID=0 */
ZSTDLIB_STATIC_API ZSTD_parameters ZSTD_getParams(int compressionLevel, unsigned long long estimatedSrcSize, size_t dictSize);

/*! ZSTD_checkCParams() :
 *  Ensure param values remain within authorized range.
 * @return 0 on success, or an error code (can be checked with ZSTD_isError()) */
ZSTDLIB_STATIC_API size_t ZSTD_checkCParams(ZSTD_compressionParameters params);

/*! ZSTD_adjustCParams() :
 *  optimize params for a given `srcSize` and `dictSize`.
 * `srcSize` can be unknown, in which case use ZSTD_CONTENTSIZE_UNKNOWN.
 * `dictSize` must be `0` when there is no dictionary.
 *  cPar can be invalid : all parameters will be clamped within valid range in the @return struct.
 *  This function never fails (wide contract) */
ZSTDLIB_STATIC_API ZSTD_compressionParameters ZSTD_adjustCParams(ZSTD_compressionParameters cPar, unsigned long long srcSize, size_t dictSize);

/*! ZSTD_CCtx_setCParams() :
 *  Set all parameters provided within @p cparams into the working @p cctx.
 *  Note : if modifying parameters during compression (MT mode only),
 *         note that changes to the .windowLog parameter will be ignored.
 * @return 0 on success, or an error code (can be checked with ZSTD_isError()).
 *         On failure, no parameters are updated.
 */
ZSTDLIB_STATIC_API size_t ZSTD_CCtx_setCParams(ZSTD_CCtx* cctx, ZSTD_compressionParameters cparams);

/*! ZSTD_CCtx_setFParams() :
 *  Set all parameters provided within @p fparams into the working @p cctx.
 * @return 0 on success, or an error code (can be checked with ZSTD_isError()).
 */
ZSTDLIB_STATIC_API size_t ZSTD_CCtx_setFParams(ZSTD_CCtx* cctx, ZSTD_frameParameters fparams);

/*! ZSTD_CCtx_setParams() :
 *  Set all parameters provided within @p params into the working @p cctx.
 * @return 0 on success, or an error code (can be checked with ZSTD_isError()).
 */
ZSTDLIB_STATIC_API size_t ZSTD_CCtx_setParams(ZSTD_CCtx* cctx, ZSTD_parameters params);

/*! ZSTD_compress_advanced() :
 *  Note : this function is now DEPRECATED.
 *         It can be replaced by ZSTD_compress2(), in combination with ZSTD_CCtx_setParameter() and other parameter setters.
 *  This prototype will generate compilation warnings. */
ZSTD_DEPRECATED("use ZSTD_compress2")
ZSTDLIB_STATIC_API
size_t ZSTD_compress_advanced(ZSTD_CCtx* cctx,
                              void* dst, size_t dstCapacity,
                        const void* src, size_t srcSize,
                        const void* dict,size_t dictSize,
                              ZSTD_parameters params);

/*! ZSTD_compress_usingCDict_advanced() :
 *  Note : this function is now DEPRECATED.
 *         It can be replaced by ZSTD_compress2(), in combination with ZSTD_CCtx_loadDictionary() and other parameter setters.
 *  This prototype will generate compilation warnings. */
ZSTD_DEPRECATED("use ZSTD_compress2 with ZSTD_CCtx_loadDictionary")
ZSTDLIB_STATIC_API
size_t ZSTD_compress_usingCDict_advanced(ZSTD_CCtx* cctx,
                                              void* dst, size_t dstCapacity,
                                        const void* src, size_t srcSize,
                                        const ZSTD_CDict* cdict,
                                              ZSTD_frameParameters fParams);


/*! ZSTD_CCtx_loadDictionary_byReference() :
 *  Same as ZSTD_CCtx_loadDictionary(), but dictionary content is referenced, instead of being copied into CCtx.
 *  It saves some memory, but also requires that `dict` outlives its usage within `cctx` */
ZSTDLIB_STATIC_API size_t ZSTD_CCtx_loadDictionary_byReference(ZSTD_CCtx* cctx, const void* dict, size_t dictSize);

/*! ZSTD_CCtx_loadDictionary_advanced() :
 *  Same as ZSTD_CCtx_loadDictionary(), but gives finer control over
 *  how to load the dictionary (by copy ? by reference ?)
 *  and how to interpret it (automatic ? force raw mode ? full mode only ?) */
ZSTDLIB_STATIC_API size_t ZSTD_CCtx_loadDictionary_advanced(ZSTD_CCtx* cctx, const void* dict, size_t dictSize, ZSTD_dictLoadMethod_e dictLoadMethod, ZSTD_dictContentType_e dictContentType);

/*! ZSTD_CCtx_refPrefix_advanced() :
 *  Same as ZSTD_CCtx_refPrefix(), but gives finer control over
 *  how to interpret prefix content (automatic ? force raw mode (default) ? full mode only ?) */
ZSTDLIB_STATIC_API size_t ZSTD_CCtx_refPrefix_advanced(ZSTD_CCtx* cctx, const void* prefix, size_t prefixSize, ZSTD_dictContentType_e dictContentType);

/* ===   experimental parameters   === */
/* these parameters can be used with ZSTD_setParameter()
 * they are not guaranteed to remain supported in the future */

 /* Enables rsyncable mode,
  * which makes compressed files more rsync friendly
  * by adding periodic synchronization points to the compressed data.
  * The target average block size is ZSTD_c_jobSize / 2.
  * It's possible to modify the job size to increase or decrease
  * the granularity of the synchronization point.
  * Once the jobSize is smaller than the window size,
  * it will result in compression ratio degradation.
  * NOTE 1: rsyncable mode only works when multithreading is enabled.
  * NOTE 2: rsyncable performs poorly in combination with long range mode,
  * since it will decrease the effectiveness of synchronization points,
  * though mileage may vary.
  * NOTE 3: Rsyncable mode limits maximum compression speed to ~400 MB/s.
  * If the selected compression level is already running significantly slower,
  * the overall speed won't be significantly impacted.
  */
 #define ZSTD_c_rsyncable ZSTD_c_experimentalParam1

/* Select a compression format.
 * The value must be of type ZSTD_format_e.
 * See ZSTD_format_e enum definition for details */
#define ZSTD_c_format ZSTD_c_experimentalParam2

/* Force back-reference distances to remain < windowSize,
 * even when referencing into Dictionary content (default:0) */
#define ZSTD_c_forceMaxWindow ZSTD_c_experimentalParam3

/* Controls whether the contents of a CDict
 * are used in place, or copied into the working context.
 * Accepts values from the ZSTD_dictAttachPref_e enum.
 * See the comments on that enum for an explanation of the feature. */
#define ZSTD_c_forceAttachDict ZSTD_c_experimentalParam4

/* Controlled with ZSTD_ParamSwitch_e enum.
 * Default is ZSTD_ps_auto.
 * Set to ZSTD_ps_disable to never compress literals.
 * Set to ZSTD_ps_enable to always compress literals. (Note: uncompressed literals
 * may still be emitted if huffman is not beneficial to use.)
 *
 * By default, in ZSTD_ps_auto, the library will decide at runtime whether to use
 * literals compression based on the compression parameters - specifically,
 * negative compression levels do not use literal compression.
 */
#define ZSTD_c_literalCompressionMode ZSTD_c_experimentalParam5

/* User's best guess of source size.
 * Hint is not valid when srcSizeHint == 0.
 * There is no guarantee that hint is close to actual source size,
 * but compression ratio may regress significantly if guess considerably underestimates */
#define ZSTD_c_srcSizeHint ZSTD_c_experimentalParam7

/* Controls whether the new and experimental "dedicated dictionary search
 * structure" can be used. This feature is still rough around the edges, be
 * prepared for surprising behavior!
 *
 * How to use it:
 *
 * When using a CDict, whether to use this feature or not is controlled at
 * CDict creation, and it must be set in a CCtxParams set passed into that
 * construction (via ZSTD_createCDict_advanced2()). A compression will then
 * use the feature or not based on how the CDict was constructed; the value of
 * this param, set in the CCtx, will have no effect.
 *
 * However, when a dictionary buffer is passed into a CCtx, such as via
 * ZSTD_CCtx_loadDictionary(), this param can be set on the CCtx to control
 * whether the CDict that is created internally can use the feature or not.
 *
 * What it does:
 *
 * Normally, the internal data structures of the CDict are analogous to what
 * would be stored in a CCtx after compressing the contents of a dictionary.
 * To an approximation, a compression using a dictionary can then use those
 * data structures to simply continue what is effectively a streaming
 * compression where the simulated compression of the dictionary left off.
 * Which is to say, the search structures in the CDict are normally the same
 * format as in the CCtx.
 *
 * It is possible to do better, since the CDict is not like a CCtx: the search
 * structures are written once during CDict creation, and then are only read
 * after that, while the search structures in the CCtx are both read and
 * written as the compression goes along. This means we can choose a search
 * structure for the dictionary that is read-optimized.
 *
 * This feature enables the use of that different structure.
 *
 * Note that some of the members of the ZSTD_compressionParameters struct have
 * different semantics and constraints in the dedicated search structure. It is
 * highly recommended that you simply set a compression level in the CCtxParams
 * you pass into the CDict creation call, and avoid messing with the cParams
 * directly.
 *
 * Effects:
 *
 * This will only have any effect when the selected ZSTD_strategy
 * implementation supports this feature. Currently, that's limited to
 * ZSTD_greedy, ZSTD_lazy, and ZSTD_lazy2.
 *
 * Note that this means that the CDict tables can no longer be copied into the
 * CCtx, so the dict attachment mode ZSTD_dictForceCopy will no longer be
 * usable. The dictionary can only be attached or reloaded.
 *
 * In general, you should expect compression to be faster--sometimes very much
 * so--and CDict creation to be slightly slower. Eventually, we will probably
 * make this mode the default.
 */
#define ZSTD_c_enableDedicatedDictSearch ZSTD_c_experimentalParam8

/* ZSTD_c_stableInBuffer
 * Experimental parameter.
 * Default is 0 == disabled. Set to 1 to enable.
 *
 * Tells the compressor that input data presented with ZSTD_inBuffer
 * will ALWAYS be the same between calls.
 * Technically, the @src pointer must never be changed,
 * and the @pos field can only be updated by zstd.
 * However, it's possible to increase the @size field,
 * allowing scenarios where more data can be appended after compressions starts.
 * These conditions are checked by the compressor,
 * and compression will fail if they are not respected.
 * Also, data in the ZSTD_inBuffer within the range [src, src + pos)
 * MUST not be modified during compression or it will result in data corruption.
 *
 * When this flag is enabled zstd won't allocate an input window buffer,
 * because the user guarantees it can reference the ZSTD_inBuffer until
 * the frame is complete. But, it will still allocate an output buffer
 * large enough to fit a block (see ZSTD_c_stableOutBuffer). This will also
 * avoid the memcpy() from the input buffer to the input window buffer.
 *
 * NOTE: So long as the ZSTD_inBuffer always points to valid memory, using
 * this flag is ALWAYS memory safe, and will never access out-of-bounds
 * memory. However, compression WILL fail if conditions are not respected.
 *
 * WARNING: The data in the ZSTD_inBuffer in the range [src, src + pos) MUST
 * not be modified during compression or it will result in data corruption.
 * This is because zstd needs to reference data in the ZSTD_inBuffer to find
 * matches. Normally zstd maintains its own window buffer for this purpose,
 * but passing this flag tells zstd to rely on user provided buffer instead.
 */
#define ZSTD_c_stableInBuffer ZSTD_c_experimentalParam9

/* ZSTD_c_stableOutBuffer
 * Experimental parameter.
 * Default is 0 == disabled. Set to 1 to enable.
 *
 * Tells he compressor that the ZSTD_outBuffer will not be resized between
 * calls. Specifically: (out.size - out.pos) will never grow. This gives the
 * compressor the freedom to say: If the compressed data doesn't fit in the
 * output buffer then return ZSTD_error_dstSizeTooSmall. This allows us to
 * always decompress directly into the output buffer, instead of decompressing
 * into an internal buffer and copying to the output buffer.
 *
 * When this flag is enabled zstd won't allocate an output buffer, because
 * it can write directly to the ZSTD_outBuffer. It will still allocate the
 * input window buffer (see ZSTD_c_stableInBuffer).
 *
 * Zstd will check that (out.size - out.pos) never grows and return an error
 * if it does. While not strictly necessary, this should prevent surprises.
 */
#define ZSTD_c_stableOutBuffer ZSTD_c_experimentalParam10

/* ZSTD_c_blockDelimiters
 * Default is 0 == ZSTD_sf_noBlockDelimiters.
 *
 * For use with sequence compression API: ZSTD_compressSequences().
 *
 * Designates whether or not the given array of ZSTD_Sequence contains block delimiters
 * and last literals, which are defined as sequences with offset == 0 and matchLength == 0.
 * See the definition of ZSTD_Sequence for more specifics.
 */
#define ZSTD_c_blockDelimiters ZSTD_c_experimentalParam11

/* ZSTD_c_validateSequences
 * Default is 0 == disabled. Set to 1 to enable sequence validation.
 *
 * For use with sequence compression API: ZSTD_compressSequences*().
 * Designates whether or not provided sequences are validated within ZSTD_compressSequences*()
 * during function execution.
 *
 * When Sequence validation is disabled (default), Sequences are compressed as-is,
 * so they must correct, otherwise it would result in a corruption error.
 *
 * Sequence validation adds some protection, by ensuring that all values respect boundary conditions.
 * If a Sequence is detected invalid (see doc/zstd_compression_format.md for
 * specifics regarding offset/matchlength requirements) then the function will bail out and
 * return an error.
 */
#define ZSTD_c_validateSequences ZSTD_c_experimentalParam12

/* ZSTD_c_blockSplitterLevel
 * note: this parameter only influences the first splitter stage,
 *       which is active before producing the sequences.
 *       ZSTD_c_splitAfterSequences controls the next splitter stage,
 *       which is active after sequence production.
 *       Note that both can be combined.
 * Allowed values are between 0 and ZSTD_BLOCKSPLITTER_LEVEL_MAX included.
 * 0 means "auto", which will select a value depending on current ZSTD_c_strategy.
 * 1 means no splitting.
 * Then, values from 2 to 6 are sorted in increasing cpu load order.
 *
 * Note that currently the first block is never split,
 * to ensure expansion guarantees in presence of incompressible data.
 */
#define ZSTD_BLOCKSPLITTER_LEVEL_MAX 6
#define ZSTD_c_blockSplitterLevel ZSTD_c_experimentalParam20

/* ZSTD_c_splitAfterSequences
 * This is a stronger splitter algorithm,
 * based on actual sequences previously produced by the selected parser.
 * It's also slower, and as a consequence, mostly used for high compression levels.
 * While the post-splitter does overlap with the pre-splitter,
 * both can nonetheless be combined,
 * notably with ZSTD_c_blockSplitterLevel at ZSTD_BLOCKSPLITTER_LEVEL_MAX,
 * resulting in higher compression ratio than just one of them.
 *
 * Default is ZSTD_ps_auto.
 * Set to ZSTD_ps_disable to never use block splitter.
 * Set to ZSTD_ps_enable to always use block splitter.
 *
 * By default, in ZSTD_ps_auto, the library will decide at runtime whether to use
 * block splitting based on the compression parameters.
 */
#define ZSTD_c_splitAfterSequences ZSTD_c_experimentalParam13

/* ZSTD_c_useRowMatchFinder
 * Controlled with ZSTD_ParamSwitch_e enum.
 * Default is ZSTD_ps_auto.
 * Set to ZSTD_ps_disable to never use row-based matchfinder.
 * Set to ZSTD_ps_enable to force usage of row-based matchfinder.
 *
 * By default, in ZSTD_ps_auto, the library will decide at runtime whether to use
 * the row-based matchfinder based on support for SIMD instructions and the window log.
 * Note that this only pertains to compression strategies: greedy, lazy, and lazy2
 */
#define ZSTD_c_useRowMatchFinder ZSTD_c_experimentalParam14

/* ZSTD_c_deterministicRefPrefix
 * Default is 0 == disabled. Set to 1 to enable.
 *
 * Zstd produces different results for prefix compression when the prefix is
 * directly adjacent to the data about to be compressed vs. when it isn't.
 * This is because zstd detects that the two buffers are contiguous and it can
 * use a more efficient match finding algorithm. However, this produces different
 * results than when the two buffers are non-contiguous. This flag forces zstd
 * to always load the prefix in non-contiguous mode, even if it happens to be
 * adjacent to the data, to guarantee determinism.
 *
 * If you really care about determinism when using a dictionary or prefix,
 * like when doing delta compression, you should select this option. It comes
 * at a speed penalty of about ~2.5% if the dictionary and data happened to be
 * contiguous, and is free if they weren't contiguous. We don't expect that
 * intentionally making the dictionary and data contiguous will be worth the
 * cost to memcpy() the data.
 */
#define ZSTD_c_deterministicRefPrefix ZSTD_c_experimentalParam15

/* ZSTD_c_prefetchCDictTables
 * Controlled with ZSTD_ParamSwitch_e enum. Default is ZSTD_ps_auto.
 *
 * In some situations, zstd uses CDict tables in-place rather than copying them
 * into the working context. (See docs on ZSTD_dictAttachPref_e above for details).
 * In such situations, compression speed is seriously impacted when CDict tables are
 * "cold" (outside CPU cache). This parameter instructs zstd to prefetch CDict tables
 * when they are used in-place.
 *
 * For sufficiently small inputs, the cost of the prefetch will outweigh the benefit.
 * For sufficiently large inputs, zstd will by default memcpy() CDict tables
 * into the working context, so there is no need to prefetch. This parameter is
 * targeted at a middle range of input sizes, where a prefetch is cheap enough to be
 * useful but memcpy() is too expensive. The exact range of input sizes where this
 * makes sense is best determined by careful experimentation.
 *
 * Note: for this parameter, ZSTD_ps_auto is currently equivalent to ZSTD_ps_disable,
 * but in the future zstd may conditionally enable this feature via an auto-detection
 * heuristic for cold CDicts.
 * Use ZSTD_ps_disable to opt out of prefetching under any circumstances.
 */
#define ZSTD_c_prefetchCDictTables ZSTD_c_experimentalParam16

/* ZSTD_c_enableSeqProducerFallback
 * Allowed values are 0 (disable) and 1 (enable). The default setting is 0.
 *
 * Controls whether zstd will fall back to an internal sequence producer if an
 * external sequence producer is registered and returns an error code. This fallback
 * is block-by-block: the internal sequence producer will only be called for blocks
 * where the external sequence producer returns an error code. Fallback parsing will
 * follow any other cParam settings, such as compression level, the same as in a
 * normal (fully-internal) compression operation.
 *
 * The user is strongly encouraged to read the full Block-Level Sequence Producer API
 * documentation (below) before setting this parameter. */
#define ZSTD_c_enableSeqProducerFallback ZSTD_c_experimentalParam17

/* ZSTD_c_maxBlockSize
 * Allowed values are between 1KB and ZSTD_BLOCKSIZE_MAX (128KB).
 * The default is ZSTD_BLOCKSIZE_MAX, and setting to 0 will set to the default.
 *
 * This parameter can be used to set an upper bound on the blocksize
 * that overrides the default ZSTD_BLOCKSIZE_MAX. It cannot be used to set upper
 * bounds greater than ZSTD_BLOCKSIZE_MAX or bounds lower than 1KB (will make
 * compressBound() inaccurate). Only currently meant to be used for testing.
 */
#define ZSTD_c_maxBlockSize ZSTD_c_experimentalParam18

/* ZSTD_c_repcodeResolution
 * This parameter only has an effect if ZSTD_c_blockDelimiters is
 * set to ZSTD_sf_explicitBlockDelimiters (may change in the future).
 *
 * This parameter affects how zstd parses external sequences,
 * provided via the ZSTD_compressSequences*() API
 * or from an external block-level sequence producer.
 *
 * If set to ZSTD_ps_enable, the library will check for repeated offsets within
 * external sequences, even if those repcodes are not explicitly indicated in
 * the "rep" field. Note that this is the only way to exploit repcode matches
 * while using compressSequences*() or an external sequence producer, since zstd
 * currently ignores the "rep" field of external sequences.
 *
 * If set to ZSTD_ps_disable, the library will not exploit repeated offsets in
 * external sequences, regardless of whether the "rep" field has been set. This
 * reduces sequence compression overhead by about 25% while sacrificing some
 * compression ratio.
 *
 * The default value is ZSTD_ps_auto, for which the library will enable/disable
 * based on compression level (currently: level<10 disables, level>=10 enables).
 */
#define ZSTD_c_repcodeResolution ZSTD_c_experimentalParam19
#define ZSTD_c_searchForExternalRepcodes ZSTD_c_experimentalParam19 /* older name */


/*! ZSTD_CCtx_getParameter() :
 *  Get the requested compression parameter value, selected by enum ZSTD_cParameter,
 *  and store it into int* value.
 * @return : 0, or an error code (which can be tested with ZSTD_isError()).
 */
ZSTDLIB_STATIC_API size_t ZSTD_CCtx_getParameter(const ZSTD_CCtx* cctx, ZSTD_cParameter param, int* value);


/*! ZSTD_CCtx_params :
 *  Quick howto :
 *  - ZSTD_createCCtxParams() : Create a ZSTD_CCtx_params structure
 *  - ZSTD_CCtxParams_setParameter() : Push parameters one by one into
 *                                     an existing ZSTD_CCtx_params structure.
 *                                     This is similar to
 *                                     ZSTD_CCtx_setParameter().
 *  - ZSTD_CCtx_setParametersUsingCCtxParams() : Apply parameters to
 *                                    an existing CCtx.
 *                                    These parameters will be applied to
 *                                    all subsequent frames.
 *  - ZSTD_compressStream2() : Do compression using the CCtx.
 *  - ZSTD_freeCCtxParams() : Free the memory, accept NULL pointer.
 *
 *  This can be used with ZSTD_estimateCCtxSize_advanced_usingCCtxParams()
 *  for static allocation of CCtx for single-threaded compression.
 */
ZSTDLIB_STATIC_API ZSTD_CCtx_params* ZSTD_createCCtxParams(void);
ZSTDLIB_STATIC_API size_t ZSTD_freeCCtxParams(ZSTD_CCtx_params* params);  /* accept NULL pointer */

/*! ZSTD_CCtxParams_reset() :
 *  Reset params to default values.
 */
ZSTDLIB_STATIC_API size_t ZSTD_CCtxParams_reset(ZSTD_CCtx_params* params);

/*! ZSTD_CCtxParams_init() :
 *  Initializes the compression parameters of cctxParams according to
 *  compression level. All other parameters are reset to their default values.
 */
ZSTDLIB_STATIC_API size_t ZSTD_CCtxParams_init(ZSTD_CCtx_params* cctxParams, int compressionLevel);

/*! ZSTD_CCtxParams_init_advanced() :
 *  Initializes the compression and frame parameters of cctxParams according to
 *  params. All other parameters are reset to their default values.
 */
ZSTDLIB_STATIC_API size_t ZSTD_CCtxParams_init_advanced(ZSTD_CCtx_params* cctxParams, ZSTD_parameters params);

/*! ZSTD_CCtxParams_setParameter() : Requires v1.4.0+
 *  Similar to ZSTD_CCtx_setParameter.
 *  Set one compression parameter, selected by enum ZSTD_cParameter.
 *  Parameters must be applied to a ZSTD_CCtx using
 *  ZSTD_CCtx_setParametersUsingCCtxParams().
 * @result : a code representing success or failure (which can be tested with
 *           ZSTD_isError()).
 */
ZSTDLIB_STATIC_API size_t ZSTD_CCtxParams_setParameter(ZSTD_CCtx_params* params, ZSTD_cParameter param, int value);

/*! ZSTD_CCtxParams_getParameter() :
 * Similar to ZSTD_CCtx_getParameter.
 * Get the requested value of one compression parameter, selected by enum ZSTD_cParameter.
 * @result : 0, or an error code (which can be tested with ZSTD_isError()).
 */
ZSTDLIB_STATIC_API size_t ZSTD_CCtxParams_getParameter(const ZSTD_CCtx_params* params, ZSTD_cParameter param, int* value);

/*! ZSTD_CCtx_setParametersUsingCCtxParams() :
 *  Apply a set of ZSTD_CCtx_params to the compression context.
 *  This can be done even after compression is started,
 *    if nbWorkers==0, this will have no impact until a new compression is started.
 *    if nbWorkers>=1, new parameters will be picked up at next job,
 *       with a few restrictions (windowLog, pledgedSrcSize, nbWorkers, jobSize, and overlapLog are not updated).
 */
ZSTDLIB_STATIC_API size_t ZSTD_CCtx_setParametersUsingCCtxParams(
        ZSTD_CCtx* cctx, const ZSTD_CCtx_params* params);

/*! ZSTD_compressStream2_simpleArgs() :
 *  Same as ZSTD_compressStream2(),
 *  but using only integral types as arguments.
 *  This variant might be helpful for binders from dynamic languages
 *  which have troubles handling structures containing memory pointers.
 */
ZSTDLIB_STATIC_API size_t ZSTD_compressStream2_simpleArgs (
                            ZSTD_CCtx* cctx,
                            void* dst, size_t dstCapacity, size_t* dstPos,
                      const void* src, size_t srcSize, size_t* srcPos,
                            ZSTD_EndDirective endOp);


/***************************************
*  Advanced decompression functions
***************************************/

/*! ZSTD_isFrame() :
 *  Tells if the content of `buffer` starts with a valid Frame Identifier.
 *  Note : Frame Identifier is 4 bytes. If `size < 4`, @return will always be 0.
 *  Note 2 : Legacy Frame Identifiers are considered valid only if Legacy Support is enabled.
 *  Note 3 : Skippable Frame Identifiers are considered valid. */
ZSTDLIB_STATIC_API unsigned ZSTD_isFrame(const void* buffer, size_t size);

/*! ZSTD_createDDict_byReference() :
 *  Create a digested dictionary, ready to start decompression operation without startup delay.
 *  Dictionary content is referenced, and therefore stays in dictBuffer.
 *  It is important that dictBuffer outlives DDict,
 *  it must remain read accessible throughout the lifetime of DDict */
ZSTDLIB_STATIC_API ZSTD_DDict* ZSTD_createDDict_byReference(const void* dictBuffer, size_t dictSize);

/*! ZSTD_DCtx_loadDictionary_byReference() :
 *  Same as ZSTD_DCtx_loadDictionary(),
 *  but references `dict` content instead of copying it into `dctx`.
 *  This saves memory if `dict` remains around.,
 *  However, it's imperative that `dict` remains accessible (and unmodified) while being used, so it must outlive decompression. */
ZSTDLIB_STATIC_API size_t ZSTD_DCtx_loadDictionary_byReference(ZSTD_DCtx* dctx, const void* dict, size_t dictSize);

/*! ZSTD_DCtx_loadDictionary_advanced() :
 *  Same as ZSTD_DCtx_loadDictionary(),
 *  but gives direct control over
 *  how to load the dictionary (by copy ? by reference ?)
 *  and how to interpret it (automatic ? force raw mode ? full mode only ?). */
ZSTDLIB_STATIC_API size_t ZSTD_DCtx_loadDictionary_advanced(ZSTD_DCtx* dctx, const void* dict, size_t dictSize, ZSTD_dictLoadMethod_e dictLoadMethod, ZSTD_dictContentType_e dictContentType);

/*! ZSTD_DCtx_refPrefix_advanced() :
 *  Same as ZSTD_DCtx_refPrefix(), but gives finer control over
 *  how to interpret prefix content (automatic ? force raw mode (default) ? full mode only ?) */
ZSTDLIB_STATIC_API size_t ZSTD_DCtx_refPrefix_advanced(ZSTD_DCtx* dctx, const void* prefix, size_t prefixSize, ZSTD_dictContentType_e dictContentType);

/*! ZSTD_DCtx_setMaxWindowSize() :
 *  Refuses allocating internal buffers for frames requiring a window size larger than provided limit.
 *  This protects a decoder context from reserving too much memory for itself (potential attack scenario).
 *  This parameter is only useful in streaming mode, since no internal buffer is allocated in single-pass mode.
 *  By default, a decompression context accepts all window sizes <= (1 << ZSTD_WINDOWLOG_LIMIT_DEFAULT)
 * @return : 0, or an error code (which can be tested using ZSTD_isError()).
 */
ZSTDLIB_STATIC_API size_t ZSTD_DCtx_setMaxWindowSize(ZSTD_DCtx* dctx, size_t maxWindowSize);

/*! ZSTD_DCtx_getParameter() :
 *  Get the requested decompression parameter value, selected by enum ZSTD_dParameter,
 *  and store it into int* value.
 * @return : 0, or an error code (which can be tested with ZSTD_isError()).
 */
ZSTDLIB_STATIC_API size_t ZSTD_DCtx_getParameter(ZSTD_DCtx* dctx, ZSTD_dParameter param, int* value);

/* ZSTD_d_format
 * experimental parameter,
 * allowing selection between ZSTD_format_e input compression formats
 */
#define ZSTD_d_format ZSTD_d_experimentalParam1
/* ZSTD_d_stableOutBuffer
 * Experimental parameter.
 * Default is 0 == disabled. Set to 1 to enable.
 *
 * Tells the decompressor that the ZSTD_outBuffer will ALWAYS be the same
 * between calls, except for the modifications that zstd makes to pos (the
 * caller must not modify pos). This is checked by the decompressor, and
 * decompression will fail if it ever changes. Therefore the ZSTD_outBuffer
 * MUST be large enough to fit the entire decompressed frame. This will be
 * checked when the frame content size is known. The data in the ZSTD_outBuffer
 * in the range [dst, dst + pos) MUST not be modified during decompression
 * or you will get data corruption.
 *
 * When this flag is enabled zstd won't allocate an output buffer, because
 * it can write directly to the ZSTD_outBuffer, but it will still allocate
 * an input buffer large enough to fit any compressed block. This will also
 * avoid the memcpy() from the internal output buffer to the ZSTD_outBuffer.
 * If you need to avoid the input buffer allocation use the buffer-less
 * streaming API.
 *
 * NOTE: So long as the ZSTD_outBuffer always points to valid memory, using
 * this flag is ALWAYS memory safe, and will never access out-of-bounds
 * memory. However, decompression WILL fail if you violate the preconditions.
 *
 * WARNING: The data in the ZSTD_outBuffer in the range [dst, dst + pos) MUST
 * not be modified during decompression or you will get data corruption. This
 * is because zstd needs to reference data in the ZSTD_outBuffer to regenerate
 * matches. Normally zstd maintains its own buffer for this purpose, but passing
 * this flag tells zstd to use the user provided buffer.
 */
#define ZSTD_d_stableOutBuffer ZSTD_d_experimentalParam2

/* ZSTD_d_forceIgnoreChecksum
 * Experimental parameter.
 * Default is 0 == disabled. Set to 1 to enable
 *
 * Tells the decompressor to skip checksum validation during decompression, regardless
 * of whether checksumming was specified during compression. This offers some
 * slight performance benefits, and may be useful for debugging.
 * Param has values of type ZSTD_forceIgnoreChecksum_e
 */
#define ZSTD_d_forceIgnoreChecksum ZSTD_d_experimentalParam3

/* ZSTD_d_refMultipleDDicts
 * Experimental parameter.
 * Default is 0 == disabled. Set to 1 to enable
 *
 * If enabled and dctx is allocated on the heap, then additional memory will be allocated
 * to store references to multiple ZSTD_DDict. That is, multiple calls of ZSTD_refDDict()
 * using a given ZSTD_DCtx, rather than overwriting the previous DDict reference, will instead
 * store all references. At decompression time, the appropriate dictID is selected
 * from the set of DDicts based on the dictID in the frame.
 *
 * Usage is simply calling ZSTD_refDDict() on multiple dict buffers.
 *
 * Param has values of byte ZSTD_refMultipleDDicts_e
 *
 * WARNING: Enabling this parameter and calling ZSTD_DCtx_refDDict(), will trigger memory
 * allocation for the hash table. ZSTD_freeDCtx() also frees this memory.
 * Memory is allocated as per ZSTD_DCtx::customMem.
 *
 * Although this function allocates memory for the table, the user is still responsible for
 * memory management of the underlying ZSTD_DDict* themselves.
 */
#define ZSTD_d_refMultipleDDicts ZSTD_d_experimentalParam4

/* ZSTD_d_disableHuffmanAssembly
 * Set to 1 to disable the Huffman assembly implementation.
 * The default value is 0, which allows zstd to use the Huffman assembly
 * implementation if available.
 *
 * This parameter can be used to disable Huffman assembly at runtime.
 * If you want to disable it at compile time you can define the macro
 * ZSTD_DISABLE_ASM.
 */
#define ZSTD_d_disableHuffmanAssembly ZSTD_d_experimentalParam5

/* ZSTD_d_maxBlockSize
 * Allowed values are between 1KB and ZSTD_BLOCKSIZE_MAX (128KB).
 * The default is ZSTD_BLOCKSIZE_MAX, and setting to 0 will set to the default.
 *
 * Forces the decompressor to reject blocks whose content size is
 * larger than the configured maxBlockSize. When maxBlockSize is
 * larger than the windowSize, the windowSize is used instead.
 * This saves memory on the decoder when you know all blocks are small.
 *
 * This option is typically used in conjunction with ZSTD_c_maxBlockSize.
 *
 * WARNING: This causes the decoder to reject otherwise valid frames
 * that have block sizes larger than the configured maxBlockSize.
 */
#define ZSTD_d_maxBlockSize ZSTD_d_experimentalParam6


/*! ZSTD_DCtx_setFormat() :
 *  This function is REDUNDANT. Prefer ZSTD_DCtx_setParameter().
 *  Instruct the decoder context about what kind of data to decode next.
 *  This instruction is mandatory to decode data without a fully-formed header,
 *  such ZSTD_f_zstd1_magicless for example.
 * @return : 0, or an error code (which can be tested using ZSTD_isError()). */
ZSTD_DEPRECATED("use ZSTD_DCtx_setParameter() instead")
ZSTDLIB_STATIC_API
size_t ZSTD_DCtx_setFormat(ZSTD_DCtx* dctx, ZSTD_format_e format);

/*! ZSTD_decompressStream_simpleArgs() :
 *  Same as ZSTD_decompressStream(),
 *  but using only integral types as arguments.
 *  This can be helpful for binders from dynamic languages
 *  which have troubles handling structures containing memory pointers.
 */
ZSTDLIB_STATIC_API size_t ZSTD_decompressStream_simpleArgs (
                            ZSTD_DCtx* dctx,
                            void* dst, size_t dstCapacity, size_t* dstPos,
                      const void* src, size_t srcSize, size_t* srcPos);


/********************************************************************
*  Advanced streaming functions
*  Warning : most of these functions are now redundant with the Advanced API.
*  Once Advanced API reaches "stable" status,
*  redundant functions will be deprecated, and then at some point removed.
********************************************************************/

/*=====   Advanced Streaming compression functions  =====*/

/*! ZSTD_initCStream_srcSize() :
 * This function is DEPRECATED, and equivalent to:
 *     ZSTD_CCtx_reset(zcs, ZSTD_reset_session_only);
 *     ZSTD_CCtx_refCDict(zcs, NULL); // clear the dictionary (if any)
 *     ZSTD_CCtx_setParameter(zcs, ZSTD_c_compressionLevel, compressionLevel);
 *     ZSTD_CCtx_setPledgedSrcSize(zcs, pledgedSrcSize);
 *
 * pledgedSrcSize must be correct. If it is not known at init time, use
 * ZSTD_CONTENTSIZE_UNKNOWN. Note that, for compatibility with older programs,
 * "0" also disables frame content size field. It may be enabled in the future.
 * This prototype will generate compilation warnings.
 */
ZSTD_DEPRECATED("use ZSTD_CCtx_reset, see zstd.h for detailed instructions")
ZSTDLIB_STATIC_API
size_t ZSTD_initCStream_srcSize(ZSTD_CStream* zcs,
                         int compressionLevel,
                         unsigned long long pledgedSrcSize);

/*! ZSTD_initCStream_usingDict() :
 * This function is DEPRECATED, and is equivalent to:
 *     ZSTD_CCtx_reset(zcs, ZSTD_reset_session_only);
 *     ZSTD_CCtx_setParameter(zcs, ZSTD_c_compressionLevel, compressionLevel);
 *     ZSTD_CCtx_loadDictionary(zcs, dict, dictSize);
 *
 * Creates of an internal CDict (incompatible with static CCtx), except if
 * dict == NULL or dictSize < 8, in which case no dict is used.
 * Note: dict is loaded with ZSTD_dct_auto (treated as a full zstd dictionary if
 * it begins with ZSTD_MAGIC_DICTIONARY, else as raw content) and ZSTD_dlm_byCopy.
 * This prototype will generate compilation warnings.
 */
ZSTD_DEPRECATED("use ZSTD_CCtx_reset, see zstd.h for detailed instructions")
ZSTDLIB_STATIC_API
size_t ZSTD_initCStream_usingDict(ZSTD_CStream* zcs,
                     const void* dict, size_t dictSize,
                           int compressionLevel);

/*! ZSTD_initCStream_advanced() :
 * This function is DEPRECATED, and is equivalent to:
 *     ZSTD_CCtx_reset(zcs, ZSTD_reset_session_only);
 *     ZSTD_CCtx_setParams(zcs, params);
 *     ZSTD_CCtx_setPledgedSrcSize(zcs, pledgedSrcSize);
 *     ZSTD_CCtx_loadDictionary(zcs, dict, dictSize);
 *
 * dict is loaded with ZSTD_dct_auto and ZSTD_dlm_byCopy.
 * pledgedSrcSize must be correct.
 * If srcSize is not known at init time, use value ZSTD_CONTENTSIZE_UNKNOWN.
 * This prototype will generate compilation warnings.
 */
ZSTD_DEPRECATED("use ZSTD_CCtx_reset, see zstd.h for detailed instructions")
ZSTDLIB_STATIC_API
size_t ZSTD_initCStream_advanced(ZSTD_CStream* zcs,
                    const void* dict, size_t dictSize,
                          ZSTD_parameters params,
                          unsigned long long pledgedSrcSize);

/*! ZSTD_initCStream_usingCDict() :
 * This function is DEPRECATED, and equivalent to:
 *     ZSTD_CCtx_reset(zcs, ZSTD_reset_session_only);
 *     ZSTD_CCtx_refCDict(zcs, cdict);
 *
 * note : cdict will just be referenced, and must outlive compression session
 * This prototype will generate compilation warnings.
 */
ZSTD_DEPRECATED("use ZSTD_CCtx_reset and ZSTD_CCtx_refCDict, see zstd.h for detailed instructions")
ZSTDLIB_STATIC_API
size_t ZSTD_initCStream_usingCDict(ZSTD_CStream* zcs, const ZSTD_CDict* cdict);

/*! ZSTD_initCStream_usingCDict_advanced() :
 *   This function is DEPRECATED, and is equivalent to:
 *     ZSTD_CCtx_reset(zcs, ZSTD_reset_session_only);
 *     ZSTD_CCtx_setFParams(zcs, fParams);
 *     ZSTD_CCtx_setPledgedSrcSize(zcs, pledgedSrcSize);
 *     ZSTD_CCtx_refCDict(zcs, cdict);
 *
 * same as ZSTD_initCStream_usingCDict(), with control over frame parameters.
 * pledgedSrcSize must be correct. If srcSize is not known at init time, use
 * value ZSTD_CONTENTSIZE_UNKNOWN.
 * This prototype will generate compilation warnings.
 */
ZSTD_DEPRECATED("use ZSTD_CCtx_reset and ZSTD_CCtx_refCDict, see zstd.h for detailed instructions")
ZSTDLIB_STATIC_API
size_t ZSTD_initCStream_usingCDict_advanced(ZSTD_CStream* zcs,
                               const ZSTD_CDict* cdict,
                                     ZSTD_frameParameters fParams,
                                     unsigned long long pledgedSrcSize);

/*! ZSTD_resetCStream() :
 * This function is DEPRECATED, and is equivalent to:
 *     ZSTD_CCtx_reset(zcs, ZSTD_reset_session_only);
 *     ZSTD_CCtx_setPledgedSrcSize(zcs, pledgedSrcSize);
 * Note: ZSTD_resetCStream() interprets pledgedSrcSize == 0 as ZSTD_CONTENTSIZE_UNKNOWN, but
 *       ZSTD_CCtx_setPledgedSrcSize() does not do the same, so ZSTD_CONTENTSIZE_UNKNOWN must be
 *       explicitly specified.
 *
 *  start a new frame, using same parameters from previous frame.
 *  This is typically useful to skip dictionary loading stage, since it will reuse it in-place.
 *  Note that zcs must be init at least once before using ZSTD_resetCStream().
 *  If pledgedSrcSize is not known at reset time, use macro ZSTD_CONTENTSIZE_UNKNOWN.
 *  If pledgedSrcSize > 0, its value must be correct, as it will be written in header, and controlled at the end.
 *  For the time being, pledgedSrcSize==0 is interpreted as "srcSize unknown" for compatibility with older programs,
 *  but it will change to mean "empty" in future version, so use macro ZSTD_CONTENTSIZE_UNKNOWN instead.
 * @return : 0, or an error code (which can be tested using ZSTD_isError())
 *  This prototype will generate compilation warnings.
 */
ZSTD_DEPRECATED("use ZSTD_CCtx_reset, see zstd.h for detailed instructions")
ZSTDLIB_STATIC_API
size_t ZSTD_resetCStream(ZSTD_CStream* zcs, unsigned long long pledgedSrcSize);


typedef struct {
    unsigned long long ingested;   /* nb input bytes read and buffered */
    unsigned long long consumed;   /* nb input bytes actually compressed */
    unsigned long long produced;   /* nb of compressed bytes generated and buffered */
    unsigned long long flushed;    /* nb of compressed bytes flushed : not provided; can be tracked from caller side */
    unsigned currentJobID;         /* MT only : latest started job nb */
    unsigned nbActiveWorkers;      /* MT only : nb of workers actively compressing at probe time */
} ZSTD_frameProgression;

/* ZSTD_getFrameProgression() :
 * tells how much data has been ingested (read from input)
 * consumed (input actually compressed) and produced (output) for current frame.
 * Note : (ingested - consumed) is amount of input data buffered internally, not yet compressed.
 * Aggregates progression inside active worker threads.
 */
ZSTDLIB_STATIC_API ZSTD_frameProgression ZSTD_getFrameProgression(const ZSTD_CCtx* cctx);

/*! ZSTD_toFlushNow() :
 *  Tell how many bytes are ready to be flushed immediately.
 *  Useful for multithreading scenarios (nbWorkers >= 1).
 *  Probe the oldest active job, defined as oldest job not yet entirely flushed,
 *  and check its output buffer.
 * @return : amount of data stored in oldest job and ready to be flushed immediately.
 *  if @return == 0, it means either :
 *  + there is no active job (could be checked with ZSTD_frameProgression()), or
 *  + oldest job is still actively compressing data,
 *    but everything it has produced has also been flushed so far,
 *    therefore flush speed is limited by production speed of oldest job
 *    irrespective of the speed of concurrent (and newer) jobs.
 */
ZSTDLIB_STATIC_API size_t ZSTD_toFlushNow(ZSTD_CCtx* cctx);


/*=====   Advanced Streaming decompression functions  =====*/

/*!
 * This function is deprecated, and is equivalent to:
 *
 *     ZSTD_DCtx_reset(zds, ZSTD_reset_session_only);
 *     ZSTD_DCtx_loadDictionary(zds, dict, dictSize);
 *
 * note: no dictionary will be used if dict == NULL or dictSize < 8
 */
ZSTD_DEPRECATED("use ZSTD_DCtx_reset + ZSTD_DCtx_loadDictionary, see zstd.h for detailed instructions")
ZSTDLIB_STATIC_API size_t ZSTD_initDStream_usingDict(ZSTD_DStream* zds, const void* dict, size_t dictSize);

/*!
 * This function is deprecated, and is equivalent to:
 *
 *     ZSTD_DCtx_reset(zds, ZSTD_reset_session_only);
 *     ZSTD_DCtx_refDDict(zds, ddict);
 *
 * note : ddict is referenced, it must outlive decompression session
 */
ZSTD_DEPRECATED("use ZSTD_DCtx_reset + ZSTD_DCtx_refDDict, see zstd.h for detailed instructions")
ZSTDLIB_STATIC_API size_t ZSTD_initDStream_usingDDict(ZSTD_DStream* zds, const ZSTD_DDict* ddict);

/*!
 * This function is deprecated, and is equivalent to:
 *
 *     ZSTD_DCtx_reset(zds, ZSTD_reset_session_only);
 *
 * reuse decompression parameters from previous init; saves dictionary loading
 */
ZSTD_DEPRECATED("use ZSTD_DCtx_reset, see zstd.h for detailed instructions")
ZSTDLIB_STATIC_API size_t ZSTD_resetDStream(ZSTD_DStream* zds);


/* ********************* BLOCK-LEVEL SEQUENCE PRODUCER API *********************
 *
 * *** OVERVIEW ***
 * The Block-Level Sequence Producer API allows users to provide their own custom
 * sequence producer which libzstd invokes to process each block. The produced list
 * of sequences (literals and matches) is then post-processed by libzstd to produce
 * valid compressed blocks.
 *
 * This block-level offload API is a more granular complement of the existing
 * frame-level offload API compressSequences() (introduced in v1.5.1). It offers
 * an easier migration story for applications already integrated with libzstd: the
 * user application continues to invoke the same compression functions
 * ZSTD_compress2() or ZSTD_compressStream2() as usual, and transparently benefits
 * from the specific advantages of the external sequence producer. For example,
 * the sequence producer could be tuned to take advantage of known characteristics
 * of the input, to offer better speed / ratio, or could leverage hardware
 * acceleration not available within libzstd itself.
 *
 * See contrib/externalSequenceProducer for an example program employing the
 * Block-Level Sequence Producer API.
 *
 * *** USAGE ***
 * The user is responsible for implementing a function of type
 * ZSTD_sequenceProducer_F. For each block, zstd will pass the following
 * arguments to the user-provided function:
 *
 *   - sequenceProducerState: a pointer to a user-managed state for the sequence
 *     producer.
 *
 *   - outSeqs, outSeqsCapacity: an output buffer for the sequence producer.
 *     outSeqsCapacity is guaranteed >= ZSTD_sequenceBound(srcSize). The memory
 *     backing outSeqs is managed by the CCtx.
 *
 *   - src, srcSize: an input buffer for the sequence producer to parse.
 *     srcSize is guaranteed to be <= ZSTD_BLOCKSIZE_MAX.
 *
 *   - dict, dictSize: a history buffer, which may be empty, which the sequence
 *     producer may reference as it parses the src buffer. Currently, zstd will
 *     always pass dictSize == 0 into external sequence producers, but this will
 *     change in the future.
 *
 *   - compressionLevel: a signed integer representing the zstd compression level
 *     set by the user for the current operation. The sequence producer may choose
 *     to use this information to change its compression strategy and speed/ratio
 *     tradeoff. Note: the compression level does not reflect zstd parameters set
 *     through the advanced API.
 *
 *   - windowSize: a size_t representing the maximum allowed offset for external
 *     sequences. Note that sequence offsets are sometimes allowed to exceed the
 *     windowSize if a dictionary is present, see doc/zstd_compression_format.md
 *     for details.
 *
 * The user-provided function shall return a size_t representing the number of
 * sequences written to outSeqs. This return value will be treated as an error
 * code if it is greater than outSeqsCapacity. The return value must be non-zero
 * if srcSize is non-zero. The ZSTD_SEQUENCE_PRODUCER_ERROR macro is provided
 * for convenience, but any value greater than outSeqsCapacity will be treated as
 * an error code.
 *
 * If the user-provided function does not return an error code, the sequences
 * written to outSeqs must be a valid parse of the src buffer. Data corruption may
 * occur if the parse is not valid. A parse is defined to be valid if the
 * following conditions hold:
 *   - The sum of matchLengths and literalLengths must equal srcSize.
 *   - All sequences in the parse, except for the final sequence, must have
 *     matchLength >= ZSTD_MINMATCH_MIN. The final sequence must have
 *     matchLength >= ZSTD_MINMATCH_MIN or matchLength == 0.
 *   - All offsets must respect the windowSize parameter as specified in
 *     doc/zstd_compression_format.md.
 *   - If the final sequence has matchLength == 0, it must also have offset == 0.
 *
 * zstd will only validate these conditions (and fail compression if they do not
 * hold) if the ZSTD_c_validateSequences cParam is enabled. Note that sequence
 * validation has a performance cost.
 *
 * If the user-provided function returns an error, zstd will either fall back
 * to an internal sequence producer or fail the compression operation. The user can
 * choose between the two behaviors by setting the ZSTD_c_enableSeqProducerFallback
 * cParam. Fallback compression will follow any other cParam settings, such as
 * compression level, the same as in a normal compression operation.
 *
 * The user shall instruct zstd to use a particular ZSTD_sequenceProducer_F
 * function by calling
 *         ZSTD_registerSequenceProducer(cctx,
 *                                       sequenceProducerState,
 *                                       sequenceProducer)
 * This setting will persist until the next parameter reset of the CCtx.
 *
 * The sequenceProducerState must be initialized by the user before calling
 * ZSTD_registerSequenceProducer(). The user is responsible for destroying the
 * sequenceProducerState.
 *
 * *** LIMITATIONS ***
 * This API is compatible with all zstd compression APIs which respect advanced parameters.
 * However, there are three limitations:
 *
 * First, the ZSTD_c_enableLongDistanceMatching cParam is not currently supported.
 * COMPRESSION WILL FAIL if it is enabled and the user tries to compress with a block-level
 * external sequence producer.
 *   - Note that ZSTD_c_enableLongDistanceMatching is auto-enabled by default in some
 *     cases (see its documentation for details). Users must explicitly set
 *     ZSTD_c_enableLongDistanceMatching to ZSTD_ps_disable in such cases if an external
 *     sequence producer is registered.
 *   - As of this writing, ZSTD_c_enableLongDistanceMatching is disabled by default
 *     whenever ZSTD_c_windowLog < 128MB, but that's subject to change. Users should
 *     check the docs on ZSTD_c_enableLongDistanceMatching whenever the Block-Level Sequence
 *     Producer API is used in conjunction with advanced settings (like ZSTD_c_windowLog).
 *
 * Second, history buffers are not currently supported. Concretely, zstd will always pass
 * dictSize == 0 to the external sequence producer (for now). This has two implications:
 *   - Dictionaries are not currently supported. Compression will *not* fail if the user
 *     references a dictionary, but the dictionary won't have any effect.
 *   - Stream history is not currently supported. All advanced compression APIs, including
 *     streaming APIs, work with external sequence producers, but each block is treated as
 *     an independent chunk without history from previous blocks.
 *
 * Third, multi-threading within a single compression is not currently supported. In other words,
 * COMPRESSION WILL FAIL if ZSTD_c_nbWorkers > 0 and an external sequence producer is registered.
 * Multi-threading across compressions is fine: simply create one CCtx per thread.
 *
 * Long-term, we plan to overcome all three limitations. There is no technical blocker to
 * overcoming them. It is purely a question of engineering effort.
 */

#define ZSTD_SEQUENCE_PRODUCER_ERROR ((size_t)(-1))

typedef size_t (*ZSTD_sequenceProducer_F) (
  void* sequenceProducerState,
  ZSTD_Sequence* outSeqs, size_t outSeqsCapacity,
  const void* src, size_t srcSize,
  const void* dict, size_t dictSize,
  int compressionLevel,
  size_t windowSize
);

/*! ZSTD_registerSequenceProducer() :
 * Instruct zstd to use a block-level external sequence producer function.
 *
 * The sequenceProducerState must be initialized by the caller, and the caller is
 * responsible for managing its lifetime. This parameter is sticky across
 * compressions. It will remain set until the user explicitly resets compression
 * parameters.
 *
 * Sequence producer registration is considered to be an "advanced parameter",
 * part of the "advanced API". This means it will only have an effect on compression
 * APIs which respect advanced parameters, such as compress2() and compressStream2().
 * Older compression APIs such as compressCCtx(), which predate the introduction of
 * "advanced parameters", will ignore any external sequence producer setting.
 *
 * The sequence producer can be "cleared" by registering a NULL function pointer. This
 * removes all limitations described above in the "LIMITATIONS" section of the API docs.
 *
 * The user is strongly encouraged to read the full API documentation (above) before
 * calling this function. */
ZSTDLIB_STATIC_API void
ZSTD_registerSequenceProducer(
  ZSTD_CCtx* cctx,
  void* sequenceProducerState,
  ZSTD_sequenceProducer_F sequenceProducer
);

/*! ZSTD_CCtxParams_registerSequenceProducer() :
 * Same as ZSTD_registerSequenceProducer(), but operates on ZSTD_CCtx_params.
 * This is used for accurate size estimation with ZSTD_estimateCCtxSize_usingCCtxParams(),
 * which is needed when creating a ZSTD_CCtx with ZSTD_initStaticCCtx().
 *
 * If you are using the external sequence producer API in a scenario where ZSTD_initStaticCCtx()
 * is required, then this function is for you. Otherwise, you probably don't need it.
 *
 * See tests/zstreamtest.c for example usage. */
ZSTDLIB_STATIC_API void
ZSTD_CCtxParams_registerSequenceProducer(
  ZSTD_CCtx_params* params,
  void* sequenceProducerState,
  ZSTD_sequenceProducer_F sequenceProducer
);


/*********************************************************************
*  Buffer-less and synchronous inner streaming functions (DEPRECATED)
*
*  This API is deprecated, and will be removed in a future version.
*  It allows streaming (de)compression with user allocated buffers.
*  However, it is hard to use, and not as well tested as the rest of
*  our API.
*
*  Please use the normal streaming API instead: ZSTD_compressStream2,
*  and ZSTD_decompressStream.
*  If there is functionality that you need, but it doesn't provide,
*  please open an issue on our GitHub.
********************************************************************* */

/**
  Buffer-less streaming compression (synchronous mode)

  A ZSTD_CCtx object is required to track streaming operations.
  Use ZSTD_createCCtx() / ZSTD_freeCCtx() to manage resource.
  ZSTD_CCtx object can be reused multiple times within successive compression operations.

  Start by initializing a context.
  Use ZSTD_compressBegin(), or ZSTD_compressBegin_usingDict() for dictionary compression.

  Then, consume your input using ZSTD_compressContinue().
  There are some important considerations to keep in mind when using this advanced function :
  - ZSTD_compressContinue() has no internal buffer. It uses externally provided buffers only.
  - Interface is synchronous : input is consumed entirely and produces 1+ compressed blocks.
  - Caller must ensure there is enough space in `dst` to store compressed data under worst case scenario.
    Worst case evaluation is provided by ZSTD_compressBound().
    ZSTD_compressContinue() doesn't guarantee recover after a failed compression.
  - ZSTD_compressContinue() presumes prior input ***is still accessible and unmodified*** (up to maximum distance size, see WindowLog).
    It remembers all previous contiguous blocks, plus one separated memory segment (which can itself consists of multiple contiguous blocks)
  - ZSTD_compressContinue() detects that prior input has been overwritten when `src` buffer overlaps.
    In which case, it will "discard" the relevant memory section from its history.

  Finish a frame with ZSTD_compressEnd(), which will write the last block(s) and optional checksum.
  It's possible to use srcSize==0, in which case, it will write a final empty block to end the frame.
  Without last block mark, frames are considered unfinished (hence corrupted) by compliant decoders.

  `ZSTD_CCtx` object can be reused (ZSTD_compressBegin()) to compress again.
*/

/*=====   Buffer-less streaming compression functions  =====*/
ZSTD_DEPRECATED("The buffer-less API is deprecated in favor of the normal streaming API. See docs.")
ZSTDLIB_STATIC_API size_t ZSTD_compressBegin(ZSTD_CCtx* cctx, int compressionLevel);
ZSTD_DEPRECATED("The buffer-less API is deprecated in favor of the normal streaming API. See docs.")
ZSTDLIB_STATIC_API size_t ZSTD_compressBegin_usingDict(ZSTD_CCtx* cctx, const void* dict, size_t dictSize, int compressionLevel);
ZSTD_DEPRECATED("The buffer-less API is deprecated in favor of the normal streaming API. See docs.")
ZSTDLIB_STATIC_API size_t ZSTD_compressBegin_usingCDict(ZSTD_CCtx* cctx, const ZSTD_CDict* cdict); /**< note: fails if cdict==NULL */

ZSTD_DEPRECATED("This function will likely be removed in a future release. It is misleading and has very limited utility.")
ZSTDLIB_STATIC_API
size_t ZSTD_copyCCtx(ZSTD_CCtx* cctx, const ZSTD_CCtx* preparedCCtx, unsigned long long pledgedSrcSize); /**<  note: if pledgedSrcSize is not known, use ZSTD_CONTENTSIZE_UNKNOWN */

ZSTD_DEPRECATED("The buffer-less API is deprecated in favor of the normal streaming API. See docs.")
ZSTDLIB_STATIC_API size_t ZSTD_compressContinue(ZSTD_CCtx* cctx, void* dst, size_t dstCapacity, const void* src, size_t srcSize);
ZSTD_DEPRECATED("The buffer-less API is deprecated in favor of the normal streaming API. See docs.")
ZSTDLIB_STATIC_API size_t ZSTD_compressEnd(ZSTD_CCtx* cctx, void* dst, size_t dstCapacity, const void* src, size_t srcSize);

/* The ZSTD_compressBegin_advanced() and ZSTD_compressBegin_usingCDict_advanced() are now DEPRECATED and will generate a compiler warning */
ZSTD_DEPRECATED("use advanced API to access custom parameters")
ZSTDLIB_STATIC_API
size_t ZSTD_compressBegin_advanced(ZSTD_CCtx* cctx, const void* dict, size_t dictSize, ZSTD_parameters params, unsigned long long pledgedSrcSize); /**< pledgedSrcSize : If srcSize is not known at init time, use ZSTD_CONTENTSIZE_UNKNOWN */
ZSTD_DEPRECATED("use advanced API to access custom parameters")
ZSTDLIB_STATIC_API
size_t ZSTD_compressBegin_usingCDict_advanced(ZSTD_CCtx* const cctx, const ZSTD_CDict* const cdict, ZSTD_frameParameters const fParams, unsigned long long const pledgedSrcSize);   /* compression parameters are already set within cdict. pledgedSrcSize must be correct. If srcSize is not known, use macro ZSTD_CONTENTSIZE_UNKNOWN */
/**
  Buffer-less streaming decompression (synchronous mode)

  A ZSTD_DCtx object is required to track streaming operations.
  Use ZSTD_createDCtx() / ZSTD_freeDCtx() to manage it.
  A ZSTD_DCtx object can be reused multiple times.

  First typical operation is to retrieve frame parameters, using ZSTD_getFrameHeader().
  Frame header is extracted from the beginning of compressed frame, so providing only the frame's beginning is enough.
  Data fragment must be large enough to ensure successful decoding.
 `ZSTD_frameHeaderSize_max` bytes is guaranteed to always be large enough.
  result  : 0 : successful decoding, the `ZSTD_frameHeader` structure is correctly filled.
           >0 : `srcSize` is too small, please provide at least result bytes on next attempt.
           errorCode, which can be tested using ZSTD_isError().

  It fills a ZSTD_FrameHeader structure with important information to correctly decode the frame,
  such as the dictionary ID, content size, or maximum back-reference distance (`windowSize`).
  Note that these values could be wrong, either because of data corruption, or because a 3rd party deliberately spoofs false information.
  As a consequence, check that values remain within valid application range.
  For example, do not allocate memory blindly, check that `windowSize` is within expectation.
  Each application can set its own limits, depending on local restrictions.
  For extended interoperability, it is recommended to support `windowSize` of at least 8 MB.

  ZSTD_decompressContinue() needs previous data blocks during decompression, up to `windowSize` bytes.
  ZSTD_decompressContinue() is very sensitive to contiguity,
  if 2 blocks don't follow each other, make sure that either the compressor breaks contiguity at the same place,
  or that previous contiguous segment is large enough to properly handle maximum back-reference distance.
  There are multiple ways to guarantee this condition.

  The most memory efficient way is to use a round buffer of sufficient size.
  Sufficient size is determined by invoking ZSTD_decodingBufferSize_min(),
  which can return an error code if required value is too large for current system (in 32-bits mode).
  In a round buffer methodology, ZSTD_decompressContinue() decompresses each block next to previous one,
  up to the moment there is not enough room left in the buffer to guarantee decoding another full block,
  which maximum size is provided in `ZSTD_frameHeader` structure, field `blockSizeMax`.
  At which point, decoding can resume from the beginning of the buffer.
  Note that already decoded data stored in the buffer should be flushed before being overwritten.

  There are alternatives possible, for example using two or more buffers of size `windowSize` each, though they consume more memory.

  Finally, if you control the compression process, you can also ignore all buffer size rules,
  as long as the encoder and decoder progress in "lock-step",
  aka use exactly the same buffer sizes, break contiguity at the same place, etc.

  Once buffers are setup, start decompression, with ZSTD_decompressBegin().
  If decompression requires a dictionary, use ZSTD_decompressBegin_usingDict() or ZSTD_decompressBegin_usingDDict().

  Then use ZSTD_nextSrcSizeToDecompress() and ZSTD_decompressContinue() alternatively.
  ZSTD_nextSrcSizeToDecompress() tells how many bytes to provide as 'srcSize' to ZSTD_decompressContinue().
  ZSTD_decompressContinue() requires this _exact_ amount of bytes, or it will fail.

  result of ZSTD_decompressContinue() is the number of bytes regenerated within 'dst' (necessarily <= dstCapacity).
  It can be zero : it just means ZSTD_decompressContinue() has decoded some metadata item.
  It can also be an error code, which can be tested with ZSTD_isError().

  A frame is fully decoded when ZSTD_nextSrcSizeToDecompress() returns zero.
  Context can then be reset to start a new decompression.

  Note : it's possible to know if next input to present is a header or a block, using ZSTD_nextInputType().
  This information is not required to properly decode a frame.

  == Special case : skippable frames ==

  Skippable frames allow integration of user-defined data into a flow of concatenated frames.
  Skippable frames will be ignored (skipped) by decompressor.
  The format of skippable frames is as follows :
  a) Skippable frame ID - 4 Bytes, Little endian format, any value from 0x184D2A50 to 0x184D2A5F
  b) Frame Size - 4 Bytes, Little endian format, unsigned 32-bits
  c) Frame Content - any content (User Data) of length equal to Frame Size
  For skippable frames ZSTD_getFrameHeader() returns zfhPtr->frameType==ZSTD_skippableFrame.
  For skippable frames ZSTD_decompressContinue() always returns 0 : it only skips the content.
*/

/*=====   Buffer-less streaming decompression functions  =====*/

ZSTDLIB_STATIC_API size_t ZSTD_decodingBufferSize_min(unsigned long long windowSize, unsigned long long frameContentSize);  /**< when frame content size is not known, pass in frameContentSize == ZSTD_CONTENTSIZE_UNKNOWN */

ZSTDLIB_STATIC_API size_t ZSTD_decompressBegin(ZSTD_DCtx* dctx);
ZSTDLIB_STATIC_API size_t ZSTD_decompressBegin_usingDict(ZSTD_DCtx* dctx, const void* dict, size_t dictSize);
ZSTDLIB_STATIC_API size_t ZSTD_decompressBegin_usingDDict(ZSTD_DCtx* dctx, const ZSTD_DDict* ddict);

ZSTDLIB_STATIC_API size_t ZSTD_nextSrcSizeToDecompress(ZSTD_DCtx* dctx);
ZSTDLIB_STATIC_API size_t ZSTD_decompressContinue(ZSTD_DCtx* dctx, void* dst, size_t dstCapacity, const void* src, size_t srcSize);

/* misc */
ZSTD_DEPRECATED("This function will likely be removed in the next minor release. It is misleading and has very limited utility.")
ZSTDLIB_STATIC_API void   ZSTD_copyDCtx(ZSTD_DCtx* dctx, const ZSTD_DCtx* preparedDCtx);
typedef enum { ZSTDnit_frameHeader, ZSTDnit_blockHeader, ZSTDnit_block, ZSTDnit_lastBlock, ZSTDnit_checksum, ZSTDnit_skippableFrame } ZSTD_nextInputType_e;
ZSTDLIB_STATIC_API ZSTD_nextInputType_e ZSTD_nextInputType(ZSTD_DCtx* dctx);




/* ========================================= */
/**       Block level API (DEPRECATED)       */
/* ========================================= */

/*!

    This API is deprecated in favor of the regular compression API.
    You can get the frame header down to 2 bytes by setting:
      - ZSTD_c_format = ZSTD_f_zstd1_magicless
      - ZSTD_c_contentSizeFlag = 0
      - ZSTD_c_checksumFlag = 0
      - ZSTD_c_dictIDFlag = 0

    This API is not as well tested as our normal API, so we recommend not using it.
    We will be removing it in a future version. If the normal API doesn't provide
    the functionality you need, please open a GitHub issue.

    Block functions produce and decode raw zstd blocks, without frame metadata.
    Frame metadata cost is typically ~12 bytes, which can be non-negligible for very small blocks (< 100 bytes).
    But users will have to take in charge needed metadata to regenerate data, such as compressed and content sizes.

    A few rules to respect :
    - Compressing and decompressing require a context structure
      + Use ZSTD_createCCtx() and ZSTD_createDCtx()
    - It is necessary to init context before starting
      + compression : any ZSTD_compressBegin*() variant, including with dictionary
      + decompression : any ZSTD_decompressBegin*() variant, including with dictionary
    - Block size is limited, it must be <= ZSTD_getBlockSize() <= ZSTD_BLOCKSIZE_MAX == 128 KB
      + If input is larger than a block size, it's necessary to split input data into multiple blocks
      + For inputs larger than a single block, consider using regular ZSTD_compress() instead.
        Frame metadata is not that costly, and quickly becomes negligible as source size grows larger than a block.
    - When a block is considered not compressible enough, ZSTD_compressBlock() result will be 0 (zero) !
      ===> In which case, nothing is produced into `dst` !
      + User __must__ test for such outcome and deal directly with uncompressed data
      + A block cannot be declared incompressible if ZSTD_compressBlock() return value was != 0.
        Doing so would mess up with statistics history, leading to potential data corruption.
      + ZSTD_decompressBlock() _doesn't accept uncompressed data as input_ !!
      + In case of multiple successive blocks, should some of them be uncompressed,
        decoder must be informed of their existence in order to follow proper history.
        Use ZSTD_insertBlock() for such a case.
*/

/*=====   Raw zstd block functions  =====*/
ZSTD_DEPRECATED("The block API is deprecated in favor of the normal compression API. See docs.")
ZSTDLIB_STATIC_API size_t ZSTD_getBlockSize   (const ZSTD_CCtx* cctx);
ZSTD_DEPRECATED("The block API is deprecated in favor of the normal compression API. See docs.")
ZSTDLIB_STATIC_API size_t ZSTD_compressBlock  (ZSTD_CCtx* cctx, void* dst, size_t dstCapacity, const void* src, size_t srcSize);
ZSTD_DEPRECATED("The block API is deprecated in favor of the normal compression API. See docs.")
ZSTDLIB_STATIC_API size_t ZSTD_decompressBlock(ZSTD_DCtx* dctx, void* dst, size_t dstCapacity, const void* src, size_t srcSize);
ZSTD_DEPRECATED("The block API is deprecated in favor of the normal compression API. See docs.")
ZSTDLIB_STATIC_API size_t ZSTD_insertBlock    (ZSTD_DCtx* dctx, const void* blockStart, size_t blockSize);  /**< insert uncompressed block into `dctx` history. Useful for multi-blocks decompression. */

#if defined (__cplusplus)
}
#endif

#endif   /* ZSTD_H_ZSTD_STATIC_LINKING_ONLY */
