/*
 * Copyright (c) Meta Platforms, Inc. and affiliates.
 * All rights reserved.
 *
 * This source code is licensed under both the BSD-style license (found in the
 * LICENSE file in the root directory of this source tree) and the GPLv2 (found
 * in the COPYING file in the root directory of this source tree).
 * You may select, at your option, one of the above-listed licenses.
 */

#ifndef ZSTD_ERRORS_H_398273423
#define ZSTD_ERRORS_H_398273423

#if defined (__cplusplus)
extern "C" {
#endif

/* =====   ZSTDERRORLIB_API : control library symbols visibility   ===== */
#ifndef ZSTDERRORLIB_VISIBLE
   /* Backwards compatibility with old macro name */
#  ifdef ZSTDERRORLIB_VISIBILITY
#    define ZSTDERRORLIB_VISIBLE ZSTDERRORLIB_VISIBILITY
#  elif defined(__GNUC__) && (__GNUC__ >= 4) && !defined(__MINGW32__)
#    define ZSTDERRORLIB_VISIBLE __attribute__ ((visibility ("default")))
#  else
#    define ZSTDERRORLIB_VISIBLE
#  endif
#endif

#ifndef ZSTDERRORLIB_HIDDEN
#  if defined(__GNUC__) && (__GNUC__ >= 4) && !defined(__MINGW32__)
#    define ZSTDERRORLIB_HIDDEN __attribute__ ((visibility ("hidden")))
#  else
#    define ZSTDERRORLIB_HIDDEN
#  endif
#endif

#if defined(ZSTD_DLL_EXPORT) && (ZSTD_DLL_EXPORT==1)
#  define ZSTDERRORLIB_API __declspec(dllexport) ZSTDERRORLIB_VISIBLE
#elif defined(ZSTD_DLL_IMPORT) && (ZSTD_DLL_IMPORT==1)
#  define ZSTDERRORLIB_API __declspec(dllimport) ZSTDERRORLIB_VISIBLE /* It isn't required but allows to generate better code, saving a function pointer load from the IAT and an indirect jump.*/
#else
#  define ZSTDERRORLIB_API ZSTDERRORLIB_VISIBLE
#endif

/*-*********************************************
 *  Error codes list
 *-*********************************************
 *  Error codes _values_ are pinned down since v1.3.1 only.
 *  Therefore, don't rely on values if you may link to any version < v1.3.1.
 *
 *  Only values < 100 are considered stable.
 *
 *  note 1 : this API shall be used with static linking only.
 *           dynamic linking is not yet officially supported.
 *  note 2 : Prefer relying on the enum than on its value whenever possible
 *           This is the only supported way to use the error list < v1.3.1
 *  note 3 : ZSTD_isError() is always correct, whatever the library version.
 **********************************************/
typedef enum {
  ZSTD_error_no_error = 0,
  ZSTD_error_GENERIC  = 1,
  ZSTD_error_prefix_unknown                = 10,
  ZSTD_error_version_unsupported           = 12,
  ZSTD_error_frameParameter_unsupported    = 14,
  ZSTD_error_frameParameter_windowTooLarge = 16,
  ZSTD_error_corruption_detected = 20,
  ZSTD_error_checksum_wrong      = 22,
  ZSTD_error_literals_headerWrong = 24,
  ZSTD_error_dictionary_corrupted      = 30,
  ZSTD_error_dictionary_wrong          = 32,
  ZSTD_error_dictionaryCreation_failed = 34,
  ZSTD_error_parameter_unsupported   = 40,
  ZSTD_error_parameter_combination_unsupported = 41,
  ZSTD_error_parameter_outOfBound    = 42,
  ZSTD_error_tableLog_tooLarge       = 44,
  ZSTD_error_maxSymbolValue_tooLarge = 46,
  ZSTD_error_maxSymbolValue_tooSmall = 48,
  ZSTD_error_cannotProduce_uncompressedBlock = 49,
  ZSTD_error_stabilityCondition_notRespected = 50,
  ZSTD_error_stage_wrong       = 60,
  ZSTD_error_init_missing      = 62,
  ZSTD_error_memory_allocation = 64,
  ZSTD_error_workSpace_tooSmall= 66,
  ZSTD_error_dstSize_tooSmall = 70,
  ZSTD_error_srcSize_wrong    = 72,
  ZSTD_error_dstBuffer_null   = 74,
  ZSTD_error_noForwardProgress_destFull = 80,
  ZSTD_error_noForwardProgress_inputEmpty = 82,
  /* following error codes are __NOT STABLE__, they can be removed or changed in future versions */
  ZSTD_error_frameIndex_tooLarge = 100,
  ZSTD_error_seekableIO          = 102,
  ZSTD_error_dstBuffer_wrong     = 104,
  ZSTD_error_srcBuffer_wrong     = 105,
  ZSTD_error_sequenceProducer_failed = 106,
  ZSTD_error_externalSequences_invalid = 107,
  ZSTD_error_maxCode = 120  /* never EVER use this value directly, it can change in future versions! Use ZSTD_isError() instead */
} ZSTD_ErrorCode;

ZSTDERRORLIB_API const char* ZSTD_getErrorString(ZSTD_ErrorCode code);   /**< Same as ZSTD_getErrorName, but using a `ZSTD_ErrorCode` enum argument */


#if defined (__cplusplus)
}
#endif

#endif /* ZSTD_ERRORS_H_398273423 */
