; ModuleID = 'probe0.6c2779e547e7c6b5-cgu.0'
source_filename = "probe0.6c2779e547e7c6b5-cgu.0"
target datalayout = "e-m:e-p270:32:32-p271:32:32-p272:64:64-i64:64-i128:128-f80:128-n8:16:32:64-S128"
target triple = "x86_64-unknown-linux-gnu"

!llvm.module.flags = !{!0, !1}
!llvm.ident = !{!2}

!0 = !{i32 8, !"PIC Level", i32 2}
!1 = !{i32 2, !"RtLibUseGOT", i32 1}
!2 = !{!"rustc version 1.97.0-nightly (ad3a598ca 2026-05-03)"}
