; ModuleID = 'probe1.1b5804d105718845-cgu.0'
source_filename = "probe1.1b5804d105718845-cgu.0"
target datalayout = "e-m:e-p270:32:32-p271:32:32-p272:64:64-i64:64-i128:128-f80:128-n8:16:32:64-S128"
target triple = "x86_64-unknown-linux-gnu"

@alloc_f93507f8ba4b5780b14b2c2584609be0 = private unnamed_addr constant [8 x i8] c"\00\00\00\00\00\00\F0?", align 8
@alloc_ef0a1f828f3393ef691f2705e817091c = private unnamed_addr constant [8 x i8] c"\00\00\00\00\00\00\00@", align 8

; probe1::probe
; Function Attrs: nonlazybind uwtable
define void @_RNvCs2ly8eUAtcdl_6probe15probe() unnamed_addr #0 {
start:
; call <f64>::total_cmp
  %_1 = call i8 @_RNvMNtCsanpdEcSfypT_4core3f64d9total_cmpCs2ly8eUAtcdl_6probe1(ptr align 8 @alloc_f93507f8ba4b5780b14b2c2584609be0, ptr align 8 @alloc_ef0a1f828f3393ef691f2705e817091c) #3
  ret void
}

; <f64>::total_cmp
; Function Attrs: inlinehint nonlazybind uwtable
define internal i8 @_RNvMNtCsanpdEcSfypT_4core3f64d9total_cmpCs2ly8eUAtcdl_6probe1(ptr align 8 %self, ptr align 8 %other) unnamed_addr #1 {
start:
  %_6 = alloca [8 x i8], align 8
  %_3 = alloca [8 x i8], align 8
  %_5 = load double, ptr %self, align 8
  %_4 = bitcast double %_5 to i64
  store i64 %_4, ptr %_3, align 8
  %_8 = load double, ptr %other, align 8
  %_7 = bitcast double %_8 to i64
  store i64 %_7, ptr %_6, align 8
  %_13 = load i64, ptr %_3, align 8
  %_12 = ashr i64 %_13, 63
  %_10 = lshr i64 %_12, 1
  %0 = load i64, ptr %_3, align 8
  %1 = xor i64 %0, %_10
  store i64 %1, ptr %_3, align 8
  %_18 = load i64, ptr %_6, align 8
  %_17 = ashr i64 %_18, 63
  %_15 = lshr i64 %_17, 1
  %2 = load i64, ptr %_6, align 8
  %3 = xor i64 %2, %_15
  store i64 %3, ptr %_6, align 8
  %4 = load i64, ptr %_3, align 8
  %5 = load i64, ptr %_6, align 8
  %_0 = call i8 @llvm.scmp.i8.i64(i64 %4, i64 %5)
  ret i8 %_0
}

; Function Attrs: nocallback nocreateundeforpoison nofree nosync nounwind speculatable willreturn memory(none)
declare range(i8 -1, 2) i8 @llvm.scmp.i8.i64(i64, i64) #2

attributes #0 = { nonlazybind uwtable "probe-stack"="inline-asm" "target-cpu"="x86-64" }
attributes #1 = { inlinehint nonlazybind uwtable "probe-stack"="inline-asm" "target-cpu"="x86-64" }
attributes #2 = { nocallback nocreateundeforpoison nofree nosync nounwind speculatable willreturn memory(none) }
attributes #3 = { inlinehint }

!llvm.module.flags = !{!0, !1}
!llvm.ident = !{!2}

!0 = !{i32 8, !"PIC Level", i32 2}
!1 = !{i32 2, !"RtLibUseGOT", i32 1}
!2 = !{!"rustc version 1.97.0-nightly (ad3a598ca 2026-05-03)"}
