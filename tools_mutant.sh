#!/bin/bash
# usage: tools_mutant.sh <seeded dir> <property...>   — apply patch to /repo, run the quick checks, undo
set -u
D="$(cd "$1" && pwd)"; shift
cd /repo && git status --short | grep -v '^??' && { echo "repo dirty"; exit 2; }
git -C /repo apply "$D/patch.diff" || { echo "patch does not apply"; exit 2; }
for P in "$@"; do
  echo "== $P with $(basename $D)"
  ( cd /verif && VERIF_REPLAY_DIR=/tmp/mutant_replays VERIF_EVIDENCE=/tmp/mutant_evidence_$P.json ./check $P quick 2>&1 | grep -v "^KNOWN" | head -12 )
done
git -C /repo checkout -- .
echo "== repo restored"; git -C /repo status --short | grep -v '^??'
