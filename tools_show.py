import json,sys
r=json.load(open(sys.argv[1]))
print("class:",r['class'],"| policy",r['scenario']['policy'],"noisy",r['scenario']['noisy'],"| choices",len(r['choices']), "nonzero", sum(1 for c in r['choices'] if c))
for s in r['scenario']['sessions'][0]: print("  ",s['sql'][:400], "" if s['mode']=='normal' else s['mode'])
print("expect:",str(r['expect'])[:400]); print("observed:",r['observed'][:400]); print("detail:",r['detail'][:400])
